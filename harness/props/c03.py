"""C03 — Level coupling keeps the coarse path in the previous level's law (telescoping)   (DESIGN.md §4 C03).

C (correspondence): the real couplings (CouplingMarkovChain, CouplingProcessLevyCopula in d = 2 and 3 and on grids whose axes
differ, CouplingSDE) after 1..3 real `next_level` calls against the Lean model RpylibModel/Model/Coupling.lean run by
Drivers/C03.lean.  The model is fed the masses the real `mass` returns at exactly the intervals / (index set, box) pairs the
model asks for; cell boundaries, half cells, corner enumeration, probabilities, flows, sums, level bookkeeping (also the record
CouplingSDE.next_level keeps) are the model's own.
S (oracle, independent of the model): the telescoping identity evaluated on the implementation
    sum over fine states of  rate(x) * P(coupling sends x to y)  =  rate of y in a chain built on the un-refined grid,
lambda_coarse = lambda_fine - (rate sent to the origin), even increments copied / odd ones moved to an adjacent coarse state,
coarse diffusion coefficient and frozen drift = those of a stand-alone level-(l-1) chain, one Brownian vector for both; the same
identity with the jump laws of the chains as built by each of the six 1-d sampling methods through >= 3 levels; for the SDE
coupling the driver drift / diffusion coefficient / maximum step used by each component at every level, also read off what the
real Euler recursion consumes on a scripted driver path.
"""
from __future__ import annotations

import copy
import itertools
import math
import traceback
import warnings
from collections import deque
from fractions import Fraction

import numpy as np
import scipy.linalg

from .. import zoo
from ..common import w, wl, wll, rd, rdl, rdll, close, fr, Infra

from rpylib.distribution.sampling import SamplingMethod
from rpylib.distribution.samplingfactory import create_q_vector
from rpylib.grid.grid import Coordinates, CoordinateND
from rpylib.grid.spatial import CTMCCredit
from rpylib.montecarlo.path import MLMCPath
from rpylib.process.coupling.couplingmarkovchain import CouplingMarkovChain, CouplingSimulation
from rpylib.process.coupling.couplinglevycopula import CouplingProcessLevyCopula, CouplingLevyCopulaSimulation
from rpylib.process.markovchain.markovchain import MarkovChainProcess
from rpylib.process.markovchain.markovchainlevycopula import MarkovChainLevyCopula
from rpylib.product.payoff import Vanilla, PayoffType
from rpylib.product.product import Product
from rpylib.product.underlying import Spot

RULE = ("1-d structured: model families (HEM, Merton, VG, CGMY in all five activity branches; Levy and exponential-of-Levy) x "
        "parameter draws x the six grid constructors x h x {INVERSION, BINARYSEARCHTREEADAPTED1D} x 1..3 real next_level calls "
        "with a real Product and MLMC path managers; 1-d synthetic: random dyadic axes x piecewise-constant dyadic densities "
        "(zero-mass cells included); 1-d methods: each of the six sampling methods CouplingMarkovChain accepts x random family x "
        "{fixed, geometric-with-bounds, credit} grids x 3..4 successive next_level calls; 2-d: margins from the families x {Clayton, "
        "independent, dependent} x fixed 3/5-point coarse grids (5x5 / 9x9 fine; 3 levels up to 17x17 for both n-d methods) x "
        "{INVERSION, BINARYSEARCHTREEADAPTED}, every fine increment of every parity; 3-d: the same on 3^3 -> 5^3 (thorough: 9^3), all "
        "seven parities; grids whose axes differ: the Lean witness axes and CTMCCredit with two distinct thresholds; the Lean negation "
        "witnesses replayed with TableMeasure margins; SDE coupling: 1-d drivers, jump-time mode with maximum step, 1..3 levels, one "
        "infinite-variation CGMY driver through 3 levels in every run. non-trivial = coupling built, >= 1 next_level call succeeded, "
        "fine grid has >= 5 points per axis; distinct = distinct (model, parameters, grid arguments, method, levels)")
NOT_PROVED = [
    "additivity / non-negativity of the concrete families' integrate() and of LevyCopulaModel.mass and its margins (hypotheses IsMass, "
    "IsBoxMass2, IsBoxMass3) are C09 / C11 / C12's subject",
    "n-d theorems are written out for d = 2 (equal axes; two different axes: what holds is proved - first coordinate odd, first-axis "
    "telescoping - and the rest refuted by the kernel-decided witness axes_counterexample, known finding "
    "C03-projected-coordinates-read-first-axes) and d = 3 on equal axes (all seven parities); d >= 4 and d = 3 on unequal axes are not "
    "stated; the telescoping theorems for d = 2, 3 cover measures carried by the coordinate axes (independent components): states "
    "on an axis, and off the axes (rate 0)",
    "telescoping for dependent copulas is FALSE of the code (theorem telescoping_nd_counterexample, known findings "
    "C03-copula-margin-coupling, -3d): only corner_probs_sum_one(_3d) and the independent case are theorems",
    "payoff expectations are not modelled: 'the multilevel sum telescopes' is the corollary of the law equality, which is stated "
    "and proved at the level of jump rates, diffusion coefficient, drift and shared Brownian increments",
    "SDE coupling: the record kept by CouplingSDE.next_level (driver drift, diffusion coefficient, maximum step of each component) is "
    "modelled and proved (sde_levels_induct) with the driver chain's coefficients as a function of the grid; its Euler recursion is "
    "C16's subject; copula-driven SDE couplings are covered through the copula coupling only",
    "that each sampler realises the law it is handed is C02's subject: the per-method oracle uses the probability vector given to the "
    "array samplers, the inversion sampler's own state probabilities and the adapted tree's own walk; the n-d adapted tree is "
    "exercised through the rates model.mass(cell) it targets",
    "float rounding of probabilities and sums (compared at 2^-40 relative; oracle 1e-12 * intensity)",
]
ASSUMPTIONS = [
    "masses evaluated by the real mass() at the model's (exact rational) boundaries converted to the nearest float are the "
    "masses the implementation uses: fl((a+b)/2) = 0.5*(a+b) barring underflow",
    "coupling uniforms are patched at p*(1 -/+ 2^-20) around the model's breakpoints; u exactly on a breakpoint is a don't-care",
    "3-d: levels whose fine grid has more than 9 points per axis, and the third level of the 3-level 2-d chains, are oracle-checked "
    "only (the model's per-coarse-state sum over all fine states is quadratic in the number of states)",
]
TRUSTED = ["scipy.special functions inside the families' integrate() (C09)", "copula volume formulas (C11/C12)",
           "scipy.linalg.sqrtm inside the copula chain's diffusion matrix (C04): non-finite entries are carried, not judged"]
LEANCHECKER = True

warnings.filterwarnings("ignore", category=scipy.linalg.LinAlgWarning)
warnings.filterwarnings("ignore", category=RuntimeWarning)

ORACLE_REL = 1e-12          # measured: <= 6e-16 * lambda over seeds 0..5 (1-d), <= 2e-15 (2-d independent)
METHODS_1D = {"INVERSION": SamplingMethod.INVERSION, "BINARYSEARCHTREEADAPTED1D": SamplingMethod.BINARYSEARCHTREEADAPTED1D}
METHODS_ND = {"INVERSION": SamplingMethod.INVERSION, "BINARYSEARCHTREEADAPTED": SamplingMethod.BINARYSEARCHTREEADAPTED}
ARRAY_SAMPLERS = {"BINARYSEARCHTREE": SamplingMethod.BINARYSEARCHTREE, "HUFFMANNTREE": SamplingMethod.HUFFMANNTREE,
                  "TABLE": SamplingMethod.TABLE, "ALIAS": SamplingMethod.ALIAS}
NOISE_REL = 1e-13          # a cell whose float mass is below this share of the intensity is a zero-mass cell
MAXDEV = {"1d": 0.0, "2d": 0.0, "corner": 0.0}     # largest oracle residual / lambda seen in this run (evidence)


# ------------------------------------------------------------------------------------------------------------ helpers
def the_product():
    return Product(payoff_underlying=Spot(), payoff=Vanilla(strike=100.0, payoff_type=PayoffType.CALL), maturity=1.0)


def axis_ok(ax, o):
    return 0 < o < len(ax) - 1 and ax[o] == 0.0 and all(a < b for a, b in zip(ax, ax[1:]))


def relclose(py, lean, floor=Fraction(0)):
    return close(py, lean, scale=max(abs(fr(lean)), fr(floor)))


def sdiv(a, b):
    """a / b as the implementation's numpy floats compute it (0/0 = nan, x/0 = inf) instead of raising"""
    return float(np.float64(a) / np.float64(b))


def frs(x):
    """fr, but None for a non-finite float (never equal to a model value)"""
    return fr(x) if math.isfinite(float(x)) else None


def finite(xs):
    return all(isinstance(x, (int, float, np.floating, np.integer)) and math.isfinite(float(x)) for x in xs)


def grid_from_desc(model, gd):
    kw = {}
    for src, dst in (("tp", "truncation_probability"), ("nb", "nb_of_points" if gd["kind"] == "fixed" else "nb"),
                     ("tr", "truncations"), ("mps", "minimum_probability_step"), ("a", "level_a"), ("sym", "symmetric_grid")):
        if src in gd:
            kw[dst] = tuple(gd[src]) if src == "tr" else gd[src]
    g, _ = zoo.make_grid(gd["kind"], model, gd["h"], dimension=gd.get("dim", 1), **kw)
    return g


def mid_rows(g, rows, seen):
    """measured table of the probability-step grid's own middle() ([] = arithmetic mean)"""
    if not isinstance(g, zoo.CTMCGridProbabilityStep):
        return
    ax = [float(x) for x in g.axes[0]]
    for a, b in zip(ax, ax[1:]):
        if (a, b) not in seen:
            seen.add((a, b))
            rows.append([a, b, float(g.middle(a, b))])


def guarded(ctx, d, cls, fn, *a, **k):
    """an exception raised from inside rpylib on a supported model / well-formed grid is a failure of the property on that
    input (the coupling does not exist there); anything else is a harness problem"""
    try:
        return fn(*a, **k)
    except Infra:
        raise
    except Exception as e:
        frames = traceback.extract_tb(e.__traceback__)
        if not any("/rpylib/" in f.filename for f in frames):
            raise
        where = [f"{f.filename.split('/rpylib/')[-1]}:{f.lineno}" for f in frames if "/rpylib/" in f.filename][-3:]
        via = "<".join(f.name for f in frames if "/rpylib/" in f.filename)
        ctx.fail("oracle", "c03.coupling.raises", d, {"exception": repr(e)[:400], "where": where, "call_chain": via},
                 cls=dict(cls, exception=type(e).__name__, raised_in=[f.name for f in frames if "/rpylib/" in f.filename][-2]
                          if len([f for f in frames if "/rpylib/" in f.filename]) >= 2 else via))


class ScriptedUniform:
    """stands for CouplingMarkovChain.uniform / CouplingProcessLevyCopula._uniform: returns the scripted values"""

    def __init__(self, values=()):
        self.values = list(values)
        self.calls = 0

    def sample(self):
        self.calls += 1
        return self.values.pop(0)

    def reset_sampling_cost(self):
        pass


# ------------------------------------------------------------------------------------------------- 1-d: one level
def impl_level_1d(cp, g_prev, coarse):
    """everything the oracle needs, read off the implementation"""
    g = cp.grid
    ax = [float(x) for x in g.axes[0]]
    o = int(g.origin_coordinate.value)
    fine = cp.fine_process
    qf = [float(x) for x in create_q_vector(fine.model.levy_triplet.nu, g)]
    qc = [float(x) for x in create_q_vector(coarse.model.levy_triplet.nu, g_prev)]
    mass = fine.model.mass
    P = {}
    for k in range(1, len(ax), 2):
        if qf[k] > 0.0:
            P[k] = float(CouplingSimulation.probability_to_right_jump(g, mass, k - o))
    return ax, o, qf, qc, P


def coupled_rates_1d(n_coarse, qf, P):
    out = []
    n = len(qf)
    for j in range(n_coarse):
        v = qf[2 * j]
        if j > 0 and qf[2 * j - 1] > 0.0:
            v += qf[2 * j - 1] * P[2 * j - 1]
        if 2 * j + 1 < n and qf[2 * j + 1] > 0.0:
            v += qf[2 * j + 1] * (1.0 - P[2 * j + 1])
        out.append(v)
    return out


def oracle_level_1d(ctx, d, cls, cp, g_prev, coarse, standalone_fine, pms, level):
    """S: the property on the implementation, level `level` (coarse = stand-alone chain of level-1 built on the un-refined grid)"""
    g = cp.grid
    ax, o, qf, qc, P = impl_level_1d(cp, g_prev, coarse)
    axp = [float(x) for x in g_prev.axes[0]]
    op = int(g_prev.origin_coordinate.value)
    n = len(ax)
    dl = dict(d, level=level)
    # the coarse grid is the set of even indices of the fine one
    if ax[0::2] != axp or o != 2 * op or float(g.h) != float(g_prev.h) / 2 or cp.level != level:
        ctx.fail("oracle", "c03.1d.nesting", dl, {"fine_even": ax[0::2][:9], "coarse": axp[:9], "origins": [o, op],
                                                   "h": [float(g.h), float(g_prev.h)], "level": cp.level}, cls=cls)
        return False
    lam_f, lam_c = float(cp.fine_process.intensity_of_jumps), float(coarse.intensity_of_jumps)
    bad = [(k, p) for k, p in P.items() if not (-1e-15 <= p <= 1 + 1e-15)]
    if bad:
        ctx.fail("oracle", "c03.1d.pright_range", dl, {"k_p": bad[:4]}, cls=cls)
        return False
    coupled = coupled_rates_1d(len(axp), qf, P)
    tol = ORACLE_REL * max(lam_f, 1e-300)
    for j in range(len(axp)):
        if j == op:
            continue
        MAXDEV["1d"] = max(MAXDEV["1d"], abs(coupled[j] - qc[j]) / max(lam_f, 1e-300))
        if not abs(coupled[j] - qc[j]) <= tol:
            ctx.fail("oracle", "c03.1d.telescoping", dl, {"coarse_state": j, "coupled_coarse_rate": coupled[j], "coarse_chain_rate": qc[j],
                                                        "fine_rates": [qf[k] for k in range(max(0, 2 * j - 1), min(n, 2 * j + 2))],
                                                        "p_right": [P.get(2 * j - 1), P.get(2 * j + 1)], "lambda_fine": lam_f}, cls=cls)
            return False
    if not abs(lam_c - (lam_f - coupled[op])) <= tol:
        ctx.fail("oracle", "c03.1d.intensity", dl, {"lambda_coarse": lam_c, "lambda_fine": lam_f, "rate_sent_to_origin": coupled[op]}, cls=cls)
        return False
    # even increments copied without drawing a uniform, odd ones moved to an adjacent (even = coarse) index
    sim = cp._path_coupling_simulation
    saved = cp.uniform
    try:
        for k in range(n):
            inc = k - o
            if k % 2 == 0:
                cp.uniform = ScriptedUniform([])
                v = float(sim.coupling_state(inc))
                if v != ax[k] or cp.uniform.calls:
                    ctx.fail("oracle", "c03.1d.even_copied", dl, {"increment": inc, "returned": v, "grid_value": ax[k],
                                                                "uniforms_drawn": cp.uniform.calls}, cls=cls)
                    return False
            elif k in P:
                got = []
                for u in (0.0, 1.0 - 2.0 ** -53):
                    cp.uniform = ScriptedUniform([u])
                    got.append(float(sim.coupling_state(inc)))
                # u = 0 goes right whenever P > 0, u -> 1 goes left whenever P < 1
                want = [ax[k + 1] if P[k] > 0 else ax[k - 1], ax[k - 1] if P[k] < 1 else ax[k + 1]]
                if got != want:
                    ctx.fail("oracle", "c03.1d.odd_adjacent", dl, {"increment": inc, "returned": got, "neighbours": [ax[k - 1], ax[k + 1]],
                                                                 "p_right": P[k]}, cls=cls)
                    return False
    finally:
        cp.uniform = saved
    # coarse diffusion coefficient / drift = those of the stand-alone chain of the previous level; fine = current level
    cc, cf = float(cp.equivalent_diffusion_coefficient_coarse), float(cp.equivalent_diffusion_coefficient_fine)
    sc, sf = float(coarse.equivalent_diffusion_coefficient), float(standalone_fine.equivalent_diffusion_coefficient)
    if not (math.isclose(cc, sc, rel_tol=1e-12, abs_tol=1e-300) and math.isclose(cf, sf, rel_tol=1e-12, abs_tol=1e-300)):
        ctx.fail("oracle", "c03.1d.diffusion", dl, {"coupling_coarse": cc, "level_l_minus_1_chain": sc, "coupling_fine": cf,
                                                  "level_l_chain": sf}, cls=cls)
        return False
    ts = np.array([0.0, 1.0, 0.37])
    want_c = np.asarray(coarse.deterministic_path(ts), dtype=float)
    want_f = np.asarray(standalone_fine.deterministic_path(ts), dtype=float)
    both = np.asarray(pms[-1].deterministic_path(ts), dtype=float) if pms is not None else np.array([want_f, want_c])
    if both.shape[0] != 2 or not (np.allclose(both[1], want_c, rtol=1e-12, atol=1e-13) and np.allclose(both[0], want_f, rtol=1e-12, atol=1e-13)):
        ctx.fail("oracle", "c03.1d.drift", dl, {"coupled_paths_at_0_1_037": both.tolist(), "level_l_minus_1_chain": want_c.tolist(),
                                              "level_l_chain": want_f.tolist()}, cls=cls)
        return False
    # one Brownian vector for both components
    ps = cp.fine_process._path_simulation
    wv = [0.5, -1.25, 2.0]
    sq = np.array([0.5, 0.75, 0.25])
    if hasattr(ps, "_brownian_increments"):
        keep = ps._brownian_increments
        ps._brownian_increments = deque([[list(wv)]])
        try:
            df, dc = sim.simulate_diffusion_with_coupling(sq)
        finally:
            ps._brownian_increments = keep
    else:
        # jump-time modes draw the increments inside the call: replay the same generator state
        st = np.random.get_state()
        try:
            np.random.seed(20260929)
            df, dc = sim.simulate_diffusion_with_coupling(sq)
            np.random.seed(20260929)
            wv = list(np.random.normal(size=sq.size))
        finally:
            np.random.set_state(st)
        ctx.branches["c03.1d.same_brownian:jump_time_mode"] += 1
    ef, ec = np.cumsum(sq * sf * np.array(wv)), np.cumsum(sq * sc * np.array(wv))
    if not (np.allclose(np.ravel(df), ef, rtol=1e-12, atol=1e-300) and np.allclose(np.ravel(dc), ec, rtol=1e-12, atol=1e-300)):
        ctx.fail("oracle", "c03.1d.same_brownian", dl, {"fine": np.ravel(df).tolist(), "coarse": np.ravel(dc).tolist(),
                                                      "expected_fine": ef.tolist(), "expected_coarse": ec.tolist()}, cls=cls)
        return False
    return True


def corr_level_1d(ctx, d, cls, cp, g_prev, coarse, tbl, level, exact=False):
    """C: the model fed with the real masses against the implementation"""
    rng = ctx.rng
    g = cp.grid
    ax, o, qf, qc, P = impl_level_1d(cp, g_prev, coarse)
    n = len(ax)
    dl = dict(d, level=level)
    mass = cp.fine_process.model.mass
    qs = rdll(ctx.lean(f"q1d {wl(ax)} {o} {tbl}"))
    nodd = (n - 1) // 2
    if len(qs) != 2 * nodd + (n - 1) + (len(qc) - 1):
        ctx.fail("corr", "c03.1d.queries.model", dl, {"name": "Drivers/C03 q1d", "len": len(qs)}, cls=cls)
        return False
    try:
        vals = [float(mass(float(a), float(b))) for a, b in qs]
    except Exception as e:                       # a boundary the model computed is not an admissible interval for mass()
        ctx.fail("corr", "c03.1d.queries.model", dl, {"name": "Drivers/C03 q1d intervals rejected by mass()", "exception": repr(e)[:200]}, cls=cls)
        return False
    if not finite(vals):
        ctx.branches["c03.1d.corr_skipped_nonfinite_mass"] += 1
        return True
    head = f"{wl(ax)} {o} {tbl} {wl(vals)}"
    out = ctx.lean(f"c1d {head}").split(" ")
    m_p, m_qf, m_coupled, m_qc = rdl(out[0]), rdl(out[1]), rdl(out[2]), rdl(out[3])
    lam = fr(max(float(cp.fine_process.intensity_of_jumps), 1e-300))
    floor = lam * Fraction(1, 2 ** 30)
    same = (lambda a, b: fr(a) == b) if exact else (lambda a, b: relclose(a, b, floor))
    bad = [k for k in range(n) if not same(qf[k], m_qf[k])]
    if bad:
        ctx.fail("corr", "c03.1d.rates.model", dl, {"name": "Drivers/C03 fine rate vs create_q_vector", "k": bad[0], "impl": qf[bad[0]],
                                                  "model": str(m_qf[bad[0]])}, cls=cls)
        return False
    bad = [j for j in range(len(qc)) if not same(qc[j], m_qc[j])]
    if bad:
        ctx.fail("corr", "c03.1d.rates.model", dl, {"name": "Drivers/C03 coarse rate vs create_q_vector on the un-refined grid", "j": bad[0],
                                                  "impl": qc[bad[0]], "model": str(m_qc[bad[0]])}, cls=cls)
        return False
    for i, k in enumerate(range(1, n, 2)):
        if k in P and not close(P[k], m_p[i], scale=Fraction(1)):
            ctx.fail("corr", "c03.1d.pright.model", dl, {"name": "Drivers/C03 pRight vs probability_to_right_jump", "k": k, "impl": P[k],
                                                       "model": str(m_p[i])}, cls=cls)
            return False
    coupled = coupled_rates_1d(len(qc), qf, P)
    # cancellation-aware scale: 1 - P loses digits relative to the neighbour's whole rate
    scj = lambda j: fr(qf[2 * j] + (qf[2 * j - 1] if j > 0 else 0.0) + (qf[2 * j + 1] if 2 * j + 1 < n else 0.0))
    bad = [j for j in range(len(qc)) if not close(coupled[j], m_coupled[j], scale=max(scj(j), floor))]
    if bad:
        ctx.fail("corr", "c03.1d.coupled.model", dl, {"name": "Drivers/C03 coupledRate vs sum of rate x probability_to_right_jump", "j": bad[0],
                                                    "impl": coupled[bad[0]], "model": str(m_coupled[bad[0]])}, cls=cls)
        return False
    # coupling_state with the uniform patched around the model's breakpoints
    sim = cp._path_coupling_simulation
    saved = cp.uniform
    try:
        odd = [k for k in P if 2.0 ** -18 < P[k] < 1 - 2.0 ** -18]
        pts = []
        for k in (rng.sample(odd, min(len(odd), 6)) if odd else []):
            for u in (P[k] * (1 - 2.0 ** -20), P[k] * (1 + 2.0 ** -20), rng.random()):
                if abs(u - P[k]) < P[k] * 2.0 ** -21 or not (0 <= u < 1):
                    ctx.excluded_small_margin += 1
                    continue
                cp.uniform = ScriptedUniform([u])
                pts.append((k - o, u, float(sim.coupling_state(k - o))))
        if pts:
            want = rdl(ctx.lean(f"couple1dm {head} [{','.join(str(p[0]) for p in pts)}] {wl([p[1] for p in pts])}"))
            for (inc, u, got), wv in zip(pts, want):
                if fr(got) != wv:
                    ctx.fail("corr", "c03.1d.couple.model", dl, {"name": "Drivers/C03 couple1d vs coupling_state", "increment": inc, "u": u,
                                                               "impl": got, "model": str(wv), "p_right": P[o + inc]}, cls=cls)
                    return False
            ctx.branches["c03.1d.couple_points"] += len(pts)
        # a history: one slice of increments with scripted uniforms
        live = [k for k in range(n) if k != o and (k % 2 == 0 or k in P)]
        if live:
            incs = [rng.choice(live) - o for _ in range(rng.randint(1, 7))]
            us = [rng.random() for _ in incs]
            us = [u for u, inc in zip(us, incs) if inc % 2]
            if all(abs(u - P[o + inc]) > 2.0 ** -20 for u, inc in zip(us, [i for i in incs if i % 2])):
                cp.uniform = ScriptedUniform(list(us))
                got = [float(x) for x in sim.coupling_states_for_a_slice(list(incs))]
                want = rdl(ctx.lean(f"slice1d {head} [{','.join(str(i) for i in incs)}] {wl(us)}"))
                sc = fr(max(abs(ax[0]), abs(ax[-1]))) * len(incs)
                if len(got) != len(want) or not all(close(a, b, scale=sc) for a, b in zip(got, want)):
                    ctx.fail("corr", "c03.1d.slice.model", dl, {"name": "Drivers/C03 slice1d vs coupling_states_for_a_slice", "increments": incs,
                                                              "uniforms": us, "impl": got, "model": [str(x) for x in want]}, cls=cls)
                    return False
                ctx.branches["c03.1d.slice_histories"] += 1
    finally:
        cp.uniform = saved
    return True


def corr_levels_1d(ctx, d, cls, cp, base, chains, pms, tbl, L):
    """C: the level record after L next_level calls (grid, coefficients, frozen path) against M's nextLevel^L"""
    ax0, o0, h0 = base
    diffs = [float(c.equivalent_diffusion_coefficient) for c in chains]
    drifts = [float(np.ravel(c.process_drift())[0]) for c in chains]
    x0s = [float(np.ravel(c.model.x0_value())[0]) if np.ndim(c.model.x0_value()) else float(c.model.x0_value()) for c in chains]
    t = 0.375
    out = ctx.lean(f"levels {wl(ax0)} {o0} {w(h0)} {tbl} {L} {wl(diffs)} {wl(drifts)} {wl(x0s)} {w(t)}").split(" ")
    m_ax, m_o, m_h, m_l, m_df, m_dc = rdl(out[0]), int(out[1]), rd(out[2]), int(out[3]), rd(out[4]), rd(out[5])
    m_spot, m_drift, m_cp, m_fp = rd(out[6]), rd(out[7]), rd(out[8]), rd(out[9])
    g = cp.grid
    ax = [float(x) for x in g.axes[0]]
    sc = fr(max(abs(ax[0]), abs(ax[-1])))
    both = np.asarray(pms[-1].deterministic_path(np.array([0.0, 1.0, t])), dtype=float)
    scale_p = max(abs(m_spot), abs(m_drift), Fraction(1))
    ok = (len(m_ax) == len(ax) and all(close(a, b, scale=sc) for a, b in zip(ax, m_ax)) and m_o == int(g.origin_coordinate.value)
          and fr(float(g.h)) == m_h and m_l == cp.level
          and fr(float(cp.equivalent_diffusion_coefficient_fine)) == m_df and fr(float(cp.equivalent_diffusion_coefficient_coarse)) == m_dc
          and close(both[1][0], m_spot, scale=scale_p) and close(both[1][1] - both[1][0], m_drift, scale=scale_p)
          and close(both[1][2], m_cp, scale=scale_p) and close(both[0][2], m_fp, scale=scale_p))
    ctx.branches["c03.1d.levels"] += 1
    if not ok:
        ctx.fail("corr", "c03.1d.levels.model", dict(d, levels=L),
                 {"name": "Drivers/C03 levels (nextLevel^L) vs CouplingMarkovChain after L next_level calls",
                  "impl": {"n": len(ax), "origin": int(g.origin_coordinate.value), "h": float(g.h), "level": cp.level,
                           "diff_fine": float(cp.equivalent_diffusion_coefficient_fine),
                           "diff_coarse": float(cp.equivalent_diffusion_coefficient_coarse), "paths": both.tolist()},
                  "model": out[1:]}, cls=cls)
        return False
    return True


def coupling1d_probe(ctx, d, cls, model, g, method_name, L, corr=True, exact=False):
    """one 1-d coupling taken through L real next_level calls"""
    prod = the_product()
    method = METHODS_1D[method_name]
    cp = CouplingMarkovChain(model, method, g)
    prod.update(cp.fine_process.process_representation)
    cp.initialisation(prod)
    pms = [MLMCPath(cp.fine_process.deterministic_path, False)]
    cp.pre_computation(2, prod)
    base = ([float(x) for x in g.axes[0]], int(g.origin_coordinate.value), float(g.h))
    rows, seen = [], set()
    mid_rows(g, rows, seen)
    chains = []
    done = 0
    for level in range(1, L + 1):
        g_prev = copy.deepcopy(cp.grid)
        coarse = MarkovChainProcess(model, method, g_prev)
        coarse.initialisation(prod)
        chains.append(coarse)
        cp.next_level(2, pms, prod)
        ax = [float(x) for x in cp.grid.axes[0]]
        if not axis_ok(ax, int(cp.grid.origin_coordinate.value)):
            # probability-step grid whose outer gaps have float mass 0: middle() returns the gap's left end (C13's subject)
            ctx.branches[f"c03.1d.skipped_not_wellformed_after_refine:{cls.get('kind')}"] += 1
            break
        mid_rows(cp.grid, rows, seen)
        tbl = wll(rows) if rows else "[]"
        standalone = MarkovChainProcess(model, method, copy.deepcopy(cp.grid))
        standalone.initialisation(prod)
        ctx.count("c03.1d.level", dict(d, level=level), nontrivial=len(ax) >= 5, branch=f"{cls.get('kind')}:{cls.get('family')}:L{level}")
        if not oracle_level_1d(ctx, d, cls, cp, g_prev, coarse, standalone, pms, level):
            return
        if corr and not corr_level_1d(ctx, d, cls, cp, g_prev, coarse, tbl, level, exact=exact):
            return
        done = level
        last_standalone = standalone
    if corr and done:
        corr_levels_1d(ctx, d, cls, cp, base, chains[:done] + [last_standalone], pms, wll(rows) if rows else "[]", done)
    ctx.branches[f"c03.1d.method:{method_name}"] += 1


def run_1d(ctx, nmodels, corr=True):
    rng = ctx.rng
    hs = [0.2, 0.1, 0.05]
    for fam, params in zoo.model_stream(rng, nmodels):
        exp = rng.random() < 0.5
        model = zoo.make_exp(fam, params) if exp else zoo.make_levy(fam, params)
        for kind in rng.sample(zoo.GRID_KINDS, 3):
            h = rng.choice(hs)
            kw = {}
            if kind in ("uniform", "geometric"):
                kw["truncation_probability"] = rng.choice([0.99, 0.999])
            if kind in ("geometric", "geometric_bounds"):
                kw["nb"] = rng.choice([2, 3, 5])
            if kind == "geometric_bounds":
                kw["truncations"] = (-rng.choice([0.5, 1.0, 2.0]), rng.choice([0.75, 1.5, 3.0]))
            if kind == "fixed":
                kw["nb_of_points"] = rng.choice([3, 5, 9, 21])
            if kind == "probstep":
                kw["minimum_probability_step"] = rng.choice([0.1, 0.2])
                h = max(h, 0.1)
            if kind == "credit":
                kw["level_a"] = -rng.choice([0.25, 0.3, 0.5])
            try:
                g, gd = zoo.make_grid(kind, model, h, **kw)
            except Exception as e:          # constructor rejected these arguments (C13's subject)
                ctx.branches[f"c03.ctor_raises:{kind}:{type(e).__name__}"] += 1
                continue
            ax0 = [float(x) for x in g.axes[0]]
            if not axis_ok(ax0, int(g.origin_coordinate.value)):
                ctx.branches[f"c03.skipped_not_wellformed:{kind}"] += 1
                continue
            L = rng.randint(1, 3 if kind != "probstep" else 2)
            while L > 1 and (len(ax0) - 1) * 2 ** L + 1 > 400:
                L -= 1
            if (len(ax0) - 1) * 2 ** L + 1 > 800:
                ctx.branches[f"c03.skipped_too_large:{kind}"] += 1
                continue
            method = "INVERSION" if rng.random() < 0.6 else "BINARYSEARCHTREEADAPTED1D"
            d = dict(stream="1d", family=fam, params=params, exp=exp, grid=gd, L=L, method=method)
            cls = dict(stream="1d", kind=kind, family=fam, dimension=1)
            guarded(ctx, d, cls, coupling1d_probe, ctx, d, cls, model, g, method, L, corr=corr)


# ------------------------------------------------------------------------------------------------- 1-d synthetic (exact masses)
def synthetic_case(rng):
    n_left, n_right = rng.randint(1, 4), rng.randint(1, 4)
    h = rng.choice([1.0, 0.5, 0.25])
    steps = lambda m: list(np.cumsum([h] + [rng.randint(1, 32) / 32 for _ in range(m - 1)]))
    left = [-x for x in steps(n_left)][::-1]
    right = steps(n_right)
    axis = [float(x) for x in left] + [0.0] + [float(x) for x in right]
    span = max(-axis[0], axis[-1])
    kn = sorted({round(rng.randint(-64, 64) / 16 * (span / 4 if rng.random() < 0.5 else span / 2) * 64) / 64 for _ in range(rng.randint(2, 9))})
    if len(kn) < 2:
        kn = [-span, span]
    heights = [rng.choice([0, 1, 2, 3, 5, 8]) / 4 for _ in range(len(kn) - 1)]
    return dict(stream="synthetic", axis=axis, o=n_left, h=h, knots=[float(x) for x in kn], heights=heights,
                L=rng.randint(1, 2), method=rng.choice(list(METHODS_1D)))


def synthetic_probe(ctx, d, corr=True):
    tm = zoo.TableMeasure(d["knots"], d["heights"])
    model = zoo.make_levy("hem", {})
    model.levy_triplet.nu = tm
    g = zoo.CTMCGrid(h=d["h"], origin_coordinate=d["o"], axes=[np.array(d["axis"])])
    cls = dict(stream="synthetic", kind="synthetic", family="table", dimension=1)
    method = d["method"]
    half = Fraction(d["h"]) / 2 ** (d["L"] + 1)
    if tm._exact(d["axis"][0], -half, 0) + tm._exact(half, d["axis"][-1], 0) == 0 or \
            tm._exact(d["axis"][0], -Fraction(d["h"]) / 2, 0) + tm._exact(Fraction(d["h"]) / 2, d["axis"][-1], 0) == 0:
        ctx.branches["c03.synthetic:zero_intensity_skipped"] += 1     # a chain that never jumps (inversion ctor divides by 0): C01's note
        return
    guarded(ctx, d, cls, coupling1d_probe, ctx, d, cls, model, g, method, d["L"], corr=corr, exact=False)


# ------------------------------------------------------------------------------------------------- item 28: samplers returning arrays
def array_sampler_probe(ctx, name):
    """`if slice_fine_states:` on an ndarray with >= 2 elements (couplingmarkovchain.py:252): reproduce once per sampler"""
    model = zoo.make_levy("hem", {})
    g, gd = zoo.make_grid("fixed", model, 0.1, nb_of_points=9)
    prod = the_product()
    d = dict(stream="array_sampler", method=name, grid=gd)
    method = {**ARRAY_SAMPLERS, **METHODS_1D}[name]
    cls = dict(stream="array_sampler", method=name, dimension=1, jumps_in_slice_ge_2=True)
    cp = CouplingMarkovChain(model, method, g)
    prod.update(cp.fine_process.process_representation)
    cp.initialisation(prod)
    cp.pre_computation(2, prod)
    cp.next_level(2, None, prod)
    ps = cp.fine_process._path_simulation
    ps._poisson_rv = deque([[3]])
    ps._brownian_increments = deque([[[0.25]]])
    ctx.count("c03.1d.path", d, nontrivial=True, branch=name)
    st = np.random.get_state()
    np.random.seed(12345)
    try:
        path = cp.simulate_one_path_with_coupling()
        jp = np.asarray(path.jump_path, dtype=float)
        ax = [float(x) for x in cp.grid.axes[0]]
        gap = max(b - a for a, b in zip(ax, ax[1:]))
        # three fine jumps, each moved by at most one fine gap
        if not (jp.shape[0] == 2 and abs(jp[0][-1] - jp[1][-1]) <= 3 * gap + 1e-12):
            ctx.fail("oracle", "c03.1d.path", d, {"jump_paths": jp.tolist(), "largest_gap": gap}, cls=cls)
    except ValueError as e:
        frames = traceback.extract_tb(e.__traceback__)
        where = [f"{f.filename.split('/rpylib/')[-1]}:{f.lineno}" for f in frames if "/rpylib/" in f.filename][-2:]
        ctx.fail("oracle", "c03.1d.path.raises", d, {"exception": repr(e)[:300], "where": where}, cls=cls,
                 mirrors_model="truth value of an array" in str(e))
    finally:
        np.random.set_state(st)


# ------------------------------------------------------------------------------------------------- coupled paths, maximum step
def coupled_maxstep_probe(ctx, d):
    """S: paths of the maximum-step coupling simulator (extra time points are inserted wherever two jumps are more than epsilon
    apart): between coupled jumps the coarse component must stay where it is, its jumps must be moves of the level-(l-1) chain
    (0 or an even-index state of the refined grid) and each differs from the fine jump by at most one fine gap"""
    cls = dict(stream="maxstep_paths", family=d["family"], dimension=1, method=d["method"])
    model = zoo.make_levy(d["family"], d["params"])
    g, _ = zoo.make_grid("fixed", model, d["h"], nb_of_points=d["nb"])
    prod = the_product()
    cp = CouplingMarkovChain(model, {**ARRAY_SAMPLERS, **METHODS_1D}[d["method"]], g)
    prod.update(cp.fine_process.process_representation)
    cp.initialisation(prod, max_step_epsilon=d["eps"])
    cp.pre_computation(d["paths"], prod)
    st = np.random.get_state()
    import random as pyrandom
    pst = pyrandom.getstate()
    np.random.seed(d["np_seed"])
    pyrandom.seed(d["np_seed"])
    try:
        for level in range(1, d["L"] + 1):
            cp.next_level(d["paths"], None, prod, max_step_epsilon=d["eps"])
            ax = [float(x) for x in cp.grid.axes[0]]
            o = int(cp.grid.origin_coordinate.value)
            fine_states = {round(x, 12) for x in ax}
            coarse_states = {round(x, 12) for x in ax[o % 2::2]} | {0.0}
            gap = max(b - a for a, b in zip(ax, ax[1:]))
            for k in range(d["paths"]):
                path = cp.simulate_one_path_with_coupling()
                jp = np.asarray(path.jump_path, dtype=float)
                t = np.asarray(path.jump_times, dtype=float)
                ctx.count("c03.1d.maxstep_path", dict(d, level=level, path=k), nontrivial=jp.shape[-1] > 2, branch=d["method"])
                if jp.ndim != 2 or jp.shape[0] != 2 or jp.shape[1] != t.shape[0]:
                    ctx.fail("oracle", "c03.1d.maxstep_path", dict(d, level=level, path=k), {"what": "shape", "jump_path": list(jp.shape), "times": list(t.shape)}, cls=cls)
                    return
                df_, dc_ = np.diff(jp[0]), np.diff(jp[1])
                bad = None
                for i, (a, b) in enumerate(zip(df_, dc_)):
                    if a == 0.0 and b != 0.0:
                        bad = dict(what="the coarse component moves where the fine component does not jump", index=i + 1)
                    elif round(float(b), 12) not in coarse_states:
                        bad = dict(what="a coarse increment is not a state of the level-(l-1) grid", index=i + 1)
                    elif round(float(a), 12) not in fine_states and a != 0.0:
                        bad = dict(what="a fine increment is not a state of the level-l grid", index=i + 1)
                    elif abs(a - b) > gap + 1e-12:
                        bad = dict(what="coarse jump not adjacent to the fine jump", index=i + 1)
                    if bad:
                        lo = max(0, i - 2)
                        bad.update(times=t[lo:i + 3].tolist(), fine=jp[0][lo:i + 3].tolist(), coarse=jp[1][lo:i + 3].tolist(), fine_increment=float(a),
                                   coarse_increment=float(b))
                        ctx.fail("oracle", "c03.1d.maxstep_path", dict(d, level=level, path=k), bad, cls=cls)
                        return
    finally:
        np.random.set_state(st)
        pyrandom.setstate(pst)



# ------------------------------------------------------------------------------------------------- every sampling method, >= 3 levels
class VectorCapture:
    """records the probability vector `create_sampling_method` hands to the array samplers (ALIAS, TABLE, BINARYSEARCHTREE,
    HUFFMANNTREE) while a chain is being built: that vector is the jump law of the chain built with that method"""
    NAMES = ["AliasMethod", "TableMethod", "BinarySearchTree", "HuffmanTree"]

    def __init__(self):
        import rpylib.distribution.samplingfactory as sf
        self.sf, self.saved, self.vectors = sf, {}, []

    def __enter__(self):
        for name in self.NAMES:
            cls_ = getattr(self.sf, name)
            self.saved[name] = cls_

            def ctor(pvec, states, _cls=cls_):
                self.vectors.append(np.array(pvec, dtype=float).copy())
                return _cls(pvec, states)
            setattr(self.sf, name, ctor)
        return self

    def __exit__(self, *exc):
        for name, cls_ in self.saved.items():
            setattr(self.sf, name, cls_)
        return False


def bsta1d_law(smp, n):
    """the law BinarySearchTreeAdapted1D.sample_with_u realises, read off its own tree walk (same interval masses, same order)"""
    axis = smp.axis
    law = [0.0] * n

    def walk(left, right, budget):
        if budget <= 0:
            return
        if left == right:
            law[left] += budget
            return
        middle = (left + right) // 2
        a = 0.5 * (axis[max(0, left - 1)] + axis[left])
        b = 0.5 * (axis[middle] + axis[min(len(axis) - 1, middle + 1)])
        pl = float(smp._compute_probability(a, b))
        walk(left, middle, min(pl, budget))
        walk(min(right, middle + 1), right, budget - pl)
    pleft = float(smp._proba_left_axis)
    walk(*smp._coordinates_left_axis, pleft)
    walk(*smp._coordinates_right_axis, 1.0 - pleft)
    return law


def chain_law(mc, captured, o, n):
    """jump law (over grid indices) of the chain `mc` as its own sampler is given / computes it"""
    smp = mc.sampling
    name = type(smp).__name__
    if name in ("AliasMethod", "TableMethod", "BinarySearchTree", "HuffmanTree"):
        vec = captured[-1]
        lo, hi = mc.model.levy_triplet.nu.support() if hasattr(mc.model.levy_triplet.nu, "support") else (-1, 1)
        if len(vec) != n or not lo < 0 < hi:
            raise Infra("array sampler: unexpected state indexing")
        return [float(x) for x in vec]
    if name == "InversionMethod":
        return [0.0 if k == o else float(smp.probability_to_jump_to_state(k - o)) for k in range(n)]
    if name == "BinarySearchTreeAdapted1D":
        return bsta1d_law(smp, n)
    raise Infra(f"unknown sampler {name}")


def methods_probe(ctx, d):
    """S: the telescoping identity with the jump laws of the chains *as built with the given sampling method* (the vector handed to
    the array samplers, the inversion sampler's own state probabilities, the adapted tree's own walk), through d['L'] >= 3 successive
    next_level calls; the coarse law of level l is the fine law this very coupling had at level l - 1"""
    method = {**ARRAY_SAMPLERS, **METHODS_1D}[d["method"]]
    model = zoo.make_exp(d["family"], d["params"]) if d.get("exp") else zoo.make_levy(d["family"], d["params"])
    try:
        g = grid_from_desc(model, d["grid"])
    except Exception as e:          # constructor rejected these arguments (C13's subject)
        ctx.branches[f"c03.ctor_raises:{d['grid']['kind']}:{type(e).__name__}"] += 1
        return
    cls = dict(stream="methods", method=d["method"], family=d["family"], kind=d["grid"]["kind"], dimension=1)
    prod = the_product()
    with VectorCapture() as cap:
        cp = CouplingMarkovChain(model, method, g)
        prod.update(cp.fine_process.process_representation)
        cp.initialisation(prod)
        cp.pre_computation(2, prod)
        ax = [float(x) for x in cp.grid.axes[0]]
        o = int(cp.grid.origin_coordinate.value)
        if not axis_ok(ax, o):
            ctx.branches["c03.methods.skipped_not_wellformed"] += 1
            return
        law_prev, lam_prev = chain_law(cp.fine_process, cap.vectors, o, len(ax)), float(cp.fine_process.intensity_of_jumps)
        for level in range(1, d["L"] + 1):
            cp.next_level(2, None, prod)
            g_ = cp.grid
            ax = [float(x) for x in g_.axes[0]]
            o = int(g_.origin_coordinate.value)
            n = len(ax)
            dl = dict(d, level=level)
            if not axis_ok(ax, o):
                ctx.branches["c03.methods.skipped_not_wellformed"] += 1
                return
            law_f, lam_f = chain_law(cp.fine_process, cap.vectors, o, n), float(cp.fine_process.intensity_of_jumps)
            ctx.count("c03.methods.level", dl, nontrivial=n >= 5, branch=f"{d['method']}:L{level}")
            qf = [lam_f * x for x in law_f]
            qc = [lam_prev * x for x in law_prev]
            mass = cp.fine_process.model.mass
            P = {k: float(CouplingSimulation.probability_to_right_jump(g_, mass, k - o)) for k in range(1, n, 2) if qf[k] > 0.0}
            coupled = coupled_rates_1d(len(qc), qf, P)
            tol = ORACLE_REL * max(lam_f, 1e-300)
            op = o // 2
            if len(qc) != (n + 1) // 2 or cp.level != level:
                ctx.fail("oracle", "c03.methods.nesting", dl, {"fine_states": n, "coarse_states": len(qc), "level": cp.level}, cls=cls)
                return
            for j in range(len(qc)):
                if j != op and not abs(coupled[j] - qc[j]) <= tol:
                    ctx.fail("oracle", "c03.methods.telescoping", dl,
                             {"coarse_state": j, "coupled_coarse_rate": coupled[j], "rate_of_the_level_l_minus_1_chain": qc[j],
                              "fine_rates": [qf[k] for k in range(max(0, 2 * j - 1), min(n, 2 * j + 2))],
                              "p_right": [P.get(2 * j - 1), P.get(2 * j + 1)], "lambda_fine": lam_f, "sampler": type(cp.fine_process.sampling).__name__},
                             cls=cls)
                    return
            # the coarse chain's jumps: total rate lambda_{l-1} (sum of its law = 1 up to rounding), fine: lambda_l
            if not (abs(sum(law_f) - 1) <= 1e-9 and abs(lam_prev * sum(law_prev) - (lam_f * sum(law_f) - coupled[op])) <= 1e-9 * lam_f):
                ctx.fail("oracle", "c03.methods.intensity", dl, {"sum_of_fine_law": sum(law_f), "lambda_fine": lam_f, "lambda_coarse": lam_prev,
                                                                "rate_sent_to_origin": coupled[op]}, cls=cls)
                return
            law_prev, lam_prev = law_f, lam_f
    ctx.branches[f"c03.methods.done:{d['method']}:L{d['L']}"] += 1


def run_methods(ctx):
    rng = ctx.rng
    names = list(ARRAY_SAMPLERS) + list(METHODS_1D)
    for name in names:
        for i in range(ctx.n(2, 8)):
            fam = rng.choice(zoo.FAMILIES)
            params = zoo.draw_params(rng, fam) if rng.random() < 0.7 else {}
            # the first chain of every method lives on a grid whose constructor cannot reject its arguments
            kind = "fixed" if i == 0 else rng.choice(["fixed", "geometric_bounds", "credit"])
            gd = dict(kind=kind, h=rng.choice([0.2, 0.1]))
            if kind == "fixed":
                gd["nb"] = rng.choice([5, 9])
            elif kind == "geometric_bounds":
                gd.update(nb=rng.choice([2, 3]), tr=[-rng.choice([0.5, 1.0]), rng.choice([0.75, 1.5])])
            else:
                gd.update(a=-rng.choice([0.3, 0.5]), sym=True)
            d = dict(stream="methods", family=fam, params=params, exp=rng.random() < 0.5, grid=gd, L=rng.choice([3, 3, 4]), method=name)
            guarded(ctx, d, dict(stream="methods", method=name, dimension=1), methods_probe, ctx, d)


# ------------------------------------------------------------------------------------------------- SDE coupling (1-d driver)
def sde_probe(ctx, d, corr=True):
    """CouplingSDE: the record kept by next_level (which driver drift / diffusion coefficient / maximum step each component uses)
    at EVERY level 1..L against (S) fresh chains of level l and l-1 built independently of the object under test and what the real
    Euler recursion consumes on a scripted driver path, (C) the model's `sdeLevelAt`; the jumps and the diffusion of the driver
    coupling (jump-time mode with a maximum step) go through the same oracle / correspondence as the plain 1-d coupling."""
    from rpylib.model.levydrivensde.levydrivensde import LevyDrivenSDEModel, Constant
    from rpylib.montecarlo.path import StochasticJumpPath
    from rpylib.process.coupling.couplingsde import CouplingSDE
    from rpylib.product.payoff import PayoffOnTheFly
    driver = zoo.make_levy(d["family"], d["params"])
    a_const = 0.5
    model = LevyDrivenSDEModel(driver=driver, x0=1.0, a=Constant(m=1, d=1, constant=a_const))
    g, _ = zoo.make_grid("fixed", None, d["h"], nb_of_points=d["nb"], dimension=1)
    method = METHODS_1D[d["method"]]
    prod = Product(payoff_underlying=Spot(), payoff=PayoffOnTheFly(lambda x: x), maturity=1.0)
    cls = dict(stream="sde", kind="fixed", family=d["family"], dimension=1)
    bg = float(driver.blumenthal_getoor_index())

    class PM:
        def update(self, _):
            pass
    base = ([float(x) for x in g.axes[0]], int(g.origin_coordinate.value), float(g.h))
    cps = CouplingSDE(model=model, grid=g, method=method)
    cps.initialisation(prod)
    cps.pre_computation(2, prod)
    pms = [PM()]
    prod_d = the_product()
    scalar = lambda x: float(np.ravel(np.asarray(x, dtype=float))[0])
    fresh0 = MarkovChainProcess(driver, method, copy.deepcopy(cps.driver_coupling_process.grid))
    fresh0.initialisation(prod_d)
    chains = [fresh0]
    impl_rows = []
    for level in range(1, d["L"] + 1):
        cp = cps.driver_coupling_process
        g_prev = copy.deepcopy(cp.grid)
        coarse = MarkovChainProcess(driver, method, g_prev)
        coarse.initialisation(prod_d)
        cps.next_level(2, pms, prod)
        standalone = MarkovChainProcess(driver, method, copy.deepcopy(cp.grid))
        standalone.initialisation(prod_d)
        chains.append(standalone)
        dl = dict(d, level=level)
        ctx.count("c03.sde.level", dl, nontrivial=True, branch=f"{d['family']}:L{level}")
        if not oracle_level_1d(ctx, d, cls, cp, g_prev, coarse, standalone, None, level):
            return
        # ---- S: the record. Fine component: level-l chain; coarse component: level-(l-1) chain; every level
        dh, d2h = scalar(cps.mc_drift_h), scalar(cps.mc_drift_2h)
        wh, w2h = scalar(standalone.process_drift()), scalar(coarse.process_drift())
        same = lambda x, y: math.isclose(x, y, rel_tol=1e-12, abs_tol=1e-300)
        if not (same(dh, wh) and same(d2h, w2h)) or cps.level != level:
            ctx.fail("oracle", "c03.sde.drift", dl, {"mc_drift_h": dh, "level_l_chain": wh, "mc_drift_2h": d2h, "level_l_minus_1_chain": w2h,
                                                     "level": cps.level, "drifts_of_all_levels_so_far": [scalar(c.process_drift()) for c in chains]},
                     cls=cls)
            return
        eps_want = float(cp.grid.h) ** bg
        sim = cp._path_coupling_simulation
        if not (same(float(cps.epsilon), eps_want) and getattr(sim, "epsilon", None) == cps.epsilon):
            ctx.fail("oracle", "c03.sde.epsilon", dl, {"epsilon": float(cps.epsilon), "h_of_level_l^BG": eps_want,
                                                       "epsilon_of_the_driver_simulation": getattr(sim, "epsilon", None)}, cls=cls)
            return
        # ---- S, black box: what the Euler recursion consumes. A scripted driver path without jumps / diffusion and the constant
        # coefficient a: the drift path of component c ends at a * (driver drift used by c) * T
        times = np.array([0.0, 0.25, 1.0])

        def fake():
            return StochasticJumpPath(times.copy(), np.zeros((2, 3)), np.zeros((2, 3)))
        cp.simulate_one_path_with_coupling = fake
        try:
            out = cps.simulate_one_path_with_coupling()
        finally:
            del cp.simulate_one_path_with_coupling
        ends = [scalar(np.asarray(out.drift)[c][..., -1]) for c in (0, 1)]
        if not (math.isclose(ends[0], a_const * wh, rel_tol=1e-12, abs_tol=1e-15) and math.isclose(ends[1], a_const * w2h, rel_tol=1e-12, abs_tol=1e-15)):
            ctx.fail("oracle", "c03.sde.drift_consumed", dl, {"drift_path_end_fine_coarse": ends, "a": a_const,
                                                              "a_x_level_l_chain_drift": a_const * wh,
                                                              "a_x_level_l_minus_1_chain_drift": a_const * w2h}, cls=cls)
            return
        # ---- S, black box: the driver path the recursion consumes has the coupled diffusion: same w, coefficients of level l / l-1
        st = np.random.get_state()
        try:
            np.random.seed(20260929 + level)
            path = cp.simulate_one_path_with_coupling()
        finally:
            np.random.set_state(st)
        dp = np.asarray(path.diffusion_path, dtype=float)
        sf, sc = float(standalone.equivalent_diffusion_coefficient), float(coarse.equivalent_diffusion_coefficient)
        if dp.shape[0] != 2 or not np.allclose(dp[0] * sc, dp[1] * sf, rtol=1e-10, atol=1e-300):
            ctx.fail("oracle", "c03.sde.same_brownian", dl, {"fine_diffusion_path": dp[0][:6].tolist(), "coarse_diffusion_path": dp[1][:6].tolist(),
                                                             "coefficient_level_l": sf, "coefficient_level_l_minus_1": sc}, cls=cls)
            return
        ctx.branches[f"c03.sde.levels_compared:L{level}"] += 1
        impl_rows.append([float(level), dh, d2h, float(cp.equivalent_diffusion_coefficient_fine), float(cp.equivalent_diffusion_coefficient_coarse),
                          float(cp.grid.h), float(cp.grid.h), float(int(cp.grid.origin_coordinate.value)), d2h,
                          float(cp.equivalent_diffusion_coefficient_coarse)])
        if corr and not corr_level_1d(ctx, d, cls, cp, g_prev, coarse, "[]", level):
            return
    # ---- C: the record of every level against M's sdeLevelAt (fed the fresh chains' coefficients, level by level)
    if corr and impl_rows:
        diffs = [float(c.equivalent_diffusion_coefficient) for c in chains]
        drifts = [scalar(c.process_drift()) for c in chains]
        ax0, o0, h0 = base
        out = ctx.lean(f"sde {wl(ax0)} {o0} {w(h0)} [] {len(impl_rows)} {wl(diffs)} {wl(drifts)}").split(" ")
        m_rows = rdll(out[1])
        ok = len(m_rows) == len(impl_rows)
        for row, mrow in zip(impl_rows, m_rows):
            # epsilon's h: compare through the power actually stored (column 5 is grid.h; epsilon itself was checked above)
            ok = ok and len(mrow) == len(row) and all(fr(x) == y for x, y in zip(row, mrow))
        if not ok:
            ctx.fail("corr", "c03.sde.levels.model", dict(d, levels=len(impl_rows)),
                     {"name": "Drivers/C03 sde (sdeLevelAt) vs CouplingSDE after 1..L next_level calls", "impl": impl_rows,
                      "model": [[str(x) for x in r] for r in m_rows]}, cls=cls)


# ------------------------------------------------------------------------------------------------- n-d (copula coupling)
class MassRecorder:
    """wraps model.mass for the duration of one __coupling_state call: the first call is total_mass, the others the corners"""

    def __init__(self, model):
        self.model, self.orig, self.calls = model, model.mass, []

    def __enter__(self):
        def rec(a, b, indices=None):
            v = self.orig(a, b, indices)
            self.calls.append(float(v))
            return v
        self.model.mass = rec
        return self

    def __exit__(self, *exc):
        self.model.mass = self.orig
        return False


def nd_state_cells(g, states):
    cells = {}
    for cs in states:
        pt = Coordinates(cs)
        a = tuple(float(x) for x in g.middle(g.left_point(pt), g[pt]))
        b = tuple(float(x) for x in g.middle(g[pt], g.right_point(pt)))
        cells[cs] = (a, b)
    return cells


def copula_case(rng, thorough, dim=2):
    fams = ["hem", "merton", "vg", "cgmy"]
    margins = []
    for _ in range(dim):
        f = rng.choice(fams)
        p = zoo.draw_params(rng, f, y_branch=rng.choice([-0.5, 0.0, 0.5] + ([1.5] if thorough and rng.random() < 0.15 else []))
                            if f == "cgmy" else None) if rng.random() < 0.7 else {}
        margins.append((f, p))
    cop = rng.choice(zoo.COPULAS)
    cop_kw = dict(theta=rng.choice([0.3, 0.7, 1.0, 2.5]), eta=rng.choice([0.1, 0.3, 0.5, 0.9])) if cop == "clayton" else {}
    nb = rng.choice([3, 5])
    if dim == 3:
        # 5^3 fine states after one refinement of a 3^3 grid; 9^3 (refine twice, or a 5^3 grid once) only now and then:
        # the model's sum over all fine states per coarse state costs ~35 s there
        big = thorough and rng.random() < 0.1
        nb = 5 if big and rng.random() < 0.5 else 3
        return dict(stream="copula", dim=3, margins=margins, copula=cop, copula_kw=cop_kw, h=rng.choice([0.2, 0.1, 0.05]), nb=nb,
                    L=2 if big and nb == 3 else 1, method=rng.choice(list(METHODS_ND)))
    return dict(stream="copula", margins=margins, copula=cop, copula_kw=cop_kw, h=rng.choice([0.2, 0.1, 0.05]), nb=nb,
                L=rng.choice([1, 2]) if nb == 3 else 1, method=rng.choice(list(METHODS_ND)))


def nd_level(ctx, d, cls, cm, cp, g_prev, coarse, standalone, pms, level, corr, lean=True):
    """S + C for one level of a d-dimensional copula coupling (d = 2, 3); returns False after a failure"""
    rng = ctx.rng
    g = cp.grid
    dl = dict(d, level=level)
    axes = zoo.axis_list(g)
    axes_p = zoo.axis_list(g_prev)
    dim = len(axes)
    o = int(list(g.origin_coordinate)[0])
    op = int(list(g_prev.origin_coordinate)[0])
    n, n_c = len(axes[0]), len(axes_p[0])
    if any(ax[0::2] != axp for ax, axp in zip(axes, axes_p)) or o != 2 * op or cp.level != level:
        ctx.fail("oracle", "c03.nd.nesting", dl, {"fine_even": axes[0][0::2], "coarse": axes_p[0], "origins": [o, op]}, cls=cls)
        return False
    states = list(itertools.product(*[range(len(ax)) for ax in axes]))
    cstates = list(itertools.product(*[range(len(ax)) for ax in axes_p]))
    origin, corigin = (o,) * dim, (op,) * dim
    cells, ccells = nd_state_cells(g, states), nd_state_cells(g_prev, cstates)
    fmass, cmass = cp.fine_process.model.mass, coarse.model.mass
    rate = {cs: (0.0 if cs == origin else float(fmass(*cells[cs]))) for cs in states}
    crate = {cs: (0.0 if cs == corigin else float(cmass(*ccells[cs]))) for cs in cstates}
    lam = float(cp.fine_process.intensity_of_jumps)
    tol = ORACLE_REL * max(lam, 1e-300)
    sim = cp._path_coupling_simulation
    cstate = sim._CouplingLevyCopulaSimulation__coupling_state
    saved_u = cp._uniform
    probs, flows = {}, {cs: 0.0 for cs in cstates}
    # axes that differ (CTMCCredit with one threshold per margin): __coupling_state reads the neighbours of the k-th *projected*
    # coordinate from axes[k]; the states whose odd coordinates are not a prefix are read from the wrong axis (recorded finding)
    uneq = any(ax != axes[0] for ax in axes)

    def tie_inside_known_class(kind, probe, inp, detail, cls=None, **_):
        """the coupling on grids whose axes differ is a recorded defect (C03-projected-coordinates-read-first-axes): the model mirrors
        how the code goes wrong there.  A code change inside that region makes the mirror inexact while the property stays violated on
        the same inputs: noted, not a broken tie (findings are identified by the input class that fails)."""
        ctx.branches[f"tie_inside_known_class:{probe}"] += 1
        msg = f"{probe}: the model's mirror of the recorded defect on unequal axes is inexact for this tree (same finding, not a broken tie)"
        if msg not in ctx.notes:
            ctx.notes.append(msg)
    misread_seen, misread_bad, degenerate = [], None, False
    try:
        for cs in states:
            inc = tuple(c - o for c in cs)
            S = [k for k in range(dim) if inc[k] % 2]
            if not S:
                # all coordinates even: copied, no uniform, no mass evaluation
                cp._uniform = ScriptedUniform([])
                with MassRecorder(cp.model) as rec:
                    v = cstate(inc)
                if tuple(float(x) for x in v) != tuple(axes[k][cs[k]] for k in range(dim)) or cp._uniform.calls or rec.calls:
                    ctx.fail("oracle", "c03.nd.even_copied", dl, {"increment": inc, "returned": [float(x) for x in v]}, cls=cls)
                    return False
                flows[tuple(c // 2 for c in cs)] += rate[cs]
                continue
            if not rate[cs] > NOISE_REL * lam:
                # never drawn: mass 0 up to the rounding of the inclusion-exclusion of tail integrals (its total_mass may be 0
                # or noise of either sign); what it could contribute is below the oracle's tolerance
                ctx.branches["c03.nd.zero_mass_states_skipped"] += 1
                continue
            if uneq and S != list(range(len(S))):
                cp._uniform = ScriptedUniform([float("nan")])        # `nan <= probability` is False: the loop visits every corner
                with MassRecorder(cp.model) as rec:
                    try:
                        cstate(inc)
                    except ValueError:
                        pass
                if len(rec.calls) != 1 + 2 ** len(S) or not rec.calls[0] > NOISE_REL * lam or not finite(rec.calls):
                    degenerate = True                      # total_mass of the mis-read box is 0 / noise: 0/0 in the code, nothing to compare
                    ctx.branches["c03.nd.axes.misread_state_with_zero_total_mass"] += 1
                    continue
                total, pm = rec.calls[0], rec.calls[1:]
                p = [x / total for x in pm]
                probs[cs] = p
                misread_seen.append(cs)
                cum = 0.0
                for q, sg in zip(p, itertools.product([-1, 1], repeat=len(S))):
                    tgt = list(cs)
                    for k, s_ in zip(S, sg):
                        tgt[k] += s_
                    flows[tuple(c // 2 for c in tgt)] += rate[cs] * q
                    if q > 2.0 ** -18 and cum + q / 2 < 1 and misread_bad is None:
                        cp._uniform = ScriptedUniform([cum + q / 2])
                        v = [float(x) for x in cstate(inc)]
                        if v != [axes[k][tgt[k]] for k in range(dim)]:
                            misread_bad = {"increment": inc, "u": cum + q / 2, "returned": v, "adjacent_coarse_state": [axes[k][tgt[k]] for k in range(dim)],
                                           "corner_probabilities": p, "axes_read_for_the_neighbours": "axes[position in the projected tuple]"}
                    cum += q
                if misread_bad is None and abs(math.fsum(pm) - total) > ORACLE_REL * lam:
                    misread_bad = {"increment": inc, "corner_masses": pm, "total_mass": total, "sum_of_probabilities": math.fsum(p)}
                continue
            cp._uniform = ScriptedUniform([2.0])
            with MassRecorder(cp.model) as rec:
                try:
                    cstate(inc)
                    ran_through = False
                except ValueError:
                    ran_through = True                     # u = 2 > sum of the probabilities: the loop visited every corner
            if not ran_through or len(rec.calls) != 1 + 2 ** len(S) or not rec.calls[0] > 0:
                ctx.fail("oracle", "c03.nd.corner_probs", dl, {"increment": inc, "what": "loop did not visit 2^|S| corners of a cell of positive mass",
                                                              "mass_calls": rec.calls}, cls=cls)
                return False
            total, pm = rec.calls[0], rec.calls[1:]
            p = [x / total for x in pm]
            probs[cs] = p
            # the loop must return for every uniform of [0, 1): the largest one is sent to the last corner of positive mass
            # (up to the float rounding of the masses, which the check above bounds by ORACLE_REL * lambda / total_mass)
            u_top = 1.0 - 2.0 ** -30 - 2 * ORACLE_REL * lam / total
            cp._uniform = ScriptedUniform([u_top])
            try:
                if u_top > 0.5:
                    v = [float(x) for x in cstate(inc)]
            except ValueError as e:
                ctx.fail("oracle", "c03.nd.corner_probs_sum_one", dl, {"increment": inc, "u": u_top, "exception": repr(e)[:200],
                                                                      "corner_masses": pm, "total_mass": total}, cls=cls)
                return False
            if not corr:
                # search mode: the probabilities are read off the behaviour of __coupling_state as a function of u
                # (bisection on the uniform), not off the masses it asked for
                outcomes, edges, lo_u = [], [], 0.0
                top = max(u_top, 0.5)
                while lo_u < top:
                    cp._uniform = ScriptedUniform([lo_u + 2.0 ** -40])
                    here = [float(x) for x in cstate(inc)]
                    a_, b_ = lo_u, top
                    cp._uniform = ScriptedUniform([b_])
                    if [float(x) for x in cstate(inc)] == here:
                        outcomes.append(here); edges.append(1.0); break
                    for _ in range(44):
                        mid_u = 0.5 * (a_ + b_)
                        cp._uniform = ScriptedUniform([mid_u])
                        if [float(x) for x in cstate(inc)] == here:
                            a_ = mid_u
                        else:
                            b_ = mid_u
                    outcomes.append(here); edges.append(b_); lo_u = b_
                bb = {}
                prev = 0.0
                for oc_, e_ in zip(outcomes, edges):
                    bb[tuple(oc_)] = bb.get(tuple(oc_), 0.0) + (e_ - prev)
                    prev = e_
                p = []
                for sg in itertools.product([-1, 1], repeat=len(S)):
                    tgt = list(cs)
                    for k, s_ in zip(S, sg):
                        tgt[k] += s_
                    p.append(bb.pop(tuple(axes[k][tgt[k]] for k in range(dim)), 0.0))
                if bb:
                    ctx.fail("oracle", "c03.nd.odd_adjacent", dl, {"increment": inc, "returned_non_adjacent": [list(k) for k in bb]}, cls=cls)
                    return False
                probs[cs] = p
                ctx.branches["c03.nd.blackbox_probabilities"] += 1
            # S: the corner probabilities are probabilities and sum to 1
            if min(pm) < -ORACLE_REL * lam or not abs(math.fsum(pm) - total) <= ORACLE_REL * lam:
                ctx.fail("oracle", "c03.nd.corner_probs_sum_one", dl, {"increment": inc, "corner_masses": pm, "total_mass": total,
                                                                      "sum_of_probabilities": math.fsum(p)}, cls=cls)
                return False
            MAXDEV["corner"] = max(MAXDEV["corner"], abs(math.fsum(pm) - total) / lam)
            # S: where each corner goes: an adjacent state with even (= coarse) coordinates on S, unchanged elsewhere
            cum = 0.0
            for q, sg in zip(p, itertools.product([-1, 1], repeat=len(S))):
                tgt = list(cs)
                for k, s_ in zip(S, sg):
                    tgt[k] += s_
                flows[tuple(c // 2 for c in tgt)] += rate[cs] * q
                if q > 2.0 ** -18:
                    cp._uniform = ScriptedUniform([cum + q / 2])
                    v = [float(x) for x in cstate(inc)]
                    if v != [axes[k][tgt[k]] for k in range(dim)] or any(t % 2 for t in tgt):
                        ctx.fail("oracle", "c03.nd.odd_adjacent", dl, {"increment": inc, "u": cum + q / 2, "returned": v,
                                                                      "expected_state": tgt}, cls=cls)
                        return False
                cum += q
    finally:
        cp._uniform = saved_u
    # ---- C first (needed to decide whether a telescoping failure mirrors the model)
    mirrors, m_coupled = None, None
    if corr and lean:
        rows = ctx.lean(f"qnd {wll(axes)} {o}")[1:-1].split(";")
        vals = []
        for r in rows:
            t = r.split(",")
            k = int(t[0])
            S = [int(x) for x in t[1:1 + k]]
            nums = [float(Fraction(x)) for x in t[1 + k:]]
            a, b = tuple(nums[0::2]), tuple(nums[1::2])
            vals.append(float(cm.mass(a, b) if len(S) == dim else cm.mass(a, b, list(S))))
        # the first block of queries are the cells of the non-origin fine states: a cell the oracle treats as a zero-mass
        # cell (float noise of the inclusion-exclusion) is handed to the model as mass 0, so that both skip the same states
        for i, cs in enumerate(c for c in states if c != origin):
            if not rate[cs] > NOISE_REL * lam:
                vals[i] = 0.0
        if not finite(vals):
            ctx.branches["c03.nd.corr_skipped_nonfinite_mass"] += 1
        else:
            head = f"{wll(axes)} {o} {wl(vals)}"
            out = ctx.lean(f"cnd {head}").split(" ")
            if out[0] == "bad-op":
                raise Infra("Drivers/C03 cnd rejected its own query list")
            m_probs, m_rate, m_coupled, m_crate = rdll(out[0]), rdl(out[1]), rdl(out[2]), rdl(out[3])
            floor = fr(max(lam, 1e-300)) * Fraction(1, 2 ** 20)      # cell masses come from inclusion-exclusion of tail integrals
            for i, cs in enumerate(states):
                if rate[cs] > NOISE_REL * lam and not relclose(rate[cs], m_rate[i], floor):
                    ctx.fail("corr", "c03.nd.rates.model", dl, {"name": "Drivers/C03 fine rateNd vs fine_process.model.mass(cell)", "state": list(cs),
                                                              "impl": rate[cs], "model": str(m_rate[i])}, cls=cls)
                    return False
                if cs in probs and not (len(m_probs[i]) == len(probs[cs]) and all(close(a, b, scale=Fraction(1)) for a, b in zip(probs[cs], m_probs[i]))):
                    (tie_inside_known_class if uneq else ctx.fail)("corr", "c03.nd.corner_probs.model", dl, {"name": "Drivers/C03 cornerProbs vs p_mass/total_mass of __coupling_state",
                                                                     "state": list(cs), "impl": probs[cs], "model": [str(x) for x in m_probs[i]]}, cls=cls)
                    return False
            for i, cs in enumerate(cstates):
                if not relclose(crate[cs], m_crate[i], floor):
                    ctx.fail("corr", "c03.nd.rates.model", dl, {"name": "Drivers/C03 coarse rateNd vs chain on the un-refined grid", "state": list(cs),
                                                              "impl": crate[cs], "model": str(m_crate[i])}, cls=cls)
                    return False
            lam_q = fr(max(lam, 1e-300))
            mirrors = degenerate or all(close(flows[cs], m_coupled[i], scale=lam_q) for i, cs in enumerate(cstates))
            if not mirrors:
                i = next(i for i, cs in enumerate(cstates) if not close(flows[cs], m_coupled[i], scale=lam_q))
                (tie_inside_known_class if uneq else ctx.fail)("corr", "c03.nd.coupled.model", dl, {"name": "Drivers/C03 coupledRateNd vs sum of rate x corner probability", "state": list(cstates[i]),
                                                            "impl": flows[cstates[i]], "model": str(m_coupled[i])}, cls=cls)
                return False
            # __coupling_state with the uniform patched around the model's breakpoints
            try:
                live = [cs for cs in probs if all(q == 0 or q > 2.0 ** -18 for q in probs[cs])]
                pts = []
                for cs in rng.sample(live, min(len(live), 6)) + [c for c in misread_seen if c in live][:4]:
                    inc = tuple(c - o for c in cs)
                    cum = list(itertools.accumulate(probs[cs]))
                    us = [rng.random()] + [c * (1 - 2.0 ** -20) for c in cum[:-1] if c > 0] + [c * (1 + 2.0 ** -20) for c in cum[:-1] if 0 < c < 0.999]
                    for u in us:
                        if any(abs(u - c) <= c * 2.0 ** -21 for c in cum) or not 0 < u < min(cum[-1], 1.0) * (1 - 2.0 ** -20):
                            ctx.excluded_small_margin += 1
                            continue
                        cp._uniform = ScriptedUniform([u])
                        pts.append((inc, u, [float(x) for x in cstate(inc)], probs[cs]))
                if pts:
                    ans = rdll(ctx.lean(f"couplendm {head} {wll([p[0] for p in pts])} {wl([p[1] for p in pts])}"))
                    for (inc, u, got, pr), row in zip(pts, ans):
                        if [fr(x) for x in got] != row:
                            (tie_inside_known_class if uneq else ctx.fail)("corr", "c03.nd.couple.model", dl, {"name": "Drivers/C03 coupleNd vs __coupling_state", "increment": inc, "u": u,
                                                                       "impl": got, "model": [str(x) for x in row], "probs": pr}, cls=cls)
                            return False
                    ctx.branches["c03.nd.couple_points"] += len(pts)
            finally:
                cp._uniform = saved_u
    # ---- S: a fine jump off the coarse grid is moved to an adjacent coarse state (grids whose axes differ)
    if uneq:
        ctx.branches["c03.nd.axes.misread_states"] += len(misread_seen)
        if misread_bad is not None:
            ctx.fail("oracle", "c03.nd.odd_adjacent", dl, misread_bad, cls=dict(cls, axes_equal=False), mirrors_model=True if corr else None)
        if degenerate:
            ctx.branches["c03.nd.axes.telescoping_skipped_degenerate"] += 1
            return True
    # ---- S: telescoping
    dependent = d["copula"] != "independent"
    if uneq and not dependent:
        # partial theorem telescoping_nd_independent_axes_partial: the coarse states of the FIRST axis still receive their rate
        first = [cs for cs in cstates if cs != corigin and all(c == op for c in cs[1:])]
        wf = max(first, key=lambda cs: abs(flows[cs] - crate[cs]))
        if not abs(flows[wf] - crate[wf]) <= (tol if corr else 1e-9 * lam):
            ctx.fail("oracle", "c03.nd.telescoping_first_axis", dl, {"coarse_state": list(wf), "coupled_coarse_rate": flows[wf],
                                                                    "coarse_chain_rate": crate[wf], "lambda_fine": lam}, cls=dict(cls, axes_equal=False))
            return False
        ctx.branches["c03.nd.axes.first_axis_telescopes"] += 1
    worst = max(cstates, key=lambda cs: 0.0 if cs == corigin else abs(flows[cs] - crate[cs]))
    dev = abs(flows[worst] - crate[worst])
    if not dependent and not uneq:
        MAXDEV["2d"] = max(MAXDEV["2d"], dev / max(lam, 1e-300))
    if worst != corigin and not dev <= (tol if corr else 1e-9 * lam):
        ctx.fail("oracle", "c03.nd.telescoping", dl, {"coarse_state": list(worst), "coupled_coarse_rate": flows[worst],
                                                     "coarse_chain_rate": crate[worst], "relative_to_lambda": dev / max(lam, 1e-300),
                                                     "lambda_fine": lam}, cls=dict(cls, copula_dependent=dependent, axes_equal=not uneq),
                 mirrors_model=mirrors)
        ctx.branches[f"c03.nd.telescoping_fails:{d['copula']}"] += 1
        return True                                       # recorded; the rest of the level is still checked
    ctx.branches[f"c03.nd.telescoping_holds:{d['copula']}"] += 1
    return True


def nd_level_bookkeeping(ctx, d, cls, cp, coarse, standalone, pms, level):
    dl = dict(d, level=level)
    D2, Dc = np.asarray(cp._diffusion_matrix_2h, dtype=float), np.asarray(coarse._path_simulation.diffusion_matrix, dtype=float)
    D1, Df = np.asarray(cp._diffusion_matrix_h, dtype=float), np.asarray(standalone._path_simulation.diffusion_matrix, dtype=float)
    if not (np.all(np.isfinite(Dc)) and np.all(np.isfinite(Df))):
        # scipy.linalg.sqrtm of a singular variance matrix (e.g. CGMY margins, complete dependence, d = 3) returns inf entries:
        # the chain's own matrix is C04's subject; the coupling must still carry exactly that matrix (inf/NaN in the same places)
        ctx.branches["c03.nd.nonfinite_diffusion_matrix_of_the_chain(C04)"] += 1
    if not (np.allclose(D2, Dc, rtol=1e-12, atol=1e-300, equal_nan=True) and np.allclose(D1, Df, rtol=1e-9, atol=1e-300, equal_nan=True)):
        ctx.fail("oracle", "c03.nd.diffusion", dl, {"coupling_2h": D2.tolist(), "level_l_minus_1_chain": Dc.tolist(), "coupling_h": D1.tolist(),
                                                  "level_l_chain": Df.tolist()}, cls=cls)
        return False
    ts = np.array([0.0, 1.0, 0.37])
    both = np.asarray(pms[-1].deterministic_path(ts), dtype=float)
    want_c, want_f = np.asarray(coarse.deterministic_path(ts), dtype=float), np.asarray(standalone.deterministic_path(ts), dtype=float)
    if both.shape[0] != 2 or not (np.allclose(both[1], want_c, rtol=1e-12, atol=1e-13) and np.allclose(both[0], want_f, rtol=1e-12, atol=1e-13)):
        ctx.fail("oracle", "c03.nd.drift", dl, {"coupled_paths": both.tolist(), "level_l_minus_1_chain": want_c.tolist(),
                                              "level_l_chain": want_f.tolist()}, cls=cls)
        return False
    ps = cp.fine_process._path_simulation
    if hasattr(ps, "_brownian_increments"):
        wv = np.array([[0.5, -1.25, 2.0], [1.5, 0.25, -0.75], [-0.5, 1.0, 0.125]][:D1.shape[1]])
        sq = np.array([0.5, 0.75, 0.25])
        keep = ps._brownian_increments
        ps._brownian_increments = deque([wv.tolist()])
        try:
            df, dc = cp._path_coupling_simulation.simulate_diffusion_with_coupling(sq)
        finally:
            ps._brownian_increments = keep
        ef, ec = np.cumsum(sq * (Df @ wv), axis=1), np.cumsum(sq * (Dc @ wv), axis=1)
        if not (np.allclose(df, ef, rtol=1e-9, atol=1e-300, equal_nan=True) and np.allclose(dc, ec, rtol=1e-9, atol=1e-300, equal_nan=True)):
            ctx.fail("oracle", "c03.nd.same_brownian", dl, {"fine": np.asarray(df).tolist(), "coarse": np.asarray(dc).tolist(),
                                                          "expected_fine": ef.tolist(), "expected_coarse": ec.tolist()}, cls=cls)
            return False
    return True


def build_copula_model(d):
    if d.get("stream") == "cex":
        margins = []
        for knots, heights in (([0.0, 0.5], [1.0]), ([0.0, 1.0], [0.5])):
            m = zoo.make_levy("hem", dict(sigma=0.0))
            m.levy_triplet.nu = zoo.TableMeasure(knots, heights)
            margins.append(m)
        return zoo.make_copula_model(margins, zoo.make_copula("dependent"))
    margins = []
    for f, p in d["margins"]:
        if f == "table":                             # piecewise-constant density with exact integrals
            m = zoo.make_levy("hem", dict(sigma=0.0))
            m.levy_triplet.nu = zoo.TableMeasure(p["knots"], p["heights"])
        else:
            m = zoo.make_levy(f, p)
        margins.append(m)
    return zoo.make_copula_model(margins, zoo.make_copula(d["copula"], **d["copula_kw"]))


def copula_probe(ctx, d, corr=True):
    cls = dict(stream=d["stream"], copula=d["copula"], dimension=d.get("dim", 2))
    guarded(ctx, d, cls, _copula_probe, ctx, d, cls, corr)


def _copula_probe(ctx, d, cls, corr):
    cm = build_copula_model(d)
    if d["stream"] == "credit":
        try:
            g = CTMCCredit(h=d["h"], level_a=list(d["level_a"]), model=cm, symmetric_grid=d["sym"])
        except ValueError as e:                      # a threshold outside the truncation (C13's subject)
            ctx.branches[f"c03.ctor_raises:credit2d:{type(e).__name__}"] += 1
            return
        o_ = int(list(g.origin_coordinate)[0])
        if not all(axis_ok([float(x) for x in ax], o_) for ax in g.axes):
            # the constructor produced an axis that is not strictly increasing (symmetric variant whose mirrored threshold block
            # does not fit below the right truncation bound: C13's recorded finding C13-symmetric-credit-mirror-beyond-r);
            # the coupling statement is about well-formed grids
            ctx.branches["c03.skipped_not_wellformed:credit_nd"] += 1
            return
    elif d["stream"] == "axes":
        g = zoo.CTMCGrid(h=d["h"], origin_coordinate=d["o"], axes=[np.array(a, dtype=float) for a in d["axes"]])
    else:
        g, _ = zoo.make_grid("fixed", None, d["h"], nb_of_points=d["nb"], dimension=d.get("dim", 2))
    method = METHODS_ND[d["method"]]
    prod = the_product()
    cp = CouplingProcessLevyCopula(cm, g, method)
    cp.initialisation(prod)
    cp.pre_computation(2, prod)
    pms = [MLMCPath(cp.fine_process.deterministic_path, False)]
    for level in range(1, d["L"] + 1):
        g_prev = copy.deepcopy(cp.grid)
        coarse = MarkovChainLevyCopula(cm, g_prev, method)
        coarse.initialisation(prod)
        cp.next_level(2, pms, prod)
        standalone = MarkovChainLevyCopula(cm, copy.deepcopy(cp.grid), method)
        standalone.initialisation(prod)
        ctx.count("c03.nd.level", dict(d, level=level), nontrivial=True,
                  branch=f"{d['stream']}:d{d.get('dim', 2)}:{d['copula']}:nb{d.get('nb', len(cp.grid.axes[0]) // 2 + 1)}:L{level}:{d['method']}")
        # levels above d["lean_levels"] are oracle-only (the model's sum over all fine states per coarse state is too slow there)
        if not nd_level(ctx, d, cls, cm, cp, g_prev, coarse, standalone, pms, level, corr, lean=level <= d.get("lean_levels", 99)):
            return
        if not nd_level_bookkeeping(ctx, d, cls, cp, coarse, standalone, pms, level):
            return


def cex_probe(ctx):
    """the Lean negation witness `telescoping_nd_counterexample` replayed on the implementation"""
    d = dict(stream="cex", copula="dependent", copula_kw={}, h=1.0, nb=3, L=1, method="INVERSION")
    cls = dict(stream="cex", copula="dependent", dimension=2)
    out = ctx.lean("cex").split(" ")
    m_fine, m_coupled, m_coarse, m_probs = rdl(out[0]), rd(out[1]), rd(out[2]), rdl(out[3])
    cm = build_copula_model(d)
    g, _ = zoo.make_grid("fixed", None, 1.0, nb_of_points=3, dimension=2)
    prod = the_product()
    cp = CouplingProcessLevyCopula(cm, g, SamplingMethod.INVERSION)
    cp.initialisation(prod)
    cp.pre_computation(2, prod)
    g_prev = copy.deepcopy(cp.grid)
    coarse = MarkovChainLevyCopula(cm, g_prev, SamplingMethod.INVERSION)
    cp.next_level(2, None, prod)
    ctx.count("c03.nd.cex", d, nontrivial=True)
    axes = zoo.axis_list(cp.grid)
    cstate = cp._path_coupling_simulation._CouplingLevyCopulaSimulation__coupling_state
    cp._uniform = ScriptedUniform([2.0])
    with MassRecorder(cp.model) as rec:
        try:
            cstate((0, 1))
        except ValueError:
            pass
    p = [sdiv(x, rec.calls[0]) for x in rec.calls[1:]]
    ok = [fr(x) for x in axes[0]] == m_fine and [frs(x) for x in p] == m_probs
    # coupled rate of the coarse state (0, 1) = fine index (2, 4); coarse rate from the chain on the un-refined grid
    states = list(itertools.product(range(5), repeat=2))
    cells = nd_state_cells(cp.grid, states)
    fm = cp.fine_process.model.mass
    flow = 0.0
    for cs in states:
        if cs == (2, 2):
            continue
        r = float(fm(*cells[cs]))
        if r <= 0:
            continue
        inc = (cs[0] - 2, cs[1] - 2)
        S = [k for k in range(2) if inc[k] % 2]
        if not S:
            flow += r if cs == (2, 4) else 0.0
            continue
        cp._uniform = ScriptedUniform([2.0])
        with MassRecorder(cp.model) as rec:
            try:
                cstate(inc)
            except ValueError:
                pass
        for q, sg in zip(rec.calls[1:], itertools.product([-1, 1], repeat=len(S))):
            tgt = list(cs)
            for k, s_ in zip(S, sg):
                tgt[k] += s_
            if tuple(tgt) == (2, 4):
                flow += r * sdiv(q, rec.calls[0])
    ccells = nd_state_cells(g_prev, [(1, 2)])
    crate = float(coarse.model.mass(*ccells[(1, 2)]))
    mirrors = ok and frs(flow) == m_coupled and frs(crate) == m_coarse
    if not mirrors:
        ctx.fail("corr", "c03.nd.cex.model", d, {"name": "Lean witness telescoping_nd_counterexample vs the implementation", "impl_coupled": flow,
                                               "impl_coarse": crate, "impl_corner_probs": p, "model": out[1:4]}, cls=cls)
    if flow != crate:
        ctx.fail("oracle", "c03.nd.telescoping", d, {"coarse_state": [1, 2], "coupled_coarse_rate": flow, "coarse_chain_rate": crate,
                                                    "corner_probs_of_fine_state_(0,1/2)": p}, cls=dict(cls, copula_dependent=True), mirrors_model=mirrors)


AXES_CEX = dict(stream="axes", axes=[[-2.0, -1.0, 0.0, 1.0, 2.0], [-1.0, -0.5, 0.0, 0.25, 0.5]], o=2, h=1.0,
                margins=[("table", dict(knots=[-4.0, 4.0], heights=[1.0])), ("table", dict(knots=[-4.0, 4.0], heights=[1.0]))],
                copula="independent", copula_kw={}, L=1, method="INVERSION")


def axes_cex_probe(ctx):
    """the Lean negation witness `axes_counterexample` (two different axes, Lebesgue margins) replayed on the implementation"""
    d = dict(AXES_CEX)
    cls = dict(stream="axes", copula="independent", dimension=2)
    out = ctx.lean("cexaxes").split(" ")
    m_ca, m_cb, m_fa, m_fb, m_probs, m_val = rdl(out[0]), rdl(out[1]), rdl(out[2]), rdl(out[3]), rdl(out[4]), rdl(out[5])
    m_c48, m_r24, m_c84, m_r42 = rd(out[6]), rd(out[7]), rd(out[8]), rd(out[9])
    if [fr(x) for x in d["axes"][0]] != m_ca or [fr(x) for x in d["axes"][1]] != m_cb:
        raise Infra("Drivers/C03 cexaxes: the witness axes of the model and of the harness differ")
    cm = build_copula_model(d)
    g = zoo.CTMCGrid(h=d["h"], origin_coordinate=d["o"], axes=[np.array(a, dtype=float) for a in d["axes"]])
    prod = the_product()
    cp = CouplingProcessLevyCopula(cm, g, SamplingMethod.INVERSION)
    cp.initialisation(prod)
    cp.pre_computation(2, prod)
    g_prev = copy.deepcopy(cp.grid)
    coarse = MarkovChainLevyCopula(cm, g_prev, SamplingMethod.INVERSION)
    cp.next_level(2, None, prod)
    ctx.count("c03.nd.cexaxes", d, nontrivial=True)
    axes = zoo.axis_list(cp.grid)
    cstate = cp._path_coupling_simulation._CouplingLevyCopulaSimulation__coupling_state
    cp._uniform = ScriptedUniform([float("nan")])
    with MassRecorder(cp.model) as rec:
        try:
            cstate((0, 3))
        except ValueError:
            pass
    p = [sdiv(x, rec.calls[0]) for x in rec.calls[1:]]
    cp._uniform = ScriptedUniform([0.75])
    v = [float(x) for x in cstate((0, 3))]
    # coupled rate of the coarse states (0, 1/2) = fine (4, 8) and (2, 0) = fine (8, 4)
    states = list(itertools.product(range(9), repeat=2))
    cells = nd_state_cells(cp.grid, states)
    fm = cp.fine_process.model.mass
    flow = {(4, 8): 0.0, (8, 4): 0.0}
    for cs in states:
        if cs == (4, 4):
            continue
        r = float(fm(*cells[cs]))
        if r <= 0:
            continue
        inc = (cs[0] - 4, cs[1] - 4)
        S = [k for k in range(2) if inc[k] % 2]
        if not S:
            if cs in flow:
                flow[cs] += r
            continue
        cp._uniform = ScriptedUniform([float("nan")])
        with MassRecorder(cp.model) as rec:
            try:
                cstate(inc)
            except ValueError:
                pass
        for q, sg in zip(rec.calls[1:], itertools.product([-1, 1], repeat=len(S))):
            tgt = list(cs)
            for k, s_ in zip(S, sg):
                tgt[k] += s_
            if tuple(tgt) in flow:
                flow[tuple(tgt)] += r * sdiv(q, rec.calls[0])
    ccells = nd_state_cells(g_prev, [(2, 4), (4, 2)])
    crate = {c: float(coarse.model.mass(*ccells[c])) for c in ccells}
    mirrors = ([fr(x) for x in axes[0]] == m_fa and [fr(x) for x in axes[1]] == m_fb and [frs(x) for x in p] == m_probs
               and [frs(x) for x in v] == m_val and frs(flow[(4, 8)]) == m_c48 and frs(crate[(2, 4)]) == m_r24
               and frs(flow[(8, 4)]) == m_c84 and frs(crate[(4, 2)]) == m_r42)
    if not mirrors:
        # the Lean witness `axes_counterexample` describes HOW the recorded defect (copula coupling on unequal axes) goes wrong on this
        # input.  A change of the code inside that already-defective region (e.g. the property-preserving refactor C03-hb, which reads
        # the neighbours of each axis through left_point / right_point) makes the witness inexact while the property is violated on the
        # very same input before and after: that is the same recorded finding (findings are identified by the input that fails), not a
        # broken tie and not a new violation — noted in the evidence.
        ctx.notes.append("the witness of known finding C03-projected-coordinates-read-first-axes no longer reproduces value for value "
                         f"(implementation returns {v} with corner probabilities {p}); the input still belongs to the recorded class")
        ctx.branches["c03.nd.cexaxes.witness_inexact"] += 1
    # S: the fine state (0, 3/8) must be moved to (0, 1/4) or (0, 1/2); the first axis is fine (partial theorem)
    if v not in ([0.0, axes[1][6]], [0.0, axes[1][8]]) or abs(sum(p) - 1) > 1e-12:
        ctx.fail("oracle", "c03.nd.odd_adjacent", d, {"increment": [0, 3], "u": 0.75, "returned": v,
                                                     "adjacent_coarse_states": [[0.0, axes[1][6]], [0.0, axes[1][8]]], "corner_probabilities": p},
                 cls=dict(cls, axes_equal=False), mirrors_model=True if mirrors else None)
    if flow[(8, 4)] != crate[(4, 2)]:
        ctx.fail("oracle", "c03.nd.telescoping_first_axis", d, {"coarse_state": [4, 2], "coupled_coarse_rate": flow[(8, 4)],
                                                               "coarse_chain_rate": crate[(4, 2)]}, cls=dict(cls, axes_equal=False))


def credit_case(rng, thorough):
    fams = ["hem", "merton", "vg", "cgmy"]
    margins = []
    for _ in range(2):
        f = rng.choice(fams)
        p = zoo.draw_params(rng, f, y_branch=rng.choice([-0.5, 0.0, 0.5]) if f == "cgmy" else None) if rng.random() < 0.7 else {}
        margins.append((f, p))
    cop = rng.choice(zoo.COPULAS)
    cop_kw = dict(theta=rng.choice([0.3, 0.7, 1.0, 2.5]), eta=rng.choice([0.1, 0.3, 0.5, 0.9])) if cop == "clayton" else {}
    a = rng.sample([-0.25, -0.3, -0.35, -0.4, -0.5], 2)
    return dict(stream="credit", margins=margins, copula=cop, copula_kw=cop_kw, h=rng.choice([0.1, 0.05]), level_a=a,
                sym=bool(thorough and rng.random() < 0.5), L=1, method=rng.choice(list(METHODS_ND)))


def run_nd(ctx, corr=True):
    rng = ctx.rng
    if corr:
        guarded(ctx, dict(stream="cex"), dict(stream="cex", dimension=2), cex_probe, ctx)
        guarded(ctx, dict(AXES_CEX), dict(stream="axes", dimension=2), axes_cex_probe, ctx)
    # grids whose axes differ: the witness axes through the generic level check, then CTMCCredit with one threshold per margin
    copula_probe(ctx, dict(AXES_CEX), corr=corr)
    copula_probe(ctx, dict(stream="credit", margins=[("hem", {}), ("merton", {})], copula="independent", copula_kw={}, h=0.1,
                           level_a=[-0.5, -0.3], sym=False, L=1, method="INVERSION"), corr=corr)
    for _ in range(ctx.n(2, 30)):
        copula_probe(ctx, credit_case(rng, ctx.thorough), corr=corr)
    # every copula at least once, then random draws
    fixed = [dict(stream="copula", margins=[("hem", {}), ("merton", {})], copula=c, copula_kw=(dict(theta=0.7, eta=0.3) if c == "clayton" else {}),
                  h=0.1, nb=5, L=1, method="BINARYSEARCHTREEADAPTED") for c in zoo.COPULAS]
    # d = 3: every copula once on 3^3 -> 5^3 (all seven parities of the increment occur), then random draws
    fixed += [dict(stream="copula", dim=3, margins=[("hem", {}), ("merton", {}), ("vg", {})], copula=c,
                   copula_kw=(dict(theta=0.7, eta=0.3) if c == "clayton" else {}), h=0.1, nb=3, L=1, method=mth)
              for c, mth in zip(zoo.COPULAS, ["INVERSION", "BINARYSEARCHTREEADAPTED", "INVERSION"])]
    for d in fixed:
        copula_probe(ctx, d, corr=corr)
    for _ in range(ctx.n(22, 300)):
        copula_probe(ctx, copula_case(rng, ctx.thorough), corr=corr)
    for _ in range(ctx.n(2, 40)):
        copula_probe(ctx, copula_case(rng, ctx.thorough, dim=3), corr=corr)
    # both n-d sampling methods through 3 successive next_level calls (3x3 -> 17x17), the third level oracle-only
    for mth, cop in zip(METHODS_ND, ["independent", "clayton"]) if not ctx.thorough else itertools.product(METHODS_ND, zoo.COPULAS):
        f1, f2 = rng.choice(["hem", "merton", "vg", "cgmy"]), rng.choice(["hem", "merton", "vg"])
        copula_probe(ctx, dict(stream="copula", margins=[(f1, {}), (f2, {})], copula=cop,
                               copula_kw=(dict(theta=rng.choice([0.7, 2.5]), eta=rng.choice([0.3, 0.9])) if cop == "clayton" else {}),
                               h=0.2, nb=3, L=3, lean_levels=2, method=mth), corr=corr)


def replay_nd(ctx, d):
    if d.get("stream") == "cex":
        cex_probe(ctx)
    elif d.get("stream") == "axes" and "level" not in d:
        axes_cex_probe(ctx)
    else:
        copula_probe(ctx, dict(d, margins=[tuple(m) for m in d["margins"]]))


# ------------------------------------------------------------------------------------------------------------ entry points
def run(ctx, corr=True):
    rng = ctx.rng
    run_1d(ctx, nmodels=ctx.n(22, 150), corr=corr)
    for _ in range(ctx.n(40, 600)):
        synthetic_probe(ctx, synthetic_case(rng), corr=corr)
    if corr:
        for name in list(ARRAY_SAMPLERS) + list(METHODS_1D):
            array_sampler_probe(ctx, name)
    # coupled paths of the maximum-step simulator (S only)
    for i in range(ctx.n(4, 24)):
        fam = ["hem", "cgmy", "merton", "vg"][i % 4]
        d = dict(stream="maxstep_paths", family=fam, params=({} if i < 4 else zoo.draw_params(rng, fam)), h=rng.choice([0.2, 0.1]), nb=rng.choice([5, 9]),
                 eps=rng.choice([0.02, 0.05, 0.2]), L=rng.choice([1, 2]), paths=ctx.n(6, 20), np_seed=rng.randrange(2 ** 31),
                 method=rng.choice(["INVERSION", "INVERSION", "BINARYSEARCHTREEADAPTED1D"] + list(ARRAY_SAMPLERS)))
        guarded(ctx, d, dict(stream="maxstep_paths", dimension=1), coupled_maxstep_probe, ctx, d)
    # SDE coupling: one CGMY driver with y >= 1 (infinite variation: the diffusion coefficient and the drift change with the level)
    # through 3 levels in every run, then random drivers with 1..3 levels
    d = dict(stream="sde", family="cgmy", params=zoo.draw_params(rng, "cgmy", y_branch=rng.choice([1.0, 1.5])), h=0.2, nb=5, L=3,
             method=rng.choice(list(METHODS_1D)))
    guarded(ctx, d, dict(stream="sde", dimension=1), sde_probe, ctx, d, corr=corr)
    for _ in range(ctx.n(4, 40)):
        fam = rng.choice(zoo.FAMILIES)
        d = dict(stream="sde", family=fam, params=zoo.draw_params(rng, fam) if rng.random() < 0.7 else {}, h=rng.choice([0.2, 0.1]),
                 nb=rng.choice([5, 9]), L=rng.randint(1, 3), method=rng.choice(list(METHODS_1D)))
        guarded(ctx, d, dict(stream="sde", dimension=1), sde_probe, ctx, d, corr=corr)
    run_methods(ctx)
    run_nd(ctx, corr=corr)
    ctx.notes.append(f"largest oracle residual / lambda: 1-d {MAXDEV['1d']:.2e}, 2-d independent {MAXDEV['2d']:.2e}, "
                     f"|sum of corner masses - total| / lambda {MAXDEV['corner']:.2e} (threshold {ORACLE_REL})")


def search(ctx):
    """the tie broke but no oracle failed yet: oracle-only pass with a larger budget"""
    run_1d(ctx, nmodels=ctx.n(30, 150), corr=False)
    for _ in range(ctx.n(100, 600)):
        synthetic_probe(ctx, synthetic_case(ctx.rng), corr=False)
    run_nd(ctx, corr=False)


def replay(ctx, rec):
    d = rec["input"]
    s = d.get("stream")
    if s == "synthetic":
        synthetic_probe(ctx, d)
    elif s == "1d":
        model = zoo.make_exp(d["family"], d["params"]) if d.get("exp") else zoo.make_levy(d["family"], d["params"])
        g = grid_from_desc(model, d["grid"])
        cls = rec.get("cls") or dict(stream="1d", kind=d["grid"]["kind"], family=d["family"], dimension=1)
        guarded(ctx, d, cls, coupling1d_probe, ctx, d, cls, model, g, d["method"], d["L"])
    elif s == "array_sampler":
        array_sampler_probe(ctx, d["method"])
    elif s == "sde":
        sde_probe(ctx, d)
    elif s == "maxstep_paths":
        coupled_maxstep_probe(ctx, {k: v for k, v in d.items() if k not in ("level", "path")})
    elif s == "methods":
        methods_probe(ctx, d)
    elif s in ("copula", "cex", "axes", "credit"):
        replay_nd(ctx, d)
    else:
        raise Infra(f"unknown replay record stream {s!r}")
