"""C09 — Closed-form Lévy-measure integrals equal integrals of the model's own density (DESIGN.md §4 C09).

S (property oracle, independent of M): every `integrate*` route of every family against `mpmath.quad` of
x^n·density at 30 digits, additivity at the split points, signs, the truncated wrapper (also wrappers of wrappers, built
with the class or by repeated truncate_levy_measure: integral over the intersection of all intervals), the density itself;
high moment orders (one n per stratum up to 175 / 60, break points at the modes of x^n·density) against the incomplete gamma
function at 50 digits, cross-checked by quadrature.
C (implementation vs M, through Drivers/C09.lean): `_truncated_interval`, `a > b` errors, the polynomial and sign
logic of `integral_xn_exp_minus_x`, VG `integrate_against_xn`, the HEM closed forms (M returns a closed form as
the list of its terms Σ c·exp(e) with rational c, e; evaluated here with mpmath), the split-at-zero pattern.
"""
from __future__ import annotations

import copy
import math
import os
import random
import sys
import warnings
from functools import lru_cache

import mpmath as mp
import numpy as np

from .. import zoo
from ..common import w, wl, rd, rdll, fr

from rpylib.model.levymodel.levymodel import LevyMeasure, TruncatedLevyMeasure
from rpylib.tools import integral as toolint

mp.mp.dps = 30
INF = math.inf
NMAX = 6
if hasattr(sys, "set_int_max_str_digits"):      # M answers with exact rationals: thousands of digits at moment orders > 100
    sys.set_int_max_str_digits(200000)

RULE = ("per model (defaults of HEM/Merton/VG/CGMY, one CGMY draw per activity branch y<0, y=0, 0<y<1, y=1, 1<y<2, then "
        "zoo.draw_params draws, then the boundary of the declared parameter constraints (edge_stream: CGMY g = 0, m = 0, g = m = 0 "
        "spread over the five y branches -- quick: 5 models, thorough: all 15; HEM p = 1 & sigma = 0, HEM intensity = 0, Merton mu_j = 0 & "
        "sigma = 0, Merton intensity = 0; VG sigma = 0 and HEM eta1 = 1 are rejected by the constructors; on an un-tempered CGMY side an "
        "infinite end point is used only where the power-law tail converges (n < y, elementary reference), otherwise the case is skipped "
        "and counted), then a second construction history (reinit_stream: per family the defaults and draws -- quick 2, thorough 6 -- "
        "rebuilt through zoo.reinitialised, i.e. Parameters.initialisation(); mass / x / x^2, both routes, same probes, plus bitwise "
        "equality with the fresh model; VG's reference density is computed from the primary parameters sigma, nu, theta)): break points -inf < 2-3 log-uniform negative points < 0 < 2-3 positive points < inf; every "
        "pair a <= b of break points (one side, straddling, touching 0, finite / infinite ends, degenerate) x n = 0..6 x both "
        "API routes (integrate/_x/_xx and integrate_against_xn); reference = sum of mpmath.quad pieces (30 digits, split at 0 "
        "and at the break points, x = +-t^m substituted on pieces touching 0 for VG/CGMY; error estimate <= 1e-15 relative + 1e-25 or the case is skipped). A combination is skipped (counted) "
        "when x^n*nu is not integrable at a 0 inside the closed interval (VG: n = 0; CGMY: n <= y) -- this includes the "
        "degenerate interval [0,0] there. Tolerance: 1e-8*|ref| + 1e-12 + 1e-13*(one-sided tail moment that the closed form "
        "subtracts; Merton: the absolute moment over R); routes that the implementation evaluates with scipy.integrate.quad "
        "(base-class n >= 3 for HEM/Merton/CGMY, CGMY one-sided x^2) get 1e-7*|ref| + 1e-8 (measured <= 3e-10). A fixed list of past failing inputs (the quad-across-zero defect fixed by fd99be5) runs first. Truncations (l, r) are non-zero "
        "break points. Nested truncations: per model 3 (thorough 8) truncated measures of truncated measures, 2-3 levels, intervals drawn from "
        "the non-zero break points in every relative position (inner narrower / wider, overlapping, touching, disjoint), each level built "
        "with the class TruncatedLevyMeasure or with truncate_levy_measure called again on one (deep-copied) model; every pair a <= b x 2 "
        "random n (thorough: all) x both routes against the reference integral over the intersection of ALL intervals with [a,b] (0 when "
        "empty), and the density against nu(x) inside / 0 outside the intersection (end points of any interval are don't-care). "
        "Parameter regimes (regime_stream, own generator; quick 15 models, thorough 60): the edges of every family's LEGAL box rather than "
        "the typical boxes of zoo.draw_params, one draw per stratum of a RATIO between parameters -- Merton mu_j/sigma_j in {0}, (0.05,1), "
        "(1,10), (10,50), (50,120) with sigma_j from 2e-4 to 3 (a negative mu_j is attempted: rejected by the constructor, counted); HEM "
        "eta1/eta2 in (1e-2,1e-1), (0.3,3), (10,100) x p within 1e-6..1e-2 of 0 / middle / of 1; VG theta/sigma in (-30,-3), (-1,1), (3,30) x nu "
        "in (1e-3,1e-2) / (0.03,0.4) / (1,10); CGMY g/m in the HEM ratio strata x c in (1e-3,1e-2) / (0.2,2) / (10,100), random y branch. "
        "Break points there are placed relative to the FEATURES of the density: the jump mean mu_j and mu_j +- k sigma_j (Merton), k decay "
        "lengths 1/eta1, 1/eta2, 1/lambda_p, 1/lambda_m, 1/m, 1/g on each side (others), k in {0.5, 1, 3, 6}, plus 0 and both infinities; "
        "every pair x n = 0..3 x both routes (c09.closed_form), additivity / signs on a sub-grid of 8 points, two truncations at feature "
        "points (class and truncate_levy_measure) x 17 intervals x n = 0..3 x both routes (c09.truncated), 4 quadratures of nu.__call__ "
        "between adjacent feature points (c09.own_density). The reference pieces are first verified against the analytic value (Gaussian "
        "partial-moment recurrence with erfc; generalised incomplete gamma function; 50 digits; c09.regime.reference, agreement to 1e-13 "
        "relative or the piece is discarded and the cases needing it are counted as skipped). "
        "High moment orders (high_order_run, own generator): the streams above stop at n = 6, the statement says n = 0, 1, 2, 3, ...; per "
        "family the defaults and zoo.draw_params draws (quick: VG 3, others 2 models; thorough 8 / 5-6), per model one order n from each "
        "stratum -- closed forms (VG): 7-12, 13-21, 22-30, 31-60, 61-120, 121-175; scipy-quadrature routes (HEM, Merton, CGMY): 7-12, "
        "13-21, 22-40, 41-60 -- i.e. up to the largest order float(n!) exists for. Break points at 3 of the multiples {0.35, 0.7, 1, 1.4, "
        "2.2} (jittered 8%) of the MODE of |x|^n * density on each side (VG (n-1)/lambda, HEM n/eta, CGMY (n-1-y)/rate, Merton the roots "
        "of x(x - mu_j) = n sigma_j^2) plus 0 and both infinities; every pair + one degenerate interval (c09.closed_form, route xn), "
        "additivity / signs, one truncation (class or truncate_levy_measure) x 13 intervals (c09.truncated); VG also the term-by-term tie "
        "with M on 10 pairs (c09.vgxn.model) and the split pattern. Reference there: incomplete gamma function / Gaussian recurrence at 50 "
        "digits per piece, one random piece per case also by tanh-sinh quadrature of the normalised integrand (agreement 1e-12 relative, "
        "c09.high_order.reference); a case whose reference or tail moments leave 1e-300..1e300 is skipped (counted). Closed-form tolerance "
        "there: 1e-8*|ref| + 1e-13*(one-sided tail moment) + 1e-300, no absolute 1e-12 (moments of order n scale like (n-1)!/rate^n; "
        "measured on the unchanged tree <= 5e-16 of the tail moment for n <= 120). integral_xn_exp_minus_x / _helper_sum_fact_xk: a second "
        "pass with n from the closed-form strata, alpha*end point log-uniform in (0.1 n, 3 n), nine interval shapes (c09.xnexp, "
        "c09.xnexp.model, c09.helper.model). Every high-order case is classed order_regime = float_range / intermediate_overflow from (n, "
        "rate, end points) alone (n > 170, or alpha^(n+1), n!*sum_k (alpha u)^k/k!, n!/alpha^(n+1) beyond 1e300): in the second class the "
        "unchanged code returns inf / nan / raises OverflowError (known finding C09-xn-exp-high-order-float-overflow) and M, exact "
        "rationals, is not compared. "
        "non-trivial = |ref| > 1e-9 (high orders: |ref| > 100*tolerance) and a < b; distinct = distinct (model, route, n, a, b, truncation).")
NOT_PROVED = [
    "special functions: Mathlib has no erf, E1 or incomplete gamma, so Merton (mass, x, x^2; every end-point shape), VG mass and CGMY "
    "(mass for every y < 2, first moment, straddling second moment) are theorems for every function satisfying explicit hypotheses: the "
    "derivative (erf' = 2/sqrt(pi) e^{-x^2}, E1' = -e^{-x}/x, d/dz Gamma(2-a, z) = -z^(1-a) e^{-z}, d/dz gamma(s, z) = z^(s-1) e^{-z} with "
    "gamma(s, 0) = 0 and continuity at 0) and, where an end point is infinite, the limit at infinity (erf -> +-1, E1 -> 0, "
    "Gamma(2-a, .) -> 0, gamma(s, .) -> Gamma(s)); derivative and limits are shown JOINTLY satisfiable (erf/E1/Gam/gl/gl_GamC_hypotheses_satisfiable); that scipy.special's "
    "erf / exp1 / gamma*gammaincc / gamma*gammainc are such functions is probed numerically (c09.special_ode) only",
    "CGMY: mass / first moment on intervals touching 0 (h = 0 enters the tail formulas) and everything at g = 0 / m = 0 except the "
    "straddling second moment over a bounded interval are compared with quadrature only; CGMY second moment on one side is scipy quad in the code",
    "VG mass over an interval containing 0 is infinite (skipped); VG x / x^2 named routes are covered through integrate_against_xn's "
    "theorem only in value (the named methods are separate code, compared with quadrature and with each other)",
    "the scipy.integrate.quad fallbacks (base-class integrate_against_xn for n >= 3, CGMY one-sided x^2) are numerical: compared only",
    "float rounding / cancellation of the closed forms (conditioning) is absorbed by the tolerance, not modelled",
    "moment orders: the theorems (xnExp / vgXn) hold for every n in M's exact rationals; the implementation's arithmetic is finite (floats, "
    "possibly fixed-width integers), so 'exact for small n, wrong for large n' is only seen by the oracle and the term-by-term tie on the "
    "orders actually drawn: n <= 6 everywhere, one order per stratum up to 175 (closed forms) / 60 (quadrature routes) in the high-order "
    "stream. Float overflow of the finite sum's intermediates (n >~ 144 near the mode, everything for n >= 171) is a known finding, not "
    "modelled; orders above 175 are not generated (float(n!) does not exist: the unchanged code raises for every input there)",
    "parameter regimes: the theorems hold for all parameter values of M, but M's closed forms have no float-level shortcuts; a guard in "
    "the implementation that drops or replaces a term depending on the SIZE of an end point relative to a parameter is only seen by the "
    "oracle on inputs where it matters -- hence the regime stream (extreme parameter ratios, end points at the features of the density), "
    "oracle-only. Known there: Merton n >= 3 over intervals much wider than sigma_j (bare scipy quad misses the narrow peak; "
    "C09-merton-narrow-peak-quadrature)",
    "nested truncated measures: truncIntegrate_is_intersection / density_zero_outside are stated for ONE wrapper around an arbitrary inner "
    "measure (so they apply level by level); what TruncatedLevyMeasure.__init__ stores when it is handed a truncated measure is not "
    "modelled -- the composed statement (integral over the intersection of all intervals, density 0 outside it) is oracle-checked on the "
    "implementation (c09.truncated / c09.truncated.density with `trunc_chain`), and the interval that finally reaches the wrapped measure "
    "is compared with M's truncatedIntervalE applied once per level (c09.trunc.model, branch nested)",
]
ASSUMPTIONS = ["the density of each family is the formula of its `__call__` evaluated at the float parameters of the model (VG: c, lambda_p, "
               "lambda_m recomputed from sigma, nu, theta); the harness restates it in mpmath and ties it to `nu(x)` at random points "
               "(c09.density) and by a direct quadrature of `nu.__call__` (c09.own_density)",
               "an interval given by extended end points a <= b denotes (a, b], (-inf, b], (a, inf) or R (`eSet`); single points are "
               "Lebesgue-null, so this is the integral over [a, b] of the property statement"]
TRUSTED = ["mpmath.quad (tanh-sinh, 30 digits), mpmath.exp / erf / e1 / gammainc as the reference and as the value of the model's atoms",
           "scipy.special erf / exp1 / gamma / gammainc(c); the hypotheses of merton_* / vg_mass_* / cgmy_* (derivatives, limits at "
           "infinity, value and continuity at 0) are probed numerically on scipy's functions (c09.special_ode), not proved of them"]

LEAN_TARGETS = ["RpylibModel.Proofs.C09", "RpylibModel.Proofs.Lemmas.C09Abstract", "RpylibModel.Proofs.Lemmas.C09XnExp",
                "RpylibModel.Proofs.Lemmas.C09Terms", "RpylibModel.Proofs.Lemmas.C09Hem", "RpylibModel.Proofs.Lemmas.C09Vg",
                "RpylibModel.Proofs.Lemmas.C09Special", "RpylibModel.Proofs.Lemmas.C09Improper",
                "RpylibModel.Proofs.Lemmas.C09SpecialInf", "RpylibModel.Proofs.Lemmas.C09Cgmy", "RpylibModel.Model.Integrals",
                "RpylibModel.Model.IntegralsSpecial", "RpylibModel.Proofs.Lemmas.C09Ext", "RpylibModel.Proofs.Lemmas.C09ExtFam",
                "RpylibModel.Proofs.Lemmas.C09MertonInf", "RpylibModel.Proofs.Lemmas.C09SpecTerms",
                "RpylibModel.Proofs.Lemmas.C09Satisfiable", "RpylibModel.Proofs.Lemmas.C09CgmyInf",
                "RpylibModel.Proofs.Lemmas.C09CgmyXX"]

_STATS = {} if os.environ.get("C09_STATS") else None


# ------------------------------------------------------------------------------------------------ helpers
def _js(o):
    """strict-JSON form of inputs / details: infinite or nan floats become strings (float("inf") reads them back)"""
    if isinstance(o, float) and not math.isfinite(o):
        return "nan" if math.isnan(o) else ("inf" if o > 0 else "-inf")
    if isinstance(o, dict):
        return {k: _js(v) for k, v in o.items()}
    if isinstance(o, (list, tuple)):
        return [_js(v) for v in o]
    if isinstance(o, (np.floating, np.integer)):
        return _js(o.item())
    return o


def _wrap(ctx):
    if getattr(ctx, "_c09_wrapped", False):
        return
    oc, of = ctx.count, ctx.fail
    ctx.count = lambda probe, inp, **k: oc(probe, _js(inp), **k)
    ctx.fail = lambda kind, probe, inp, detail, **k: of(kind, probe, _js(inp), _js(detail), **k)
    ctx._c09_wrapped = True


def M(x):
    if isinstance(x, float) and math.isinf(x):
        return mp.inf if x > 0 else -mp.inf
    return mp.mpf(float(x))


def ybranch(fam, params_obj):
    if fam != "cgmy":
        return None
    y = float(params_obj.y)
    return "y<0" if y < 0 else "y=0" if y == 0 else "0<y<1" if y < 1 else "y=1" if y == 1 else "1<y<2"


def dens_mp(fam, P):
    """the family's density as a function of an mpf, from the float parameters of the measure"""
    if fam == "hem":
        lam, p, e1, e2 = M(P.intensity), M(P.p), M(P.eta1), M(P.eta2)
        return lambda x: lam * (1 - p) * e2 * mp.exp(e2 * x) if x < 0 else (lam * p * e1 * mp.exp(-e1 * x) if x > 0 else mp.mpf(0))
    if fam == "merton":
        lam, mu, s = M(P.intensity), M(P.mu_j), M(P.sigma_j)
        k = lam / (s * mp.sqrt(2 * mp.pi))
        return lambda x: k * mp.exp(-(x - mu) ** 2 / (2 * s * s))
    if fam == "vg":
        # from the primary parameters (variancegamma.py:24-33 computes c, lambda_p, lambda_m from them in __init__ and again in
        # initialisation()): a model rebuilt through initialisation() must have the same density as a fresh one
        sg, nu_, th = M(P.sigma), M(P.nu), M(P.theta)
        c = 1 / nu_
        lp = mp.sqrt(th ** 2 + 2 * sg ** 2 / nu_) / sg ** 2 - th / sg ** 2
        lm = lp + 2 * th / sg ** 2
        return lambda x: c * mp.exp(lm * x) / (-x) if x < 0 else (c * mp.exp(-lp * x) / x if x > 0 else mp.mpf(0))
    if fam == "cgmy":
        c, g, m_, y = M(P.c), M(P.g), M(P.m), M(P.y)
        return lambda x: c * mp.exp(g * x) / (-x) ** (1 + y) if x < 0 else (c * mp.exp(-m_ * x) / x ** (1 + y) if x > 0 else mp.mpf(0))
    raise ValueError(fam)


def scales_of(fam, P):
    """characteristic lengths used to help the reference quadrature (interior split points)"""
    if fam == "hem":
        return [1 / P.eta1, 1 / P.eta2]
    if fam == "merton":
        return [P.sigma_j]
    if fam == "vg":
        return [1 / P._lambda_p, 1 / P._lambda_m]
    return [1 / r if r > 0 else 1.0 for r in (P.m, P.g)]     # un-tempered side (rate 0): pure power law, any scale will do


class Ref:
    """reference integrals of x^n·density by mpmath.quad, cached per piece"""

    def __init__(self, fam, P, pts=()):
        self.fam, self.P = fam, P
        self.f = dens_mp(fam, P)
        self.pts = sorted(set(float(x) for x in pts) | {0.0})
        self.cache = {}
        extra = set()
        for s in scales_of(fam, P):
            for k in (0.3, 1, 3, 8, 20, 50):
                extra |= {k * s, -k * s}
        if fam == "merton":
            extra |= {float(P.mu_j) + e for e in list(extra)} | {float(P.mu_j)}
        self.extra = sorted(extra)
        self.y = float(P.y) if fam == "cgmy" else (0.0 if fam == "vg" else None)
        # CGMY with g = 0 / m = 0 (legal: declared `positive`, i.e. >= 0): the density is the pure power law c/|x|^(1+y) there
        self.rate0 = {"neg": fam == "cgmy" and float(P.g) == 0.0, "pos": fam == "cgmy" and float(P.m) == 0.0}

    def power_tail(self, n, lo, hi):
        """∫_lo^hi x^n c/|x|^(1+y) dx with an infinite end on an un-tempered side: elementary, finite iff n < y"""
        if not n < self.y:
            return None
        e, c = M(n) - M(self.y), M(self.P.c)
        return c * M(lo) ** e / (-e) if hi == INF else (-1) ** n * c * M(-hi) ** e / (-e)

    def integrable0(self, n):
        if self.fam in ("hem", "merton"):
            return True
        return n > self.y

    def piece(self, n, lo, hi):
        """∫_lo^hi x^n f, no 0 strictly inside; returns mpf, or None when infinite / unreliable"""
        key = (n, lo, hi)
        if key in self.cache:
            return self.cache[key]
        if (lo == 0 or hi == 0) and not self.integrable0(n):
            self.cache[key] = None
            return None
        if (hi == INF and self.rate0["pos"]) or (lo == -INF and self.rate0["neg"]):
            if (lo == 0 or hi == 0):
                self.cache[key] = None      # n > y needed at 0, n < y at infinity
                return None
            self.cache[key] = self.power_tail(n, lo, hi)
            return self.cache[key]
        inner = [e for e in self.extra if lo < e < hi]
        f = self.f
        m = 1
        if (lo == 0 or hi == 0) and self.y is not None and not math.isinf(lo) and not math.isinf(hi):
            m = max(1, math.ceil(3 / (n - self.y)))      # integrand ~ |x|^(n-1-y) at 0: x = ±t^m makes it smooth
        if m > 1:
            sgn, top = (1, hi) if lo == 0 else (-1, -lo)
            rt = lambda z: M(z) ** (mp.mpf(1) / m)
            pts = [mp.mpf(0)] + sorted(rt(abs(e)) for e in inner) + [rt(top)]
            v, err = mp.quad(lambda t: (sgn * t ** m) ** n * f(sgn * t ** m) * m * t ** (m - 1), pts, error=True)
        else:
            pts = [M(lo)] + [M(e) for e in inner] + [M(hi)]
            v, err = mp.quad(lambda x: x ** n * f(x), pts, error=True)
        ok = err <= mp.mpf(10) ** -15 * abs(v) + mp.mpf(10) ** -25
        self.cache[key] = v if ok else None
        if not ok:
            self.cache[("unreliable", key)] = True
        return self.cache[key]

    def integral(self, n, a, b):
        if a == b:
            return mp.mpf(0) if (a != 0 or self.integrable0(n)) else None
        cuts = sorted({a, b} | {p for p in self.pts if a < p < b})
        tot = mp.mpf(0)
        for lo, hi in zip(cuts, cuts[1:]):
            v = self.piece(n, lo, hi)
            if v is None:
                return None
            tot += v
        return tot

    def scale(self, n, a, b):
        """magnitude of the terms that a closed form 'tail(a) - tail(b)' subtracts"""
        s = mp.mpf(0)
        if self.fam == "merton":
            for lo, hi in ((-INF, 0.0), (0.0, INF)):
                v = self.integral(n, lo, hi)
                s += abs(v) if v is not None else 0
            return s
        if b > 0:
            v = self.integral(n, max(a, 0.0), INF)
            s += abs(v) if v is not None else 0
        if a < 0:
            v = self.integral(n, -INF, min(b, 0.0))
            s += abs(v) if v is not None else 0
        return s


NAMED = ["integrate", "integrate_against_x", "integrate_against_xx"]


def routes(n):
    return ["named", "xn"] if n <= 2 else ["xn"]


def call(nu, route, n, a, b):
    """one implementation call; ('ok', float) | ('raise', text)"""
    try:
        with warnings.catch_warnings(), np.errstate(all="ignore"):
            warnings.simplefilter("ignore")
            v = getattr(nu, NAMED[n])(a, b) if route == "named" else nu.integrate_against_xn(a, b, n)
            if np.iscomplexobj(v):      # nan+nanj from a negative base raised to a real power
                v = complex(v)
                v = v.real if v.imag == 0 else math.nan
            v = float(v)
        return "ok", v
    except Exception as e:  # noqa
        return "raise", f"{type(e).__name__}: {e}"[:200]


def is_quad_route(fam, n, a, b):
    """True when the implementation itself evaluates this case by scipy.integrate.quad"""
    if fam in ("hem", "merton"):
        return n >= 3
    if fam == "cgmy":
        return n >= 3 or (n == 2 and not (a < 0 < b))
    return False


def shape_of(a, b):
    if a == b:
        return "degenerate_at_zero" if a == 0 else "degenerate"
    if a < 0 < b:
        return "straddle"
    return "pos" if a >= 0 else "neg"


def tolerance(ref, scale, quad_route, straddle=False, floor=None):
    """`floor`: the absolute term of the closed-form routes (default 1e-12: fine for the orders n <= 6, where it is far below
    every moment that matters).  The high-order stream passes 1e-300: a moment of order n scales like (n-1)!/rate^n, anything from
    1e-60 to 1e+200, and the rounding error of a closed form is RELATIVE to the one-sided tail moments it subtracts (measured on
    the unchanged tree for n <= 120: <= 5e-16 of them), so there the judgement is 1e-8*|ref| + 1e-13*scale only"""
    if quad_route:
        # routes the implementation evaluates with scipy.integrate.quad (defaults epsabs = epsrel = 1.49e-8), one call per
        # side of zero since fd99be5.  Measured on the unchanged tree over seeds 0..5 (one-sided and straddling alike):
        # |err| <= 3e-10, so 1e-8 absolute leaves a factor 30; the single-quad-across-zero defect erred by 3e-8..2e-7.
        return mp.mpf("1e-7") * abs(ref) + mp.mpf("1e-8")
    return mp.mpf("1e-8") * abs(ref) + (mp.mpf("1e-12") if floor is None else floor) + mp.mpf("1e-13") * scale


def _stat(key, err, tol):
    if _STATS is not None and tol > 0:
        r = float(err / tol)
        if r > _STATS.get(key, (0,))[0]:
            _STATS[key] = (r,)


def model_desc(fam, params):
    return dict(family=fam, params=params)


def make_nu(fam, params):
    with warnings.catch_warnings(), np.errstate(all="ignore"):      # CGMY's constructor computes 0 ** y for g = 0 / m = 0
        warnings.simplefilter("ignore")
        model = zoo.make_levy(fam, params)
    return model, model.levy_triplet.nu


# ------------------------------------------------------------------------------------------------ per-model probes
class Case:
    """everything about one model: measure, reference, cache of implementation values"""
    floor = None            # absolute term of the closed-form tolerance (None: the default 1e-12), see `tolerance`
    branch_tag = ""

    def __init__(self, ctx, fam, params, pts):
        self.ctx, self.fam, self.params = ctx, fam, params
        self.model, self.nu = make_nu(fam, params)
        self.P = self.nu.parameters
        self.ref = Ref(fam, self.P, [p for p in pts if not math.isinf(p)])
        self.pts = pts
        self.yb = ybranch(fam, self.P)
        self.vals = {}

    def cls(self, n, route, a, b, **kw):
        d = dict(family=self.fam, n=n, route=route, shape=shape_of(a, b), zero_in_interval=bool(a <= 0 <= b),
                 inf_end=bool(math.isinf(a) or math.isinf(b)), quad_route=is_quad_route(self.fam, n, a, b))
        if self.yb:
            d["ybranch"] = self.yb
            g0, m0 = float(self.P.g) == 0.0, float(self.P.m) == 0.0
            if g0 or m0:
                d["untempered"] = "g=m=0" if (g0 and m0) else ("g=0" if g0 else "m=0")
                # the code's one-sided forms evaluate the rate-0 tail when the interval meets that side (a >= 0 routes to m)
                d["untempered_side_used"] = bool((g0 and a < 0) or (m0 and (b > 0 or a >= 0)))
        d.update(kw)
        return d

    def inp(self, n, route, a, b, **kw):
        return dict(model_desc(self.fam, self.params), n=n, route=route, a=a, b=b, **kw)

    def impl(self, route, n, a, b):
        key = (route, n, a, b)
        if key not in self.vals:
            self.vals[key] = call(self.nu, route, n, a, b)
        return self.vals[key]

    def good(self, route, n, a, b):
        """implementation value usable by the secondary oracles (finite, reference finite)"""
        if self.ref.integral(n, a, b) is None:
            return None
        st, v = self.impl(route, n, a, b)
        return v if st == "ok" and math.isfinite(v) else None


class _Spy(LevyMeasure):
    """innermost measure that records the interval it is finally asked to integrate over (C: nested clipping vs M)"""

    def __init__(self, inner):
        self.inner, self.seen = inner, None

    def __call__(self, x):
        return self.inner(x)

    def jump_of_finite_activity(self):
        return self.inner.jump_of_finite_activity()

    def jump_of_finite_variation(self):
        return self.inner.jump_of_finite_variation()

    def blumenthal_getoor_index(self):
        return self.inner.blumenthal_getoor_index()

    def integrate(self, a, b):
        self.seen = (a, b)
        return 0.0

    def integrate_against_xn(self, a, b, n):
        self.seen = (a, b)
        return 0.0


def nested_measure(c: "Case", chain, how, base=None):
    """a truncated measure of a truncated measure of ... of the model's measure: `chain` lists the intervals innermost first,
    `how` has one letter per level -- "c": wrap with the class `TruncatedLevyMeasure`, "a": public
    `LevyModel.truncate_levy_measure` called (again) on one model (a deep copy, the way the chains copy the caller's model)"""
    model = copy.deepcopy(c.model)
    if base is not None:
        model.levy_triplet.nu = base
    for (l, r), letter in zip(chain, how):
        if letter == "a":
            model.truncate_levy_measure((l, r))
        else:
            model.levy_triplet.nu = TruncatedLevyMeasure(model.levy_triplet.nu, (l, r))
    return model.levy_triplet.nu


def chain_interval(chain):
    """intersection of the truncation intervals (l > r: empty)"""
    return max(l for l, _ in chain), min(r for _, r in chain)


def closed_form_probe(c: Case, route, n, a, b, nu=None, trunc=None, chain=None, how=None):
    """S: one implementation value against the reference integral (over the intersection when truncated; over the intersection
    with ALL intervals when the truncated measure wraps truncated measures: `chain`, innermost first)"""
    ctx = c.ctx
    probe = "c09.truncated" if (trunc or chain) else "c09.closed_form"
    aa, bb = (a, b)
    if trunc:
        l, r = trunc
        aa, bb = max(a, l), min(b, r)
        if aa > bb:
            aa = bb = (l if b < l else r)      # empty intersection: expected value 0
    if chain:
        l, r = chain_interval(chain)
        aa, bb = max(a, l), min(b, r)
        if aa > bb:
            # empty intersection: expected value 0 = the integral over a degenerate interval; the point is a truncation end
            # (clamping [a, b] into one interval after the other, outermost first, ends in a single point as soon as one
            # intersection is empty) -- it only classifies the input
            aa, bb = a, b
            for l_, r_ in reversed(chain):
                aa, bb = max(min(aa, r_), l_), min(max(bb, l_), r_)
            assert aa == bb, (a, b, chain)
    ref = c.ref.integral(n, aa, bb)
    kw = dict(trunc=list(trunc)) if trunc else dict(trunc_chain=[list(iv) for iv in chain], how=how) if chain else {}
    inp = c.inp(n, route, a, b, **kw)
    if chain:
        l, r = chain_interval(chain)
        cls = c.cls(n, route, aa, bb, truncated=True, outside=bool(max(a, l) > min(b, r)), nested=len(chain))
    else:
        cls = c.cls(n, route, aa, bb, **({"truncated": True, "outside": bool(max(a, trunc[0]) > min(b, trunc[1]))} if trunc else {}))
    if ref is None:
        unrel = any(isinstance(k_, tuple) and k_ and k_[0] == "unreliable" and k_[1][0] == n for k_ in c.ref.cache)
        at_inf = (c.ref.rate0["pos"] and bb == INF) or (c.ref.rate0["neg"] and aa == -INF)
        ctx.count(probe, inp, nontrivial=False, branch="skipped_reference_unreliable" if unrel and c.ref.integrable0(n)
                  else "skipped_not_integrable_at_0" if not (c.ref.integrable0(n) or not aa <= 0 <= bb)
                  else "skipped_untempered_tail_diverges" if at_inf else "skipped_not_integrable_at_0")
        return
    st, v = call(nu, route, n, a, b) if (trunc or chain) else c.impl(route, n, a, b)
    quad_route = is_quad_route(c.fam, n, aa, bb)
    scale = c.ref.scale(n, aa, bb) if aa != bb else mp.mpf(0)
    tol = tolerance(ref, scale, quad_route, aa < 0 < bb, floor=c.floor)
    # non-trivial: the value is well above what the tolerance lets through (default floor: above 1e-9)
    nt = abs(ref) > 1e-9 if c.floor is None else abs(ref) > 100 * tol
    ctx.count(probe, inp, nontrivial=bool(nt and a < b), branch=f"{c.fam}:{'quad' if quad_route else 'closed'}{c.branch_tag}")
    if st != "ok":
        ctx.fail("oracle", probe, inp, {"what": "raises on an interval where the integral is finite", "exception": v,
                                        "reference": mp.nstr(ref, 17)}, cls=cls)
        return
    err = abs(M(v) - ref) if math.isfinite(v) else mp.inf
    _stat((c.fam, c.yb, "quad" if quad_route else "closed", n, cls["shape"], cls["inf_end"]), err, tol)
    if not err <= tol:
        ctx.fail("oracle", probe, inp, {"what": "closed form differs from the integral of x^n * density",
                                        "implementation": v, "reference": mp.nstr(ref, 17), "tolerance": mp.nstr(tol, 5),
                                        "clipped_interval": [aa, bb]}, cls=cls)


def additivity_sign_probe(c: Case, n, route):
    """S without reference: additivity over adjacent intervals and the sign rules, on the cached values"""
    ctx, pts = c.ctx, c.pts
    k = len(pts)
    for i in range(k):
        for j in range(i + 1, k):
            a, b = pts[i], pts[j]
            v = c.good(route, n, a, b)
            if v is None:
                continue
            qr = is_quad_route(c.fam, n, a, b)
            scale = c.ref.scale(n, a, b)
            tol0 = tolerance(M(v), scale, qr, a < 0 < b, floor=c.floor)
            # sign: even n non-negative; odd n has the sign of the half-line
            expect = 1 if (n % 2 == 0 or a >= 0) else (-1 if b <= 0 else 0)
            if expect:
                inp = c.inp(n, route, a, b)
                ctx.count("c09.sign", inp, nontrivial=abs(v) > 1e-9, branch="nonneg" if expect > 0 else "nonpos")
                if expect * v < -float(tol0):
                    ctx.fail("oracle", "c09.sign", inp, {"value": v, "expected_sign": expect}, cls=c.cls(n, route, a, b))
            for m in range(i + 1, j):
                s = pts[m]
                v1, v2 = c.good(route, n, a, s), c.good(route, n, s, b)
                if v1 is None or v2 is None:
                    continue
                inp = c.inp(n, route, a, b, split=s)
                tol = tol0 + tolerance(M(v1), c.ref.scale(n, a, s), is_quad_route(c.fam, n, a, s), a < 0 < s, floor=c.floor) \
                    + tolerance(M(v2), c.ref.scale(n, s, b), is_quad_route(c.fam, n, s, b), s < 0 < b, floor=c.floor)
                ctx.count("c09.additivity", inp, nontrivial=abs(v) > 1e-9, branch="split_at_0" if s == 0 else "split")
                if not abs(M(v) - M(v1) - M(v2)) <= tol:
                    ctx.fail("oracle", "c09.additivity", inp, {"whole": v, "left": v1, "right": v2, "tolerance": mp.nstr(tol, 5)},
                             cls=c.cls(n, route, a, b, split_at_zero=bool(s == 0)))


def split_model_probe(c: Case, n, route):
    """C: the implementation's value on [a,b] against M's split-at-zero combination of the implementation's own
    half-line values (tp(u) = I(u, inf), tn(u) = I(-inf, u))"""
    ctx = c.ctx
    fin = [p for p in c.pts if not math.isinf(p)]
    ks, tps, tns = [], [], []
    if is_quad_route(c.fam, n, 1.0, 2.0):
        return      # one-sided values come from scipy quad (no tail pattern in the code)
    for u in fin:
        tp = c.good(route, n, u, INF) if u >= 0 else 0.0
        tn = c.good(route, n, -INF, u) if u <= 0 else 0.0
        if tp is None or tn is None:
            if u == 0:
                return      # tails at 0 infinite: the pattern is not defined for this n
            continue
        ks.append(u); tps.append(tp); tns.append(tn)
    for a in [-INF] + ks:
        for b in ks + [INF]:
            if not a < b:
                continue
            if is_quad_route(c.fam, n, a, b):
                continue    # the base-class quadrature has no split pattern
            v = c.good(route, n, a, b)
            if v is None:
                continue
            out = ctx.lean(f"split {wl(ks)} {wl(tps)} {wl(tns)} {w(a)} {w(b)}")
            inp = c.inp(n, route, a, b)
            ctx.count("c09.split.model", inp, nontrivial=abs(v) > 1e-9)
            sc = sum(abs(x) for x in tps + tns if True)
            qr = is_quad_route(c.fam, n, a, b)
            tol = float(tolerance(M(v), M(sc), qr, a < 0 < b)) * 3
            if out in ("err", "bad-op") or abs(float(rd(out)) - v) > tol:
                ctx.fail("corr", "c09.split.model", inp, {"name": "Integrals.integrate (split-at-zero pattern) vs implementation",
                                                          "implementation": v, "model": out[:80]}, cls=c.cls(n, route, a, b))


def eval_terms(out):
    """Σ c·exp(e) of a `[c,e;c,e]` answer, and Σ |c·exp(e)|"""
    tot, sc = mp.mpf(0), mp.mpf(0)
    for c_, e in rdll(out):
        t = (mp.mpf(c_.numerator) / c_.denominator) * mp.exp(mp.mpf(e.numerator) / e.denominator)
        tot += t
        sc += abs(t)
    return tot, sc


def terms_probe(ctx, probe, name, line, impl_call, inp, cls):
    """C: implementation vs a closed form that M returns as a list of exponential terms"""
    out = ctx.lean(line)
    try:
        with warnings.catch_warnings(), np.errstate(all="ignore"):
            warnings.simplefilter("ignore")
            v = float(impl_call())
        st = "ok"
    except Exception as e:  # noqa
        st, v = "raise", f"{type(e).__name__}: {e}"[:160]
    ctx.count(probe, inp, nontrivial=(st == "ok"), branch="err" if out == "err" else "terms")
    if out == "bad-op":
        ctx.fail("corr", probe, inp, {"name": name, "model": out}, cls=cls)
        return None
    if out == "err" or st == "raise":
        # M's `none` = the code raises, or evaluates a helper at an infinite point (nan)
        agree = (out == "err") and (st == "raise" or (st == "ok" and not math.isfinite(v)))
        if not agree:
            ctx.fail("corr", probe, inp, {"name": name, "implementation": v, "model": out[:120]}, cls=cls)
        return None
    tot, sc = eval_terms(out)
    tol = mp.mpf(2) ** -40 * sc + mp.mpf(10) ** -300
    if not (math.isfinite(v) and abs(M(v) - tot) <= tol):
        ctx.fail("corr", probe, inp, {"name": name, "implementation": v, "model_value": mp.nstr(tot, 17), "model_terms": out[:300]}, cls=cls)
    return tot, sc, v


def _q(tok):
    """rational / inf token of a driver answer as mpf"""
    if tok in ("inf", "-inf"):
        return mp.inf if tok == "inf" else -mp.inf
    f = rd(tok)
    return mp.mpf(f.numerator) / f.denominator


def _items(block):
    block = block.strip()
    assert block[0] == "[" and block[-1] == "]", block
    return [it.split(",") for it in block[1:-1].split(";") if it]


def eval_merton_terms(out, P):
    """Σ c·erf((u−μ)/(σ√2)) (erf(±inf) = ±1) + Σ c·σ/√(2π)·exp(−(u−μ)²/(2σ²)), the atoms evaluated by mpmath"""
    mu, sg = M(P.mu_j), M(P.sigma_j)
    eb, gb = out.split(" ")
    tot, sc = mp.mpf(0), mp.mpf(0)
    for c_, u in _items(eb):
        u = _q(u)
        t = _q(c_) * (mp.mpf(1) if u == mp.inf else mp.mpf(-1) if u == -mp.inf else mp.erf((u - mu) / (sg * mp.sqrt(2))))
        tot += t; sc += abs(t)
    for c_, u in _items(gb):
        t = _q(c_) * sg / mp.sqrt(2 * mp.pi) * mp.exp(-(_q(u) - mu) ** 2 / (2 * sg ** 2))
        tot += t; sc += abs(t)
    return tot, sc


def eval_e1_terms(out):
    tot, sc = mp.mpf(0), mp.mpf(0)
    for c_, z in _items(out):
        z = _q(z)
        if not z > 0:
            return None
        t = _q(c_) * mp.e1(z)
        tot += t; sc += abs(t)
    return tot, sc


def cgmy_atom(kind, args):
    """the integral an atom stands for, by mpmath's incomplete gamma functions (independent of the code's formulas);
    None: un-tempered tail (rate 0), see the known findings C09-cgmy-untempered-*"""
    if kind in ("tailMass", "tailX"):
        al, u, h = (_q(x) for x in args)
        if not (u > 0 and h > 0):
            return None
        e = -al if kind == "tailMass" else 1 - al          # ∫_h^∞ e^{−ux} x^{e−1} dx = u^{−e} Γ(e, u h)
        return mp.gammainc(e, u * h) * u ** (-e)
    if kind == "lowGam":
        s_, r, h = (_q(x) for x in args)
        return (mp.gamma(s_) if h == mp.inf else mp.gammainc(s_, 0, r * h)) / r ** s_
    if kind == "pow":
        s_, h = (_q(x) for x in args)
        return h ** s_ / s_
    raise ValueError(kind)


def cgmy_atom_internal(kind, args):
    """magnitude of the terms that the code's own formula for the atom subtracts (cgmy.py:215-235, 262-276): the
    cancellation-aware part of the comparison scale"""
    if kind == "tailMass":
        al, u, h = (_q(x) for x in args)
        if al == 0:
            return mp.mpf(0)
        e = mp.exp(-u * h)
        if al >= 1:
            low = ("tailMass", [args[0] + "-1" if False else str(rd(args[0]) - 1), args[1], args[2]])
            return e / (al * h ** al) + (u / al) * (cgmy_atom_internal(*low) + abs(cgmy_atom(*low)))
        return e * (1 + u * h / abs(1 - al)) / (abs(al) * h ** al)
    if kind == "tailX":
        al, u, h = (_q(x) for x in args)
        return mp.mpf(0) if al == 1 else h ** (1 - al) * mp.exp(-u * h) / abs(al - 1)
    return mp.mpf(0)


def eval_cgmy_terms(out):
    tot, sc = mp.mpf(0), mp.mpf(0)
    for it in _items(out):
        v = cgmy_atom(it[1], it[2:])
        if v is None:
            return None
        t = _q(it[0]) * v
        tot += t; sc += abs(t) + abs(_q(it[0])) * cgmy_atom_internal(it[1], it[2:])
    return tot, sc


def atoms_probe(ctx, probe, name, line, evaluator, impl_call, inp, cls, none_means_nonfinite=False, extra_scale=0):
    """C: implementation vs a special-function closed form that M returns as a list of (rational coefficient, atom); the
    atoms are evaluated with mpmath's erf / e1 / gammainc.  M's `none` (`err`): outside the modelled closed forms -- only
    checked against the implementation where M claims the code fails (none_means_nonfinite)"""
    out = ctx.lean(line)
    try:
        with warnings.catch_warnings(), np.errstate(all="ignore"):
            warnings.simplefilter("ignore")
            v = impl_call()
            v = float(v.real if np.iscomplexobj(v) and complex(v).imag == 0 else (math.nan if np.iscomplexobj(v) else v))
        st = "ok"
    except Exception as e:  # noqa
        st, v = "raise", f"{type(e).__name__}: {e}"[:160]
    if out == "bad-op":
        ctx.count(probe, inp, nontrivial=False, branch="bad-op")
        ctx.fail("corr", probe, inp, {"name": name, "model": out}, cls=cls)
        return
    if out == "err":
        ctx.count(probe, inp, nontrivial=False, branch="model_none")
        if none_means_nonfinite and st == "ok" and math.isfinite(v):
            ctx.fail("corr", probe, inp, {"name": name, "implementation": v, "model": out}, cls=cls)
        return
    ev = evaluator(out)
    if ev is None:
        ctx.count(probe, inp, nontrivial=False, branch="atom_outside_domain")
        return
    tot, sc = ev
    ctx.count(probe, inp, nontrivial=bool(st == "ok" and sc > 0), branch="terms")
    tol = mp.mpf(2) ** -40 * (sc + extra_scale) + mp.mpf(10) ** -300
    if not (st == "ok" and math.isfinite(v) and abs(M(v) - tot) <= tol):
        ctx.fail("corr", probe, inp, {"name": name, "implementation": v, "model_value": mp.nstr(tot, 17), "model_terms": out[:300],
                                      "tolerance": mp.nstr(tol, 5)}, cls=cls)
    elif _STATS is not None:
        _stat((probe, cls.get("ybranch"), cls.get("n"), cls.get("shape")), abs(M(v) - tot), tol)


def special_terms_probes(c: Case, pairs, nmax):
    """C for the closed forms with special functions: Merton (k = 0, 1, 2, every end-point shape), VG mass (one side of 0),
    CGMY mass / first moment (one side of 0, away from it) and the straddling second moment"""
    ctx, nu, P, fam = c.ctx, c.nu, c.P, c.fam
    if fam == "merton":
        for k in range(min(nmax, 2) + 1):
            for a, b in pairs:
                atoms_probe(ctx, "c09.merton.model", "Integrals.mertonTerms vs _MertonLevyMeasure." + NAMED[k],
                            f"merton {k} {w(P.intensity)} {w(P.mu_j)} {w(P.sigma_j)} {w(a)} {w(b)}",
                            lambda o: eval_merton_terms(o, P), lambda: getattr(nu, NAMED[k])(a, b),
                            c.inp(k, "named", a, b), c.cls(k, "named", a, b))
    if fam == "vg":
        for a, b in pairs:
            if not (a > 0 or b < 0 or (a == -INF and b == INF)):
                continue        # 0 in the closed interval: the mass is infinite
            atoms_probe(ctx, "c09.vgmass.model", "Integrals.vgMassTerms vs _VGLevyMeasure.integrate",
                        f"vgmass {w(P._c)} {w(P._lambda_p)} {w(P._lambda_m)} {w(a)} {w(b)}", eval_e1_terms,
                        lambda: nu.integrate(a, b), c.inp(0, "named", a, b), c.cls(0, "named", a, b), none_means_nonfinite=True)
    if fam == "cgmy":
        prm = f"{w(P.c)} {w(P.g)} {w(P.m)} {w(P.y)}"
        for a, b in pairs:
            if a > 0 or b < 0:
                atoms_probe(ctx, "c09.cgmy.model", "Integrals.cgmyMassTerms vs _CGMYLevyMeasure.integrate", f"cgmymass {prm} {w(a)} {w(b)}",
                            eval_cgmy_terms, lambda: nu.integrate(a, b), c.inp(0, "named", a, b), c.cls(0, "named", a, b, moment="mass"))
                if nmax >= 1:
                    atoms_probe(ctx, "c09.cgmy.model", "Integrals.cgmyXTerms vs _CGMYLevyMeasure.integrate_against_x", f"cgmyx {prm} {w(a)} {w(b)}",
                                eval_cgmy_terms, lambda: nu.integrate_against_x(a, b), c.inp(1, "named", a, b),
                                c.cls(1, "named", a, b, moment="x"))
            if a < 0 < b and nmax >= 2:
                atoms_probe(ctx, "c09.cgmy.model", "Integrals.cgmyXXTerms vs _CGMYLevyMeasure.integrate_against_xx", f"cgmyxx {prm} {w(a)} {w(b)}",
                            eval_cgmy_terms, lambda: nu.integrate_against_xx(a, b), c.inp(2, "named", a, b),
                            c.cls(2, "named", a, b, moment="xx"))


def draw_points(rng, nside):
    def side():
        s = set()
        while len(s) < nside:
            s.add(float(f"{math.exp(rng.uniform(math.log(0.008), math.log(1.3))):.3g}"))
        return sorted(s)
    neg, pos = side(), side()
    return [-INF] + [-x for x in reversed(neg)] + [0.0] + pos + [INF]


def density_probe(c: Case, rng, trunc_measures, nested=()):
    """`nested`: (chain, how, measure) of nested truncations -- the density must vanish outside the intersection of all intervals
    and be the model's density inside (end points of any interval are don't-care points)"""
    ctx, nu, f = c.ctx, c.nu, c.ref.f
    xs = [p for p in c.pts if not math.isinf(p) and p != 0] + [rng.choice([-1, 1]) * math.exp(rng.uniform(-6, 0.5)) for _ in range(6)]
    for x in xs:
        inp = dict(model_desc(c.fam, c.params), x=x)
        with np.errstate(all="ignore"):
            v = float(nu(x))
        ctx.count("c09.density", inp, nontrivial=v > 0)
        r = f(M(x))
        if not abs(M(v) - r) <= mp.mpf("1e-11" if c.fam == "vg" else "1e-12") * abs(r) + mp.mpf("1e-300"):
            ctx.fail("oracle", "c09.density", inp, {"what": "nu(x) differs from the family's density formula", "nu": v, "formula": mp.nstr(r, 17)},
                     cls=dict(family=c.fam))
        for (l, r_), t in trunc_measures:
            if x == l or x == r_:
                continue
            with np.errstate(all="ignore"):
                tv = float(t(x))
            want = v if l < x < r_ else 0.0
            ctx.count("c09.truncated.density", dict(inp, trunc=[l, r_]), nontrivial=True, branch="inside" if l < x < r_ else "outside")
            if tv != want:
                ctx.fail("oracle", "c09.truncated.density", dict(inp, trunc=[l, r_]), {"truncated_nu": tv, "expected": want},
                         cls=dict(family=c.fam, outside=not (l < x < r_)))
        for chain, how, t in nested:
            if any(x in iv for iv in chain):
                continue
            l, r_ = chain_interval(chain)
            with np.errstate(all="ignore"):
                tv = float(t(x))
            want = v if l < x < r_ else 0.0
            ninp = dict(inp, trunc_chain=[list(iv) for iv in chain], how=how)
            ctx.count("c09.truncated.density", ninp, nontrivial=True, branch="nested_inside" if l < x < r_ else "nested_outside")
            if tv != want:
                ctx.fail("oracle", "c09.truncated.density", ninp, {"truncated_nu": tv, "expected": want,
                                                                  "intersection": [l, r_] if l <= r_ else "empty"},
                         cls=dict(family=c.fam, outside=not (l < x < r_), nested=len(chain)))
    # zero itself: no exception (value is a don't-care)
    try:
        nu(0.0)
    except Exception as e:  # noqa
        ctx.fail("oracle", "c09.density", dict(model_desc(c.fam, c.params), x=0.0), {"what": "nu(0) raises", "exception": repr(e)}, cls=dict(family=c.fam))


def own_density_probe(c: Case, rng, k, nmax=NMAX):
    """S with the implementation's own `__call__` as the integrand (ties the closed forms to `nu` directly)"""
    ctx, nu = c.ctx, c.nu
    fin = [p for p in c.pts if not math.isinf(p)]
    pairs = [(a, b) for a, b in zip(fin, fin[1:]) if a != 0 and b != 0]
    for _ in range(k):
        a, b = rng.choice(pairs)
        n = rng.choice([n_ for n_ in (0, 1, 2, 3, 5) if n_ <= nmax])
        route = rng.choice(routes(n))
        st, v = c.impl(route, n, a, b)
        if st != "ok":
            continue
        inner = [e for e in c.ref.extra if a < e < b]
        with mp.workdps(20), np.errstate(all="ignore"):
            r = mp.quad(lambda x: x ** n * mp.mpf(float(nu(float(x)))), [M(a)] + [M(e) for e in inner] + [M(b)])
        inp = c.inp(n, route, a, b)
        ctx.count("c09.own_density", inp, nontrivial=abs(r) > 1e-9)
        tol = tolerance(r, c.ref.scale(n, a, b), is_quad_route(c.fam, n, a, b)) + mp.mpf("1e-9") * abs(r)
        if not abs(M(v) - r) <= tol:
            ctx.fail("oracle", "c09.own_density", inp, {"what": "closed form differs from quadrature of nu.__call__", "implementation": v,
                                                         "quadrature": mp.nstr(r, 15)}, cls=c.cls(n, route, a, b))


def a_gt_b_probe(c: Case, rng, tms):
    """C: `a > b` is an error in M for the truncated wrapper, HEM and the base-class quadrature routes"""
    ctx = c.ctx
    fin = [p for p in c.pts if not math.isinf(p)]
    for _ in range(3):
        b, a = sorted(rng.sample(fin, 2))
        n = rng.randint(0, NMAX)
        targets = [("truncated", t) for _, t in tms]
        if c.fam == "hem" or (c.fam in ("merton", "cgmy") and n >= 3):
            targets.append((c.fam, c.nu))
        for name, nu in targets:
            for route in routes(n):
                st, v = call(nu, route, n, a, b)
                inp = c.inp(n, route, a, b, target=name)
                ctx.count("c09.a_gt_b.model", inp, nontrivial=True, branch=name)
                m = ctx.lean(f"truncint -1 1 {w(a)} {w(b)}")
                if not (m == "err" and st == "raise" and v.startswith("ValueError")):
                    ctx.fail("corr", "c09.a_gt_b.model", inp, {"name": "a > b is an error (Integrals.truncIntegrate / integrate / hemTerms)",
                                                               "implementation": v, "model": m}, cls=dict(family=c.fam, target=name))


def run_model(ctx, fam, params, rng, nside, ntrunc, nmax=NMAX, nnested=None):
    pts = draw_points(rng, nside)
    c = Case(ctx, fam, params, pts)
    nu, P = c.nu, c.P
    k = len(pts)
    pairs = [(pts[i], pts[j]) for i in range(k) for j in range(i, k) if not (i == j and math.isinf(pts[i]))]
    # --- S: closed forms vs reference
    for n in range(nmax + 1):
        for route in routes(n):
            for a, b in pairs:
                closed_form_probe(c, route, n, a, b)
            additivity_sign_probe(c, n, route)
            split_model_probe(c, n, route)
    # --- truncated wrapper
    fin_nz = [p for p in pts if not math.isinf(p) and p != 0]
    tms = []
    for t in range(ntrunc):
        l, r = sorted(rng.sample(fin_nz, 2))
        if t == 0:
            l, r = min(fin_nz), max(fin_nz)
            l, r = rng.choice([p for p in fin_nz if p < 0]), rng.choice([p for p in fin_nz if p > 0])
        tm = TruncatedLevyMeasure(nu, (l, r))
        tms.append(((l, r), tm))
        for a, b in pairs:
            m = ctx.lean(f"trunc {w(l)} {w(r)} {w(a)} {w(b)}").split(" ")
            got = tm._truncated_interval(a, b)
            inp = dict(l=l, r=r, a=a, b=b)
            ctx.count("c09.trunc.model", inp, nontrivial=True, branch="outside" if (b < l or a > r) else "meets")
            if [w(float(got[0])), w(float(got[1]))] != m:
                ctx.fail("corr", "c09.trunc.model", inp, {"name": "Integrals.truncatedIntervalE vs _truncated_interval",
                                                          "implementation": [float(got[0]), float(got[1])], "model": m}, cls=dict(family=fam))
            if max(a, l) <= min(b, r):
                if (float(got[0]), float(got[1])) != (max(a, l), min(b, r)):
                    ctx.fail("oracle", "c09.truncated", c.inp(0, "named", a, b, trunc=[l, r]),
                             {"what": "_truncated_interval is not the intersection", "got": [float(got[0]), float(got[1])]}, cls=dict(family=fam, truncated=True))
            elif float(got[0]) != float(got[1]):
                ctx.fail("oracle", "c09.truncated", c.inp(0, "named", a, b, trunc=[l, r]),
                         {"what": "empty intersection does not give a degenerate interval", "got": [float(got[0]), float(got[1])]}, cls=dict(family=fam, truncated=True))
            for n in (rng.sample(range(nmax + 1), 3) if not ctx.thorough else range(nmax + 1)):
                for route in routes(n):
                    closed_form_probe(c, route, n, a, b, nu=tm, trunc=(l, r))
    # --- truncated measures of truncated measures (2-3 levels; nested narrower / wider, overlapping, touching, disjoint; built
    # with the class, with truncate_levy_measure called repeatedly on one model, or both): the integrals are those over the
    # intersection of ALL intervals with [a, b].  Own generator (seeded by the case): the draws of the other probes stay as they were
    nrng = random.Random(f"c09.nested|{fam}|{sorted(params.items())!r}|{pts!r}")
    nested = []
    ivs = [(l, r) for i, l in enumerate(fin_nz) for r in fin_nz[i + 1:]]
    for t in range(nnested if nnested is not None else (3 if not ctx.thorough else 8)):
        depth = 2 if t % 3 < 2 else 3
        chain = [nrng.choice(ivs) for _ in range(depth)]
        for _ in range(6):                # any relative position of the intervals; three chains in four get a non-degenerate intersection
            l_, r_ = chain_interval(chain)
            if l_ < r_ or t % 4 == 3:
                break
            chain = [nrng.choice(ivs) for _ in range(depth)]
        if t == 0:                        # outer interval wider than / overlapping the inner one: the inner restriction must survive
            chain = sorted(nrng.sample(ivs, 2), key=lambda iv: iv[1] - iv[0])
        how = "".join(nrng.choice("ca") for _ in range(depth)) if t else nrng.choice(["cc", "aa"])
        tmn = nested_measure(c, chain, how)
        nested.append((chain, how, tmn))
        spy = _Spy(nu)
        tsp = nested_measure(c, chain, how, base=spy)
        for a, b in (pairs if (t % 3 != 1 or ctx.thorough) else ()):        # quick: one 2-level and one 3-level chain per model
            # C: the interval that reaches the wrapped model measure = M's truncatedIntervalE applied once per level, outermost first
            m = [w(a), w(b)]
            for l_, r_ in reversed(chain):
                m = ctx.lean(f"trunc {w(l_)} {w(r_)} {m[0]} {m[1]}").split(" ")
            spy.seen = None
            st = call(tsp, "named" if a != b or nrng.random() < 0.5 else "xn", 0, a, b)
            inp = dict(trunc_chain=[list(iv) for iv in chain], how=how, a=a, b=b)
            ctx.count("c09.trunc.model", inp, nontrivial=True, branch="nested")
            if st[0] != "ok" or spy.seen is None or [w(float(spy.seen[0])), w(float(spy.seen[1]))] != m:
                ctx.fail("corr", "c09.trunc.model", inp, {"name": "Integrals.truncatedIntervalE composed per level vs the interval a nested "
                         "TruncatedLevyMeasure passes to the wrapped measure", "implementation": [st[0], repr(spy.seen)], "model": m},
                         cls=dict(family=fam, nested=len(chain)))
            for n in (nrng.sample(range(nmax + 1), min(2, nmax + 1)) if not ctx.thorough else range(nmax + 1)):
                for route in routes(n):
                    closed_form_probe(c, route, n, a, b, nu=tmn, chain=chain, how=how)
    density_probe(c, rng, tms, nested)
    own_density_probe(c, rng, 4 if not ctx.thorough else 10, nmax)
    a_gt_b_probe(c, rng, tms)
    # --- C: closed forms that M has as exponential terms
    if fam == "hem":
        for kx in range(3):
            for a, b in pairs:
                line = f"hem {kx} {w(P.intensity)} {w(P.p)} {w(P.eta1)} {w(P.eta2)} {w(a)} {w(b)}"
                terms_probe(ctx, "c09.hem.model", "Integrals.hemTerms vs _HEMLevyMeasure." + NAMED[kx], line,
                            lambda: getattr(nu, NAMED[kx])(a, b), c.inp(kx, "named", a, b), c.cls(kx, "named", a, b))
    if fam == "vg":
        for n in range(1, nmax + 1):
            for a, b in pairs:
                line = f"vgxn {w(P._c)} {w(P._lambda_p)} {w(P._lambda_m)} {n} {w(a)} {w(b)}"
                terms_probe(ctx, "c09.vgxn.model", "Integrals.vgXnTerms vs _VGLevyMeasure.integrate_against_xn", line,
                            lambda: nu.integrate_against_xn(a, b, n), c.inp(n, "xn", a, b), c.cls(n, "xn", a, b))
    special_terms_probes(c, pairs, nmax)
    return c


def edge_stream(rng, thorough):
    """models on the boundary of the declared parameter constraints (tools/parameter.py: `positive` means >= 0):
    CGMY g = 0, m = 0, g = m = 0 (un-tempered power law on that side) on every branch of y; HEM p = 1 (the constraint on p has
    no upper bound; 1 is the edge of the meaningful range), intensity = 0, sigma = 0; Merton mu_j = 0, intensity = 0, sigma = 0.
    Rejected by the unchanged constructors, hence not generated: VG sigma = 0, HEM eta1 = 1 (ZeroDivisionError)."""
    out = []
    ys = list(zoo.CGMY_Y_BRANCHES)
    rng.shuffle(ys)
    which = ["g", "m", "gm"]
    rng.shuffle(which)
    combos = [(wh, y) for y in ys for wh in which] if thorough else \
        [(which[0], ys[0]), (which[1], ys[1]), (which[2], ys[2]), (rng.choice(which), ys[3]), (rng.choice(which), ys[4])]
    for wh, yb in combos:
        prm = zoo.draw_params(rng, "cgmy", yb)
        if "g" in wh:
            prm["g"] = 0.0
        if "m" in wh:
            prm["m"] = 0.0
        out.append(("cgmy", prm))
    h = zoo.draw_params(rng, "hem")
    out.append(("hem", dict(h, p=1.0, sigma=0.0)))
    out.append(("hem", dict(zoo.draw_params(rng, "hem"), intensity=0.0)))
    mj = zoo.draw_params(rng, "merton")
    out.append(("merton", dict(mj, mu_j=0.0, sigma=0.0)))
    out.append(("merton", dict(zoo.draw_params(rng, "merton"), intensity=0.0)))
    return out


def reinit_stream(rng, per_family):
    """(family, params) for the second construction history: the defaults and draws of every family, params marked with
    zoo.REINIT so that zoo.make_levy rebuilds the model the way calibration does (parameter object edited, `initialisation()`,
    edited back, `initialisation()`, `type(model)(parameters=obj)`); the marker is part of the recorded input, so a replay
    rebuilds the same way"""
    out = []
    for fam in zoo.FAMILIES:
        for i in range(per_family):
            prm = {} if i == 0 else zoo.draw_params(rng, fam)
            out.append((fam, dict(prm, **{zoo.REINIT: True})))
    return out


def reinit_probe(ctx, fam, params, rng):
    """S on a re-initialised model: mass / x / x^2 (both routes) against the reference integral of the family's density (VG: from
    the primary parameters sigma, nu, theta) and against the quadrature of the model's own `nu`; plus: every value equals the
    freshly constructed model's value bit for bit (same float operations in `__init__` and `initialisation()`)"""
    c = run_model(ctx, fam, params, rng, 2, ntrunc=1, nmax=2)
    fresh_params = {k_: v_ for k_, v_ in params.items() if k_ != zoo.REINIT}
    _, nu0 = make_nu(fam, fresh_params)
    for (route, n, a, b), (st, v) in list(c.vals.items()):
        st0, v0 = call(nu0, route, n, a, b)
        inp = c.inp(n, route, a, b)
        ctx.count("c09.reinit", inp, nontrivial=bool(st == "ok" and a < b and v != 0), branch=fam)
        same = (st == st0) and (st != "ok" or v == v0 or (v != v and v0 != v0))
        if not same and c.ref.integral(n, a, b) is not None:
            ctx.fail("oracle", "c09.reinit", inp, {"what": "a model rebuilt through Parameters.initialisation() returns a different integral "
                     "than the freshly constructed model with the same primary parameters: they cannot both equal the integral of "
                     "the family's density", "reinitialised": v, "fresh": v0}, cls=c.cls(n, route, a, b, reinit=True))


def xnexp_reference(n, alpha, a, b, quad=True):
    """integral of x^n exp(-alpha|x|) over [a, b]: n <= 8 -- tanh-sinh quadrature (split at 0 and at a few decay lengths); n > 8 --
    the incomplete gamma function at 50 digits and, when `quad`, also the quadrature (split around the mode n/alpha of the
    integrand too), which must agree to 1e-12 relative (None otherwise: unreliable)"""
    al = M(alpha)
    cuts = sorted({a, b} | ({0.0} if a < 0 < b else set()))
    ks = (1, 4, 15, 40) + (tuple(n * k for k in (0.3, 0.6, 0.85, 1.0, 1.15, 1.4, 2.0, 3.0, 5.0)) if n > 8 else ())
    ref = mp.mpf(0)
    for lo, hi in zip(cuts, cuts[1:]):
        if n > 8:
            with mp.workdps(50):
                sgn, u, t = (1, M(lo), M(hi)) if lo >= 0 else (-1, M(-hi), M(-lo))
                an = sgn ** n * mp.gammainc(n + 1, al * u, al * t) / al ** (n + 1)
        if quad or n <= 8:
            mid = [e for e in (k / alpha * s for k in ks for s in (1, -1)) if lo < e < hi]
            nrm = abs(an) if n > 8 else 1        # quad's error estimate is absolute: normalise the integrand
            v = mp.quad(lambda x: x ** n * mp.exp(-al * abs(x)) / nrm, [M(lo)] + sorted(M(e) for e in mid) + [M(hi)])
            if n > 8 and not abs(v - mp.sign(an)) <= mp.mpf("1e-12"):
                return None
        ref += +an if n > 8 else v
    return ref


def xn_helper_stream(ctx, rng, count, strata=None):
    """tools/integral.py: polynomial (exact vs M), sign logic (terms vs M), value (vs quadrature).  `strata`: the order n is drawn from
    these ranges in turn (high orders; end points at multiples of the mode n/alpha) instead of 0..9 / 0..8"""
    # the polynomial helper is a PRIVATE function: when a refactoring removes or renames it the public integral
    # `integral_xn_exp_minus_x` below is still compared term by term and against quadrature; only this finer tie is unavailable
    helper = getattr(toolint, "_helper_sum_fact_xk", None)
    if helper is None and strata is None:
        ctx.notes.append("private helper rpylib.tools.integral._helper_sum_fact_xk is gone: its tie with Integrals.helperSum is "
                         "unavailable (the public integral_xn_exp_minus_x is still compared)")
    for i in range((count if strata is None else count // 3) if helper is not None else 0):
        n = rng.randint(0, 9) if strata is None else draw_order(rng, strata, i)
        y = rng.choice([0.0, 1.0, -1.0, rng.uniform(-6, 6), rng.uniform(-40, 40), float(rng.randint(-8, 8)) / 4])
        if strata is not None and i % 2:
            y = rng.choice([-1, 1]) * n * rng.uniform(0.2, 2.5)          # around the mode of y^n exp(-|y|)
        inp = dict(n=n, y=y)
        if xn_intermediate_too_big(n, 1.0, y):
            ctx.count("c09.helper.model", inp, nontrivial=False, branch="float_overflow_not_modelled")
            continue
        try:
            with warnings.catch_warnings(), np.errstate(all="ignore"):
                warnings.simplefilter("ignore")
                got = float(helper(n, y))
        except TypeError:            # same name, another signature: not the function the model mirrors
            ctx.notes.append("private helper _helper_sum_fact_xk has another signature: tie unavailable")
            break
        except Exception as e:  # noqa -- M's value is an ordinary number here (the float-overflow class was left out above)
            got = f"{type(e).__name__}: {e}"[:160]
        m = rd(ctx.lean(f"helper {n} {w(y)}"))
        ctx.count("c09.helper.model", inp, nontrivial=n >= 2 and y != 0, branch=None if strata is None else "high_order")
        # a non-finite value or an exception is a broken tie as well (common.fr refuses inf / nan)
        if isinstance(got, str) or not math.isfinite(got) or abs(fr(got) - m) > fr(2.0 ** -40) * abs(m):
            ctx.fail("corr", "c09.helper.model", inp, {"name": "Integrals.helperSum vs _helper_sum_fact_xk", "implementation": got,
                                                       "model": str(m)[:60]}, cls=dict(n=n))
    shapes = ["pos", "neg", "straddle", "pos_inf", "neg_inf", "line", "zero_left", "zero_right", "degenerate"]
    for i in range(count):
        n = rng.randint(0, 8) if strata is None else draw_order(rng, strata, i // len(shapes))
        alpha = float(f"{math.exp(rng.uniform(math.log(0.3), math.log(40))):.3g}")
        # alpha * end point: log-uniform in (0.03, 9) for the low orders; in (0.1 n, 3 n) -- around the mode n -- for the high ones
        spread = (lambda: 3 * math.exp(rng.uniform(math.log(0.01), math.log(3)))) if strata is None else \
            (lambda: n * math.exp(rng.uniform(math.log(0.1), math.log(3))))
        u, v = sorted(float(f"{spread() / alpha:.3g}") for _ in range(2))
        sh = shapes[i % len(shapes)]
        a, b = {"pos": (u, v), "neg": (-v, -u), "straddle": (-u, v), "pos_inf": (u, INF), "neg_inf": (-INF, -u), "line": (-INF, INF),
                "zero_left": (0.0, v), "zero_right": (-v, 0.0), "degenerate": (u, u)}[sh]
        inp = dict(n=n, alpha=alpha, a=a, b=b)
        cls = dict(n=n, shape=sh)
        xnexp_case(ctx, inp, cls, high=strata is not None, quad=i % 8 == 0)
    # alpha <= 0 raises
    for alpha in (0.0, -1.5) if strata is None else ():
        inp = dict(n=1, alpha=alpha, a=0.5, b=1.0)
        terms_probe(ctx, "c09.xnexp.model", "Integrals.xnExpTerms vs integral_xn_exp_minus_x", f"xnexp 1 {w(alpha)} 1/2 1",
                    lambda: toolint.integral_xn_exp_minus_x(n=1, a=0.5, b=1.0, alpha=alpha), inp, dict(n=1, shape="alpha<=0"))


def xnexp_case(ctx, inp, cls, high=False, quad=True):
    """one (n, alpha, a, b) of integral_xn_exp_minus_x: C against M's terms, S against the reference integral"""
    n, alpha, a, b = inp["n"], inp["alpha"], float(inp["a"]), float(inp["b"])
    big = alpha > 0 and any(xn_intermediate_too_big(n, alpha, 0.0 if math.isinf(u) else u) for u in (a, b))
    if high or n > 8:
        cls = dict(cls, high_order=True, order_regime="intermediate_overflow" if big else "float_range")
    if big:      # M computes in exact rationals: it does not mirror a float overflow
        ctx.count("c09.xnexp.model", inp, nontrivial=False, branch="float_overflow_not_modelled")
    else:
        terms_probe(ctx, "c09.xnexp.model", "Integrals.xnExpTerms vs integral_xn_exp_minus_x", f"xnexp {n} {w(alpha)} {w(a)} {w(b)}",
                    lambda: toolint.integral_xn_exp_minus_x(n=n, a=a, b=b, alpha=alpha), inp, cls)
    if not alpha > 0:
        return
    # S: against quadrature of x^n exp(-alpha|x|)
    al = M(alpha)
    ref = xnexp_reference(n, alpha, a, b, quad)
    scale = mp.factorial(n) / al ** (n + 1)
    if ref is None or not (abs(ref) < FLOAT_BIG and 1 / FLOAT_BIG < scale < FLOAT_BIG):
        ctx.count("c09.xnexp", inp, nontrivial=False, branch="skipped_reference_unreliable_or_not_a_float")
        return
    try:
        with warnings.catch_warnings(), np.errstate(all="ignore"):
            warnings.simplefilter("ignore")
            got = float(toolint.integral_xn_exp_minus_x(n=n, a=a, b=b, alpha=alpha))
    except Exception as e:  # noqa
        got = math.nan
    ctx.count("c09.xnexp", inp, nontrivial=a < b, branch=cls.get("shape", "replay") + (":high_order" if high else ""))
    tol = mp.mpf("1e-8") * abs(ref) + mp.mpf("1e-13") * scale + mp.mpf("1e-300")
    if not (math.isfinite(got) and abs(M(got) - ref) <= tol):
        ctx.fail("oracle", "c09.xnexp", inp, {"what": "integral_xn_exp_minus_x differs from the integral of x^n exp(-alpha|x|)",
                                              "implementation": got, "reference": mp.nstr(ref, 17)}, cls=cls)


def special_ode_probe(ctx, rng, count):
    """the hypotheses of the Merton / VG-mass theorems, probed on the functions the implementation calls: scipy's erf and
    exp1 agree with mpmath's to 1e-13 relative, and mpmath's satisfy the ODE (numerical derivative at 40 digits)"""
    import scipy.special as sp
    for _ in range(count):
        x = rng.uniform(-4, 4)
        inp = dict(fn="erf", x=x)
        ctx.count("c09.special_ode", inp, nontrivial=True, branch="erf")
        with mp.workdps(40):
            d = mp.diff(mp.erf, M(x))
            want = 2 / mp.sqrt(mp.pi) * mp.exp(-M(x) ** 2)
            ok = abs(M(float(sp.erf(x))) - mp.erf(M(x))) <= mp.mpf("1e-13") * max(abs(mp.erf(M(x))), mp.mpf("1e-3")) and abs(d - want) <= mp.mpf("1e-20")
        if not ok:
            ctx.fail("corr", "c09.special_ode", inp, {"name": "hypothesis herf of merton_mass/_x/_xx on scipy.special.erf", "scipy": float(sp.erf(x))}, cls={})
        y = math.exp(rng.uniform(math.log(1e-3), math.log(30)))
        inp = dict(fn="exp1", x=y)
        ctx.count("c09.special_ode", inp, nontrivial=True, branch="exp1")
        with mp.workdps(40):
            d = mp.diff(mp.e1, M(y))
            want = -mp.exp(-M(y)) / M(y)
            ok = abs(M(float(sp.exp1(y))) - mp.e1(M(y))) <= mp.mpf("1e-13") * abs(mp.e1(M(y))) and abs(d - want) <= mp.mpf("1e-20") * max(1, abs(want))
        if not ok:
            ctx.fail("corr", "c09.special_ode", inp, {"name": "hypothesis hE1 of vg_mass_pos/_neg on scipy.special.exp1", "scipy": float(sp.exp1(y))}, cls={})


def special_gamma_probe(ctx, rng, count):
    """hypothesis hG of cgmy_mass_* / cgmy_x_*: scipy's gamma(2-a)*gammaincc(2-a, z) is mpmath's upper incomplete gamma,
    whose z-derivative is -z^(1-a) e^{-z}"""
    import scipy.special as sp
    for _ in range(count):
        a = rng.choice([rng.uniform(-0.8, 0.99), rng.uniform(1.01, 1.8), 0.5, -0.5])
        z = math.exp(rng.uniform(math.log(1e-3), math.log(30)))
        inp = dict(fn="gamma(2-a)*gammaincc(2-a,z)", a=a, x=z)
        ctx.count("c09.special_ode", inp, nontrivial=True, branch="gammaincc")
        got = float(sp.gamma(2 - a) * sp.gammaincc(2 - a, z))
        with mp.workdps(40):
            G = lambda t: mp.gammainc(2 - M(a), t)
            ok = abs(M(got) - G(M(z))) <= mp.mpf("1e-12") * abs(G(M(z))) + mp.mpf("1e-300") and \
                abs(mp.diff(G, M(z)) + M(z) ** (1 - M(a)) * mp.exp(-M(z))) <= mp.mpf("1e-20") * max(1, M(z) ** (1 - M(a)))
        if not ok:
            ctx.fail("corr", "c09.special_ode", inp, {"name": "hypothesis hG of cgmy_mass_pos/_neg, cgmy_x_pos/_neg on scipy gamma*gammaincc", "scipy": got}, cls={})


def special_limits_probe(ctx, rng, count):
    """the remaining hypotheses of the *_correct_ext / cgmy_xx_correct theorems on scipy's functions: the limits at infinity
    (erf(+-inf) = +-1, exp1(inf) = 0, gammaincc(s, inf) = 0, gammainc(s, inf) = 1: exact values, and the functions are within
    1e-12 of the limit far out) and the lower incomplete gamma function gamma(s)*gammainc(s, z): value, z-derivative
    z^(s-1) e^{-z}, 0 at z = 0 and continuity there"""
    import scipy.special as sp
    exact = [("erf(inf)", float(sp.erf(INF)), 1.0), ("erf(-inf)", float(sp.erf(-INF)), -1.0), ("exp1(inf)", float(sp.exp1(INF)), 0.0),
             ("erf(40)", float(sp.erf(40.0)), 1.0), ("erf(-40)", float(sp.erf(-40.0)), -1.0)]
    for name, got, want in exact:
        ctx.count("c09.special_ode", dict(fn=name), nontrivial=True, branch="limit")
        if got != want:
            ctx.fail("corr", "c09.special_ode", dict(fn=name), {"name": "limit hypothesis of merton_correct_ext / vg_mass_correct_ext", "scipy": got, "want": want}, cls={})
    for _ in range(count):
        s_ = rng.choice([rng.uniform(0.05, 3.0), 0.5, 1.0, 2.5])
        z = math.exp(rng.uniform(math.log(1e-4), math.log(30)))
        inp = dict(fn="gamma(s)*gammainc(s,z)", s=s_, x=z)
        ctx.count("c09.special_ode", inp, nontrivial=True, branch="gammainc")
        got = float(sp.gamma(s_) * sp.gammainc(s_, z))
        lim = [float(sp.gammaincc(s_, INF)), float(sp.gammainc(s_, INF)), float(sp.gammainc(s_, 0.0)), float(sp.gamma(s_) * sp.gammainc(s_, 1e-300)),
               float(sp.exp1(800.0)), float(sp.gammaincc(s_, 800.0))]
        with mp.workdps(40):
            G = lambda t: mp.gammainc(M(s_), 0, t)
            ok = abs(M(got) - G(M(z))) <= mp.mpf("1e-12") * abs(G(M(z))) + mp.mpf("1e-300") and \
                abs(mp.diff(G, M(z)) - M(z) ** (M(s_) - 1) * mp.exp(-M(z))) <= mp.mpf("1e-20") * max(1, M(z) ** (M(s_) - 1))
        ok = ok and lim[0] == 0.0 and lim[1] == 1.0 and lim[2] == 0.0 and abs(lim[3]) <= 1e-12 and lim[4] <= 1e-300 and lim[5] <= 1e-300
        if not ok:
            ctx.fail("corr", "c09.special_ode", inp, {"name": "hypotheses hgl / hgl0 / hglc of cgmy_xx_correct and the limits of cgmy_*_correct_ext on scipy's "
                                                      "gamma*gammainc / gammaincc / exp1", "scipy": got, "limits": lim}, cls={})


class _Generic(LevyMeasure):
    """a measure that only defines its density: exercises every base-class quadrature fallback (levymodel.py:81-110)"""

    def __init__(self, inner):
        self.inner = inner
        self.parameters = inner.parameters

    def __call__(self, x):
        return self.inner(x)

    def jump_of_finite_activity(self):
        return True

    def jump_of_finite_variation(self):
        return True

    def blumenthal_getoor_index(self):
        return 0.0


def generic_fallback_probe(ctx, rng, fam, params, nside):
    """S: LevyMeasure.integrate / _x / _xx / _xn (pure quadrature of the density) for a finite-activity family"""
    pts = draw_points(rng, nside)
    c = Case(ctx, fam, params, pts)
    g = _Generic(c.nu)
    fin = [p for p in pts if not math.isinf(p)]
    # HEM's density jumps at 0: a bare quad across the jump is not what any family uses (all override n <= 2), so only
    # one-sided intervals there; Merton's density is smooth on R
    pairs = [(a, b) for i, a in enumerate(pts) for b in pts[i + 1:] if fam == "merton" or not a < 0 < b]
    for a, b in rng.sample(pairs, min(len(pairs), 8)) + [(fin[1], fin[1])]:
        for n in range(NMAX + 1):
            for route in routes(n):
                ref = c.ref.integral(n, a, b)
                if ref is None:
                    ctx.branches["c09.generic_fallback:reference_unreliable"] += 1
                    continue
                st, v = call(g, route, n, a, b)
                inp = c.inp(n, route, a, b, generic=True)
                cls = c.cls(n, route, a, b, generic=True, quad_route=True)
                ctx.count("c09.generic_fallback", inp, nontrivial=bool(abs(ref) > 1e-9), branch=f"n={n}")
                tol = tolerance(ref, 0, True, a < 0 < b)
                if st != "ok" or not abs(M(v) - ref) <= tol:
                    ctx.fail("oracle", "c09.generic_fallback", inp, {"implementation": v, "reference": mp.nstr(ref, 17)}, cls=cls)
    b_, a_ = sorted(rng.sample(fin, 2))
    for n in range(NMAX + 1):
        for route in routes(n):
            st, v = call(g, route, n, a_, b_)
            ctx.count("c09.a_gt_b.model", c.inp(n, route, a_, b_, target="base"), branch="base")
            if not (st == "raise" and v.startswith("ValueError")):
                ctx.fail("corr", "c09.a_gt_b.model", c.inp(n, route, a_, b_, target="base"),
                         {"name": "a > b is an error (base class)", "implementation": v}, cls=dict(family=fam, target="base"))


# ------------------------------------------------------------------------------------------------ parameter regimes
REGIME_NMAX = 3
REGIME_KS = (0.5, 1.0, 3.0, 6.0)


def _lu(rng, lo, hi):
    return float(f"{math.exp(rng.uniform(math.log(lo), math.log(hi))):.3g}")


def regime_stream(rng, thorough):
    """(family, params, label): models at the edges of every family's LEGAL box instead of the documented 'typical' boxes of
    zoo.draw_params -- extreme RATIOS between the parameters of one family, one draw per stratum and round:
    Merton mu_j / sigma_j in {0}, (0.05, 1), (1, 10), (10, 50), (50, 120) (the jump mean up to ~100 jump standard deviations away
    from 0; sigma_j from 2e-4 to 3; a negative mu_j is attempted and counted: the constructor rejects it);
    HEM eta1 / eta2 in (1e-2, 1e-1), (0.3, 3), (10, 100) x p near 0 / in the middle / near 1;
    VG theta / sigma in (-30, -3), (-1, 1), (3, 30) x nu tiny / ordinary / large;
    CGMY g / m in (1e-2, 1e-1), (0.3, 3), (10, 100) x c tiny / ordinary / large, y on a random activity branch."""
    out = []
    for _ in range(4 if thorough else 1):
        for lo, hi in ((0, 0), (0.05, 1), (1, 10), (10, 50), (50, 120)):
            if hi <= 1:
                ratio = 0.0 if hi == 0 else _lu(rng, lo, hi)
                sj = _lu(rng, 1e-3, 3.0)
                mu = float(f"{ratio * sj:.3g}")
            else:
                ratio = _lu(rng, lo, hi)
                mu = _lu(rng, 0.02, 3.0)
                sj = float(f"{mu / ratio:.3g}")
            out.append(("merton", dict(sigma=round(rng.uniform(0.0, 0.3), 3), sigma_j=sj, mu_j=mu, intensity=round(rng.uniform(0.5, 8), 2)),
                        f"mu_j/sigma_j in [{lo},{hi}]"))
        out.append(("merton", dict(sigma=0.1, sigma_j=_lu(rng, 1e-3, 0.1), mu_j=-_lu(rng, 0.02, 3.0), intensity=1.0), "mu_j<0"))
        ratios = [(1e-2, 1e-1), (0.3, 3.0), (10.0, 100.0)]
        third = [0, 1, 2]
        rng.shuffle(third)
        for (lo, hi), t in zip(ratios, third):
            ratio, gm = _lu(rng, lo, hi), _lu(rng, 3.0, 60.0)
            eps = _lu(rng, 1e-6, 1e-2)
            p = [eps, round(rng.uniform(0.2, 0.8), 3), 1.0 - eps][t]
            out.append(("hem", dict(sigma=round(rng.uniform(0.0, 0.3), 3), p=p, eta1=float(f"{max(gm * math.sqrt(ratio), 1.2):.3g}"),
                                    eta2=float(f"{gm / math.sqrt(ratio):.3g}"), intensity=round(rng.uniform(0.5, 8), 2)),
                        f"eta1/eta2 in [{lo},{hi}], p {['near 0', 'middle', 'near 1'][t]}"))
        rng.shuffle(third)
        for (lo, hi), t in zip([(-30.0, -3.0), (-1.0, 1.0), (3.0, 30.0)], third):
            ratio = round(rng.uniform(lo, hi), 2) if lo < 0 < hi else math.copysign(_lu(rng, min(abs(lo), abs(hi)), max(abs(lo), abs(hi))), lo)
            sg = _lu(rng, 0.02, 1.0)
            nu_ = [_lu(rng, 1e-3, 1e-2), _lu(rng, 0.03, 0.4), _lu(rng, 1.0, 10.0)][t]
            out.append(("vg", dict(sigma=sg, nu=nu_, theta=float(f"{ratio * sg:.3g}")),
                        f"theta/sigma in [{lo},{hi}], nu {['tiny', 'ordinary', 'large'][t]}"))
        rng.shuffle(third)
        for (lo, hi), t in zip(ratios, third):
            ratio, gm = _lu(rng, lo, hi), _lu(rng, 3.0, 60.0)
            cc = [_lu(rng, 1e-3, 1e-2), _lu(rng, 0.2, 2.0), _lu(rng, 10.0, 100.0)][t]
            prm = zoo.draw_params(rng, "cgmy")
            out.append(("cgmy", dict(c=cc, g=float(f"{gm * math.sqrt(ratio):.3g}"), m=float(f"{gm / math.sqrt(ratio):.3g}"), y=prm["y"]),
                        f"g/m in [{lo},{hi}], c {['tiny', 'ordinary', 'large'][t]}"))
    return out


def feature_points(fam, P):
    """break points placed RELATIVE TO THE FEATURES OF THE DENSITY: Merton -- the jump mean (the mode) and mu_j +- k sigma_j; the
    exponentially tempered families -- k decay lengths on each side (1/eta1, 1/eta2; 1/lambda_p, 1/lambda_m; 1/m, 1/g); k in
    {0.5, 1, 3, 6}; plus 0 and both infinities"""
    if fam == "merton":
        mu, s = float(P.mu_j), float(P.sigma_j)
        pts = {mu} | {mu + sg * k * s for k in REGIME_KS for sg in (1, -1)}
    else:
        pos, neg = scales_of(fam, P)
        pts = {k * float(pos) for k in REGIME_KS} | {-k * float(neg) for k in REGIME_KS}
    return [-INF] + sorted(pts | {0.0}) + [INF]


def analytic_piece(fam, P, n, lo, hi):
    """integral of x^n * density over [lo, hi] (0 not strictly inside) from mpmath's special functions at 50 digits: Gaussian partial
    moments by the recurrence I_k = z_a^(k-1) phi(z_a) - z_b^(k-1) phi(z_b) + (k-1) I_(k-2) (Merton), generalised incomplete gamma
    function (the others).  Independent of the tanh-sinh quadrature it is used to verify."""
    with mp.workdps(50):
        if fam == "merton":
            lam, mu, s = M(P.intensity), M(P.mu_j), M(P.sigma_j)
            za, zb = (M(lo) - mu) / s, (M(hi) - mu) / s
            r2 = mp.sqrt(2)
            bt = lambda z, k: mp.mpf(0) if mp.isinf(z) else z ** k * mp.exp(-z * z / 2) / mp.sqrt(2 * mp.pi)
            if za >= 0:
                i0 = (mp.erfc(za / r2) - mp.erfc(zb / r2)) / 2
            elif zb <= 0:
                i0 = (mp.erfc(-zb / r2) - mp.erfc(-za / r2)) / 2
            else:
                i0 = (mp.erf(zb / r2) - mp.erf(za / r2)) / 2
            I = [i0, bt(za, 0) - bt(zb, 0)]
            for k in range(2, n + 1):
                I.append(bt(za, k - 1) - bt(zb, k - 1) + (k - 1) * I[k - 2])
            return lam * sum(mp.binomial(n, k) * mu ** (n - k) * s ** k * I[k] for k in range(n + 1))
        sgn, u, v = (1, M(lo), M(hi)) if lo >= 0 else (-1, M(-hi), M(-lo))
        if fam == "hem":
            lam, p, e1, e2 = M(P.intensity), M(P.p), M(P.eta1), M(P.eta2)
            rate, k, order = (e1, lam * p * e1, n + 1) if sgn > 0 else (e2, lam * (1 - p) * e2, n + 1)
        elif fam == "vg":
            sg, nu_, th = M(P.sigma), M(P.nu), M(P.theta)
            lp = mp.sqrt(th ** 2 + 2 * sg ** 2 / nu_) / sg ** 2 - th / sg ** 2
            rate, k, order = (lp if sgn > 0 else lp + 2 * th / sg ** 2), 1 / nu_, mp.mpf(n)
        else:
            rate, k, order = (M(P.m) if sgn > 0 else M(P.g)), M(P.c), n - M(P.y)
        return sgn ** n * k * rate ** (-order) * mp.gammainc(order, rate * u, rate * v)


class RegimeCase(Case):
    """a Case whose recorded inputs and classes carry the parameter regime"""
    regime = None

    def cls(self, n, route, a, b, **kw):
        d = super().cls(n, route, a, b, regime=True, **kw)
        if self.fam == "merton":
            # how far the jump mean is from 0 and how wide the interval is, both in jump standard deviations (1e300: infinite)
            d["mean_over_std"] = float(self.P.mu_j) / float(self.P.sigma_j)
            d["width_over_std"] = (b - a) / float(self.P.sigma_j) if math.isfinite(b - a) else 1e300
        return d

    def inp(self, n, route, a, b, **kw):
        return super().inp(n, route, a, b, regime=self.regime, **kw)


def regime_probe(ctx, fam, params, label, rng):
    """S on one model of regime_stream: every pair of feature points x n = 0..3 x both routes against the reference integral
    (closed_form_probe), additivity / signs over the feature points, two truncations at feature points (class and
    truncate_levy_measure), quadrature of the model's own `nu`.  Before anything is judged the reference pieces are themselves
    verified against the analytic value (narrow peaks: a quadrature could miss them); a piece that disagrees is discarded and the
    cases that need it are counted as skipped"""
    desc = dict(model_desc(fam, params), regime=label)
    try:
        _, nu0 = make_nu(fam, params)
    except ValueError as e:
        ctx.count("c09.regime", desc, nontrivial=False, branch="rejected_by_constructor")
        return None
    pts = feature_points(fam, nu0.parameters)
    c = RegimeCase(ctx, fam, params, pts)
    c.regime = label
    ctx.count("c09.regime", desc, nontrivial=True, branch=fam)
    for n in range(REGIME_NMAX + 1):
        for lo, hi in zip(pts, pts[1:]):
            v = c.ref.piece(n, lo, hi)
            if v is None:
                continue
            an = analytic_piece(fam, c.P, n, lo, hi)
            ok = abs(v - an) <= mp.mpf("1e-13") * abs(an) + mp.mpf("1e-25")
            ctx.count("c09.regime.reference", dict(desc, n=n, a=lo, b=hi), nontrivial=abs(an) > 1e-9, branch="agrees" if ok else "DISAGREES")
            if not ok:
                c.ref.cache[(n, lo, hi)] = None
                c.ref.cache[("unreliable", (n, lo, hi))] = True
    k = len(pts)
    pairs = [(pts[i], pts[j]) for i in range(k) for j in range(i + 1, k)]
    pairs += [(p, p) for p in rng.sample([p for p in pts if not math.isinf(p)], 2)]
    for n in range(REGIME_NMAX + 1):
        for route in routes(n):
            for a, b in pairs:
                closed_form_probe(c, route, n, a, b)
            # additivity / signs on a sub-grid (both infinities + 6 of the finite points; thorough: all): O(k^3) triples
            c.pts = pts if ctx.thorough else [-INF] + sorted(rng.sample(pts[1:-1], 6)) + [INF]
            additivity_sign_probe(c, n, route)
            c.pts = pts
    fin_nz = [p for p in pts if not math.isinf(p) and p != 0]
    for how in ("c", "a"):
        l, r = sorted(rng.sample(fin_nz, 2))
        tm = nested_measure(c, [(l, r)], how)
        for a, b in rng.sample(pairs, 16) + [(-INF, INF)]:
            for n in range(REGIME_NMAX + 1):
                for route in routes(n):
                    closed_form_probe(c, route, n, a, b, nu=tm, trunc=(l, r))
    own_density_probe(c, rng, 4, REGIME_NMAX)
    return c


def regime_run(ctx):
    """own generator (seeded by VERIF_SEED): the draws of the other streams stay as they were"""
    rng = random.Random(f"c09.regime|{ctx.seed}")
    for fam, params, label in regime_stream(rng, ctx.thorough):
        regime_probe(ctx, fam, params, label, rng)


# ------------------------------------------------------------------------------------------------ high moment orders
# The statement quantifies over n = 0, 1, 2, 3, ...; the streams above stop at n = 6 (helper ties at 9).  Arithmetic that is exact
# for small orders and wrong for large ones (a fixed-width integer product that wraps, a table that ends, a float that overflows)
# is only visible when the ORDER is drawn up to the largest value the public API accepts and the reference can still judge.
HIGH_STRATA_CLOSED = ((7, 12), (13, 21), (22, 30), (31, 60), (61, 120), (121, 175))     # VG / integral_xn_exp_minus_x (closed forms)
HIGH_STRATA_QUAD = ((7, 12), (13, 21), (22, 40), (41, 60))                               # base-class scipy quadrature (HEM, Merton, CGMY)
HIGH_KS = (0.35, 0.7, 1.0, 1.4, 2.2)
FLOAT_BIG = mp.mpf("1e300")


@lru_cache(maxsize=20000)
def xn_intermediate_too_big(n, alpha, u):
    """True when a float intermediate of the finite-sum form of int x^n exp(-alpha x) (tools/integral.py:11-41: n!,
    H(u) = n! * sum_k (alpha u)^k / k!  >= (alpha u)^n, alpha^(n+1), the tail moment H(u) exp(-alpha u) / alpha^(n+1)) leaves the float range although the integral itself may be an ordinary
    number; `u`: a finite end point (0.0 for an infinite one: only n! and alpha^(n+1) matter).  Threshold 1e300 (floats end at 1.8e308)"""
    if n > 170:
        return True         # float(n!) does not exist
    with mp.workdps(20):
        al, x = mp.mpf(alpha), mp.mpf(alpha) * abs(mp.mpf(u))
        if al ** (n + 1) >= FLOAT_BIG or al ** (n + 1) <= 1 / FLOAT_BIG or mp.factorial(n) / al ** (n + 1) >= FLOAT_BIG:
            return True     # the last one: the half-line moment n!/alpha^(n+1) bounds every helper value H(u) exp(-alpha u) / alpha^(n+1)
        t, tot = mp.mpf(1), mp.mpf(1)
        for k in range(1, n + 1):
            t = t * x / k
            tot += t
        return bool(mp.factorial(n) * tot >= FLOAT_BIG)


def vg_order_regime(P, n, a, b):
    """'float_range' / 'intermediate_overflow' for VG's integrate_against_xn(a, b, n), n >= 1 (order n - 1 of the helper integral on
    each half-line the interval meets)"""
    lp, lm = float(P._lambda_p), float(P._lambda_m)
    if a < 0 < b:
        ends = [(lm, -a), (lm, 0.0), (lp, 0.0), (lp, b)]
    else:       # the half-line of the statement: b <= 0 is the negative one (so [0, 0] is), everything else the positive one
        ends = [(lm, -a), (lm, -b)] if b <= 0 else [(lp, a), (lp, b)]
    big = any(xn_intermediate_too_big(n - 1, al, 0.0 if math.isinf(u) else u) for al, u in ends)
    return "intermediate_overflow" if big else "float_range"


def integrand_modes(fam, P, n):
    """(positive, negative) location of the maximum of |x|^n * density on each half-line: the FEATURES of the integrand of order n
    (the break points of the other streams, <= 1.3, leave a high moment entirely in the tail beyond the last point)"""
    if fam == "merton":
        mu, s = float(P.mu_j), float(P.sigma_j)
        r = math.sqrt(mu * mu + 4 * n * s * s)
        return (mu + r) / 2, (r - mu) / 2
    pos, neg = (float(x) for x in scales_of(fam, P))
    e = {"hem": n, "vg": n - 1, "cgmy": n - 1 - (float(P.y) if fam == "cgmy" else 0.0)}[fam]
    return max(e, 1.0) * pos, max(e, 1.0) * neg


class HighOrderCase(Case):
    """one model at ONE high order n: break points and the reference's interior split points at multiples of the integrand's
    modes; closed-form tolerance without the absolute 1e-12 (see `tolerance`); classes carry the order regime"""
    floor = mp.mpf("1e-300")
    branch_tag = ":high_order"

    def __init__(self, ctx, fam, params, pts, n=None, built=None):
        self.ctx, self.fam, self.params = ctx, fam, params
        self.model, self.nu = built if built is not None else make_nu(fam, params)
        self.P = self.nu.parameters
        self.ref = Ref(fam, self.P, [p for p in pts if not math.isinf(p)])
        if n is not None:
            mpos, mneg = integrand_modes(fam, self.P, n)
            ks = (0.15, 0.3, 0.5, 0.7, 0.85, 1.0, 1.15, 1.3, 1.6, 2.0, 2.6, 3.5, 5.0, 8.0)
            self.ref.extra = sorted(set(self.ref.extra) | {k * mpos for k in ks} | {-k * mneg for k in ks})
        self.pts, self.yb, self.vals = pts, ybranch(fam, self.P), {}

    def cls(self, n, route, a, b, **kw):
        d = super().cls(n, route, a, b, high_order=True, **kw)
        if self.fam == "vg" and n >= 1:
            d["order_regime"] = vg_order_regime(self.P, n, a, b)
        return d

    def inp(self, n, route, a, b, **kw):
        return super().inp(n, route, a, b, high_order=True, **kw)


def draw_order(rng, strata, i):
    lo, hi = strata[i % len(strata)]
    return rng.randint(lo, hi)


def high_order_points(fam, P, n, rng, per_side):
    mpos, mneg = integrand_modes(fam, P, n)
    side = lambda m: sorted({float(f"{k * rng.uniform(0.92, 1.08) * m:.3g}") for k in rng.sample(HIGH_KS, per_side)})
    return [-INF] + [-x for x in reversed(side(mneg))] + [0.0] + side(mpos) + [INF]


def analytic_reference(c: Case, n, probe, rng, nquad=1):
    """reference of the high-order stream: the pieces between adjacent break points from the incomplete gamma function / the Gaussian
    partial-moment recurrence at 50 digits (`analytic_piece`; tanh-sinh quadrature of every piece at every order costs more than the
    rest of the check).  `nquad` randomly chosen pieces are ALSO computed by the tanh-sinh quadrature of x^n * density (split at
    multiples of the integrand's mode) and must agree to 1e-12 RELATIVE; a piece that disagrees, or lies outside the float range, is
    discarded: the cases needing it are counted as skipped"""
    desc = dict(model_desc(c.fam, c.params), high_order=True)
    segs = list(zip(c.pts, c.pts[1:]))
    check = set(rng.sample(segs, min(nquad, len(segs))))
    for lo, hi in segs:
        an = analytic_piece(c.fam, c.P, n, lo, hi)
        ok = 1 / FLOAT_BIG < abs(an) < FLOAT_BIG
        if ok and (lo, hi) in check:
            # the integrand is divided by |an| first: mpmath's quad stops on an ABSOLUTE error estimate, no judge of a piece of 1e-40
            inner = [M(e) for e in c.ref.extra if lo < e < hi]
            q = mp.quad(lambda x: x ** n * c.ref.f(x) / abs(an), [M(lo)] + inner + [M(hi)])
            ok = abs(q - mp.sign(an)) <= mp.mpf("1e-12")
            c.ctx.count(probe, dict(desc, n=n, a=lo, b=hi), nontrivial=bool(ok), branch="quadrature_agrees" if ok else "quadrature_DISAGREES")
            if not ok and _STATS is not None:
                print("DISAGREE", c.fam, c.params, n, lo, hi, q)
        elif not ok:
            c.ctx.count(probe, dict(desc, n=n, a=lo, b=hi), nontrivial=False, branch="not_a_float")
        c.ref.cache[(n, lo, hi)] = +an if ok else None
        if not ok:
            c.ref.cache[("unreliable", (n, lo, hi))] = True


def high_order_probe(ctx, fam, params, n, rng, per_side=3):
    """S (and, for VG, C) on one model at one high order: every pair of break points placed at the integrand's modes, additivity and
    signs, one truncation at break points (class or truncate_levy_measure), VG: the term-by-term tie with M and the split-at-zero
    pattern.  In the regime where a float intermediate of the finite sum overflows M (exact rationals) does not mirror the code: no tie"""
    built = make_nu(fam, params)
    pts = high_order_points(fam, built[1].parameters, n, rng, per_side)
    c = HighOrderCase(ctx, fam, params, pts, n=n, built=built)
    ctx.count("c09.high_order", dict(model_desc(fam, params), n=n), nontrivial=True, branch=f"{fam}:n<={10 * ((n + 9) // 10)}")
    analytic_reference(c, n, "c09.high_order.reference", rng)
    k = len(pts)
    pairs = [(pts[i], pts[j]) for i in range(k) for j in range(i + 1, k)]
    fin = [p for p in pts if not math.isinf(p)]
    pairs.append((rng.choice(fin),) * 2)
    for a, b in pairs:
        closed_form_probe(c, "xn", n, a, b)
    additivity_sign_probe(c, n, "xn")
    fin_nz = [p for p in fin if p != 0]
    l, r = rng.choice([p for p in fin_nz if p < 0]), rng.choice([p for p in fin_nz if p > 0])
    if rng.random() < 0.3:
        l, r = sorted(rng.sample(fin_nz, 2))
    how = rng.choice("ca")
    tm = nested_measure(c, [(l, r)], how)
    for a, b in rng.sample(pairs, 12) + [(-INF, INF)]:
        closed_form_probe(c, "xn", n, a, b, nu=tm, trunc=(l, r))
    if fam == "vg":
        P = c.P
        for a, b in rng.sample(pairs, 10):
            if vg_order_regime(P, n, a, b) != "float_range":
                ctx.count("c09.vgxn.model", c.inp(n, "xn", a, b), nontrivial=False, branch="float_overflow_not_modelled")
                continue
            line = f"vgxn {w(P._c)} {w(P._lambda_p)} {w(P._lambda_m)} {n} {w(a)} {w(b)}"
            terms_probe(ctx, "c09.vgxn.model", "Integrals.vgXnTerms vs _VGLevyMeasure.integrate_against_xn", line,
                        lambda: c.nu.integrate_against_xn(a, b, n), c.inp(n, "xn", a, b), c.cls(n, "xn", a, b))
        if n % 2 and all(vg_order_regime(P, n, a, b) == "float_range" for a, b in pairs):
            split_model_probe(c, n, "xn")
    return c


def high_order_run(ctx):
    """own generator (seeded by VERIF_SEED): the draws of the other streams stay as they were.  Per family the defaults and draws of
    zoo.draw_params (rates of ordinary size: the moments of order n stay inside the float range up to n ~ 170), one order per stratum"""
    rng = random.Random(f"c09.high_order|{ctx.seed}")
    nm = {"vg": ctx.n(3, 8), "hem": ctx.n(2, 5), "merton": ctx.n(2, 5), "cgmy": ctx.n(2, 6)}
    for fam in zoo.FAMILIES:
        strata = HIGH_STRATA_CLOSED if fam == "vg" else HIGH_STRATA_QUAD
        for i in range(nm[fam]):
            params = {} if i == 0 else zoo.draw_params(rng, fam)
            for j in range(len(strata)):
                high_order_probe(ctx, fam, params, draw_order(rng, strata, j), rng)
    xn_helper_stream(ctx, rng, ctx.n(120, 900), strata=HIGH_STRATA_CLOSED)


# past failing inputs (corpus role): base-class quadrature over an interval straddling 0, before fd99be5 off by 4e-8..2e-7
REGRESSIONS = [
    ("cgmy", {}, 3, -0.678, 0.0108),
    ("cgmy", {}, 3, -0.00861, 0.265),
    ("cgmy", {"c": 1.59, "g": 18.4, "m": 9.8, "y": 1.0}, 3, -0.0273, 0.227),
    ("cgmy", {"c": 1.17, "g": 13.9, "m": 10.3, "y": 1.0}, 3, -0.669, 0.018),
    ("cgmy", {"c": 0.45, "g": 11.9, "m": 5.0, "y": 1.36}, 4, -0.276, 0.039),
    ("cgmy", {"c": 1.27, "g": 6.1, "m": 15.5, "y": 0.41}, 3, -0.925, 0.00329),
    ("cgmy", {"c": 1.94, "g": 14.9, "m": 24.5, "y": -0.22}, 3, -0.351, 0.0224),
]


def regression_probe(ctx):
    for fam, params, n, a, b in REGRESSIONS:
        c = Case(ctx, fam, params, [-INF, a, 0.0, b, INF])
        closed_form_probe(c, "xn", n, a, b)
        r = b * 2.0
        closed_form_probe(c, "xn", n, -INF, b, nu=TruncatedLevyMeasure(c.nu, (a, r)), trunc=(a, r))
        additivity_sign_probe(c, n, "xn")


def quad_across_zero_probe(ctx, rng, count):
    """S: the quadrature routes on random asymmetric intervals straddling 0 against a harness-side quadrature of the
    implementation's own density done separately on each side of the singularity"""
    from scipy.integrate import quad
    for i in range(count):
        fam = "cgmy" if i % 4 else rng.choice(["hem", "merton"])
        params = zoo.draw_params(rng, fam) if i % 7 else {}
        if fam == "cgmy" and i % 5 == 1:      # boundary of the declared constraints: un-tempered side(s)
            params = dict(params or zoo.draw_params(rng, fam), **rng.choice([dict(g=0.0), dict(m=0.0), dict(g=0.0, m=0.0)]))
        _, nu = make_nu(fam, params)
        big = float(f"{math.exp(rng.uniform(math.log(0.1), math.log(1.3))):.3g}")
        small = float(f"{math.exp(rng.uniform(math.log(0.003), math.log(0.05))):.3g}")
        a, b = (-big, small) if rng.random() < 0.5 else (-small, big)
        n = rng.choice([3, 3, 4, 5])
        with warnings.catch_warnings(), np.errstate(all="ignore"):
            warnings.simplefilter("ignore")
            f = lambda x: x ** n * nu(x)
            ref = quad(f, a, 0.0)[0] + quad(f, 0.0, b)[0]
        st, v = call(nu, "xn", n, a, b)
        inp = dict(model_desc(fam, params), n=n, route="xn", a=a, b=b)
        ctx.count("c09.quad_across_zero", inp, nontrivial=abs(ref) > 1e-9, branch=fam)
        if st != "ok" or not abs(v - ref) <= float(tolerance(M(ref), 0, True)):
            ctx.fail("oracle", "c09.quad_across_zero", inp, {"what": "x^n integral over an interval straddling 0 differs from the sum of the "
                     "quadratures of x^n*nu(x) on each side", "implementation": v, "two_sided_quadrature": ref},
                     cls=dict(family=fam, n=n, shape="straddle", quad_route=True))


def run(ctx):
    _wrap(ctx)
    rng = ctx.rng
    regression_probe(ctx)
    quad_across_zero_probe(ctx, rng, ctx.n(200, 1500))
    nmodels = ctx.n(11, 70)
    nside = ctx.n(2, 3)
    for fam, params in zoo.model_stream(rng, nmodels):
        run_model(ctx, fam, params, rng, nside, ntrunc=ctx.n(2, 3))
    for fam, params in edge_stream(rng, ctx.thorough):
        run_model(ctx, fam, params, rng, 2, ntrunc=1)
    for fam, params in reinit_stream(rng, ctx.n(2, 6)):
        reinit_probe(ctx, fam, params, rng)
    xn_helper_stream(ctx, rng, ctx.n(90, 900))
    special_ode_probe(ctx, rng, ctx.n(20, 100))
    special_gamma_probe(ctx, rng, ctx.n(20, 100))
    special_limits_probe(ctx, rng, ctx.n(20, 100))
    for fam in ("hem", "merton"):
        for _ in range(ctx.n(1, 6)):
            generic_fallback_probe(ctx, rng, fam, zoo.draw_params(rng, fam), 2)
    regime_run(ctx)
    high_order_run(ctx)
    if _STATS is not None:
        for k_, v_ in sorted(_STATS.items(), key=lambda kv: -kv[1][0])[:40]:
            print("STAT", k_, v_)


def search(ctx):
    """extended oracle-only search when only the tie broke: more models, three break points per side"""
    _wrap(ctx)
    rng = ctx.rng
    for fam, params in zoo.model_stream(rng, 30)[9:]:
        run_model(ctx, fam, params, rng, 3, ntrunc=2)
    xn_helper_stream(ctx, rng, 400)


def replay(ctx, rec):
    """re-run the probe of a replay / corpus record"""
    _wrap(ctx)
    d, probe = rec["input"], rec["probe"]
    if probe.startswith("c09.xnexp") or probe.startswith("c09.helper"):
        rng = ctx.rng
        if "y" in d:
            if not hasattr(toolint, "_helper_sum_fact_xk"):
                return
            try:
                with warnings.catch_warnings(), np.errstate(all="ignore"):
                    warnings.simplefilter("ignore")
                    got = float(toolint._helper_sum_fact_xk(d["n"], d["y"]))
            except Exception as e:  # noqa
                got = f"{type(e).__name__}: {e}"[:160]
            m = rd(ctx.lean(f"helper {d['n']} {w(d['y'])}"))
            ctx.count("c09.helper.model", d)
            if isinstance(got, str) or not math.isfinite(got) or abs(fr(got) - m) > fr(2.0 ** -40) * abs(m):
                ctx.fail("corr", "c09.helper.model", d, {"name": "Integrals.helperSum vs _helper_sum_fact_xk", "implementation": got, "model": str(m)[:60]})
            return
        xnexp_case(ctx, dict(d, a=float(d["a"]), b=float(d["b"])), rec.get("cls", {}))
        return
    if "family" not in d:
        return
    fam, params = d["family"], d["params"]
    if "x" in d:
        c = Case(ctx, fam, params, [-INF, 0.0, INF])
        c.pts = [d["x"]]
        tms = [((d["trunc"][0], d["trunc"][1]), TruncatedLevyMeasure(c.nu, tuple(d["trunc"])))] if "trunc" in d else []
        chain = [tuple(float(t) for t in iv) for iv in d.get("trunc_chain", [])]
        density_probe(c, ctx.rng, tms, [(chain, d["how"], nested_measure(c, chain, d["how"]))] if chain else ())
        return
    a, b, n, route = float(d["a"]), float(d["b"]), d["n"], d.get("route", "xn")
    pts = sorted({-INF, INF, 0.0, a, b} | ({float(d["split"])} if "split" in d else set()) | ({float(t) for t in d["trunc"]} if "trunc" in d else set())
                 | {float(t) for iv in d.get("trunc_chain", []) for t in iv})
    c = RegimeCase(ctx, fam, params, pts) if "regime" in d else HighOrderCase(ctx, fam, params, pts, n=n) if d.get("high_order") \
        else Case(ctx, fam, params, pts)
    c.regime = d.get("regime")
    if d.get("high_order"):
        analytic_reference(c, n, "c09.high_order.reference", ctx.rng, nquad=0)
    if d.get("generic"):
        g = _Generic(c.nu)
        ref = c.ref.integral(n, a, b)
        st, v = call(g, route, n, a, b)
        ctx.count("c09.generic_fallback", d)
        if st != "ok" or not abs(M(v) - ref) <= tolerance(ref, 0, True, a < 0 < b):
            ctx.fail("oracle", "c09.generic_fallback", d, {"implementation": v, "reference": mp.nstr(ref, 17)}, cls=rec.get("cls", {}))
        return
    if a > b:
        a_gt_b_probe(c, ctx.rng, [])
        return
    if probe == "c09.reinit":
        _, nu0 = make_nu(fam, {k_: v_ for k_, v_ in params.items() if k_ != zoo.REINIT})
        (st, v), (st0, v0) = c.impl(route, n, a, b), call(nu0, route, n, a, b)
        ctx.count("c09.reinit", d)
        if not ((st == st0) and (st != "ok" or v == v0 or (v != v and v0 != v0))):
            ctx.fail("oracle", "c09.reinit", d, {"reinitialised": v, "fresh": v0}, cls=c.cls(n, route, a, b, reinit=True))
    if "trunc_chain" in d:
        chain = [tuple(float(t) for t in iv) for iv in d["trunc_chain"]]
        closed_form_probe(c, route, n, a, b, nu=nested_measure(c, chain, d["how"]), chain=chain, how=d["how"])
    elif "trunc" in d:
        l, r = d["trunc"]
        closed_form_probe(c, route, n, a, b, nu=TruncatedLevyMeasure(c.nu, (l, r)), trunc=(l, r))
    else:
        closed_form_probe(c, route, n, a, b)
    additivity_sign_probe(c, n, route)
    if probe == "c09.own_density":
        own_density_probe(c, ctx.rng, 6)
    if fam == "hem" and n <= 2 and probe == "c09.hem.model":
        P = c.P
        terms_probe(ctx, "c09.hem.model", "Integrals.hemTerms", f"hem {n} {w(P.intensity)} {w(P.p)} {w(P.eta1)} {w(P.eta2)} {w(a)} {w(b)}",
                    lambda: getattr(c.nu, NAMED[n])(a, b), d, rec.get("cls", {}))
    if fam == "vg" and n >= 1 and probe == "c09.vgxn.model":
        P = c.P
        terms_probe(ctx, "c09.vgxn.model", "Integrals.vgXnTerms", f"vgxn {w(P._c)} {w(P._lambda_p)} {w(P._lambda_m)} {n} {w(a)} {w(b)}",
                    lambda: c.nu.integrate_against_xn(a, b, n), d, rec.get("cls", {}))
    if probe == "c09.split.model":
        split_model_probe(c, n, route)
    if probe in ("c09.merton.model", "c09.vgmass.model", "c09.cgmy.model"):
        special_terms_probes(c, [(a, b)], 2)
