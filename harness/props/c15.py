"""C15 — Simulated paths are running sums on the product dates within the time-step cap (DESIGN.md §4 C15)."""
from __future__ import annotations

import math
import warnings
import numpy as np

from .. import zoo
from ..common import w, wl, wll, rd, rdl, rdll, close, fr

from rpylib.distribution.sampling import SamplingMethod
from rpylib.grid.spatial import CTMCUniformGrid
from rpylib.process.coupling.couplingmarkovchain import CouplingMarkovChain
from rpylib.process.coupling.couplinglevycopula import CouplingProcessLevyCopula
from rpylib.process.coupling.helper import create_build_finer_grid_fun
from rpylib.process.levyprocess import LevyProcess, SimulationMaximumStep
from rpylib.process.markovchain.markovchain import MarkovChainProcess
from rpylib.process.markovchain.markovchainlevycopula import MarkovChainLevyCopula
from rpylib.product.payoff import PayoffDates, PayoffOnTheFly
from rpylib.product.product import Product
from rpylib.product.underlying import Asian, Discretisation

RULE = ("finer: the two build_finer_grid closures (levyprocess.py, coupling/helper.py) on random dyadic arrays: 1..7 jump times on a "
        "1/64 mesh of [0, T], values with 1 or 2..3 rows, epsilon dyadic (gaps equal to epsilon and to multiples of it included), "
        "epsilon >= T included. sim: real LevyProcess (HEM/Merton), MarkovChainProcess, CouplingMarkovChain (level 1, fixed 9-point "
        "grid, h dyadic), MarkovChainLevyCopula (d = 2, 3; one date) and CouplingProcessLevyCopula (d = 2 independent / Clayton, d = 3 "
        "independent; level 1, one directed case at level 2; 1..6 dates) objects in the three simulation modes (fixed dates / jump times / "
        "maximum step) for 1..6 product dates (stub product returning arbitrary dyadic dates; one case per run on a real Asian product), "
        "with the Poisson counts, uniforms, normals, jump sizes / state increments prescribed from the harness (numpy.random wrapped, bound "
        "methods replaced) and the coarse increments captured from the real coupling_state / __coupling_state (scripted coupling uniforms). "
        "Directed edge cases for every simulator: a product date at 2^-20, epsilon = 2^-8 (hundreds of inserted points), epsilon = 1024 T, "
        "six dates without any jump, last jump exactly epsilon / half epsilon before the maturity; two equal consecutive dates (outside the "
        "quantifier: recorded whether rejected, model compared). Every simulated row is classified by the domain predicate of its "
        "equivalence theorem (in / out of domain, both well populated) and the implementation is checked against both sides. "
        "history: operation histories on ONE live object of each of the five simulators (direct, CTMC, coupled, copula with one date, "
        "coupled copula): `initialisation(product, eps)` once, then 2..4 batches `pre_computation(n, product')` (n = 1..3, one or no path "
        "simulated) with DIFFERENT stub products - maximum step: maturities below / equal / above epsilon in every order (directed: all 9 "
        "ordered pairs, with and without a path in between, one and two dates; three batches long / short / longer), fixed dates / jump "
        "times: longer, shorter, same maturity with more / fewer dates, the other payoff-dates type where the mode ignores it - and "
        "re-initialisations in every ordered pair of modes / with another epsilon (coupled objects: at their level). Every returned path is "
        "judged by the oracles and the model comparison of `sim` for the product and the prescribed variates of ITS batch and compared with "
        "the path of a freshly constructed object (run_sim) for the same product and variates. Legal sequences were established on the "
        "unchanged tree: every such history returns exactly the fresh object's path. "
        "non-trivial = at least one jump (sim) / one inserted point or >= 2 jump times (finer) / >= 2 steps, one judged path and one jump "
        "(history); distinct = distinct full script")
NOT_PROVED = ["np.sort of the uniform offsets and np.insert / np.cumsum / np.diff kernels are trusted (the model takes sorted offsets)",
              "the scaling sqrt(dt)*sigma (sqrt(dt) * D @ Z for the copula simulators) of the Brownian increments is an input of the model "
              "(compared at 2^-40); only the running-sum assembly is proved",
              "histories: `copy.deepcopy` of a process between batches (the multilevel engine copies the coupling process per level) and "
              "`cp.simulate_one_path()` of the coupled objects (the bare fine process, same classes as the CTMC / copula simulators) are not scripted",
              "the coarse state increments of the coupled simulators are inputs (their law is C03's subject); the non-coupled Levy-copula "
              "CTMC simulator is exercised for one product date only (it raises for more, recorded)",
              "the full-strength running sums / step cap are FALSE of the code (negation theorems running_sums_counterexample, "
              "running_sums_jump_times_ctmc_counterexample, last_gap_uncapped); what is proved instead is the exact domain on which the "
              "code as modelled satisfies them: fixedDates_code_eq_spec_iff (every interval but the last has zero jump sum), "
              "jumpValsCtmc_eq_direct_iff / jumpTimesCtmc_eq_direct_iff (zero carried total before every interval that jumps), "
              "maxStepCode_steps_le_eps_iff / maxStepCode_eq_spec_iff / coupled_steps_le_eps_iff / copula_steps_le_eps_iff (T - last jump <= epsilon); the d-dimensional "
              "coupled copula output is tied to these 1-d statements row by row (copula_fixed_coordinate, copula_jump_times_is_ctmc, "
              "copula_maxstep_is_single, copula_rows_iff, copula_jump_times_rows_iff)"]
ASSUMPTIONS = ["product dates strictly increasing from 0; uniforms distinct and strictly inside (0,1); epsilon > 0",
               "histories: the simulation mode and epsilon are those of the last `initialisation` (both engines initialise once per product and "
               "call `pre_computation` per batch); a path is simulated only after a `pre_computation` of at least that many paths; that a live "
               "object returns the SAME path as a fresh one is reported as a broken tie (c15.history.fresh), the property itself is judged by "
               "the oracles on the live object's path",
               "inputs are dyadic so that every float operation on times and jump values is exact (diffusion values compared at 2^-40)"]
TRUSTED = ["replacement of numpy.random.normal/random_sample/uniform, of CouplingProcessLevyCopula._uniform and of the bound methods nb_jump_dt / "
           "jump_increment / _sampling / sampling.sample / coupling_state / __coupling_state from the harness"]


# --------------------------------------------------------------------------------------------- the closures
def finer_oracle(eps, T, jt, rows, out_t, out_rows):
    """the property on one returned (times, values): None or a description of what fails"""
    jt = [float(x) for x in jt]
    out_t = [float(x) for x in out_t]
    if any(len(r) != len(out_t) for r in out_rows):
        return "values and times have different lengths"
    if not all(a < b for a, b in zip(out_t, out_t[1:])):
        return "returned times not strictly increasing"
    if eps < T:
        steps = [b - a for a, b in zip([0.0] + out_t, out_t)]
        if any(s > eps for s in steps):
            return f"a step exceeds epsilon: max {max(steps)}"
    # original points kept, in order
    pos, j = [], 0
    for i, t in enumerate(jt):
        while j < len(out_t) and out_t[j] != t:
            j += 1
        if j == len(out_t):
            return f"original jump time {t} lost"
        pos.append(j)
        j += 1
    for r, orow in zip(rows, out_rows):
        if any(orow[p] != r[i] for i, p in enumerate(pos)):
            return "an original value changed"
        kept = set(pos)
        for k in range(len(out_t)):
            if k not in kept and orow[k] != (0.0 if k == 0 else orow[k - 1]):
                return f"inserted point {k} does not repeat the preceding value"
    return None


def probe_finer(ctx, desc):
    eps, T, jt = desc["eps"], desc["T"], desc["jt"]
    rows, crow = desc["rows"], desc.get("coarse")
    which = "coupled" if crow is not None else "direct"
    probe = "c15.finer." + which
    cls = dict(which=which, twod=len(rows) > 1, identity=eps >= T)
    jta = np.array(jt, float)
    va = np.array(rows, float) if len(rows) > 1 else np.array(rows[0], float)
    if which == "direct":
        f = SimulationMaximumStep.create_build_finer_grid_fun(epsilon=eps, maturity=T)
        t2, v2 = f(None, jta.copy(), va.copy())
        outs = [(rows, np.atleast_2d(v2).tolist())]
    else:
        ca = np.array(crow, float) if len(crow) > 1 else np.array(crow[0], float)
        g = create_build_finer_grid_fun(epsilon=eps, maturity=T)
        t2, v2, c2 = g(None, jta.copy(), va.copy(), ca.copy())
        outs = [(rows, np.atleast_2d(v2).tolist()), (crow, np.atleast_2d(c2).tolist())]
    t2 = [float(x) for x in t2]
    ninserted = len(t2) - len(jt)
    ctx.count(probe, desc, nontrivial=ninserted > 0 or len(jt) >= 2, branch=("identity" if eps >= T else "inserted" if ninserted else "nothing_to_insert"))
    for orig, got in outs:
        bad = finer_oracle(eps, T, jt, orig, t2, got)
        if bad:
            ctx.fail("oracle", probe + ".property", desc, {"what": bad, "times": t2, "values": got}, cls=cls)
            return
    # ---- C: against M, row by row (the positions depend on the gaps only), exact
    for orig, got in outs:
        for r, gr in zip(orig, got):
            ans = ctx.lean(f"finer {w(eps)} {w(T)} {wl(jt)} {wl(r)}").split(" ")
            if len(ans) != 2 or rdl(ans[0]) != [fr(x) for x in t2] or rdl(ans[1]) != [fr(x) for x in gr]:
                ctx.fail("corr", probe + ".model", desc, {"name": "Drivers/C15 finer vs build_finer_grid", "impl_times": t2, "impl_values": gr, "model": ans}, cls=cls)
                return
    if which == "coupled" and len(rows) == 1:
        ans = ctx.lean(f"finer2 {w(eps)} {w(T)} {wl(jt)} {wl(rows[0])} {wl(crow[0])}").split(" ")
        if len(ans) != 3 or rdl(ans[0]) != [fr(x) for x in t2] or rdl(ans[1]) != [fr(x) for x in outs[0][1][0]] or rdl(ans[2]) != [fr(x) for x in outs[1][1][0]]:
            ctx.fail("corr", probe + ".model", desc, {"name": "Drivers/C15 finer2 vs coupling/helper build_finer_grid", "impl_times": t2, "model": ans}, cls=cls)
            return
    if eps < T:
        rem = ctx.lean(f"remaining {w(eps)} {wl(jt)}")
        if rem != str(ninserted):
            ctx.fail("corr", probe + ".model", desc, {"name": "Drivers/C15 remaining (measure) vs number of inserted points", "impl": ninserted, "model": rem}, cls=cls)


def gen_finer(rng, which):
    T = rng.choice([0.5, 1.0, 2.0])
    eps = rng.choice([1 / 64, 1 / 32, 1 / 16, 3 / 32, 1 / 8, 5 / 32, 3 / 16, 1 / 4, 3 / 8, 1 / 2, 1.0, 2.0])
    n = rng.randint(1, 7)
    mesh = int(64 * T)
    jt = sorted(rng.sample(range(1, mesh + 1), min(n, mesh)))
    if rng.random() < 0.3:      # gaps that are exact multiples of epsilon
        k = max(1, int(eps * 64))
        jt = sorted({min(mesh, k * rng.randint(1, max(1, mesh // k))) for _ in range(n)})
    jt = [c / 64 for c in jt]
    d = 1 if rng.random() < 0.7 else rng.choice([2, 3])
    mk = lambda: [[rng.randint(-16, 16) / 8 for _ in jt] for _ in range(d)]
    desc = dict(eps=eps, T=T, jt=jt, rows=mk())
    if which == "coupled":
        desc["coarse"] = mk()
    return desc


# --------------------------------------------------------------------------------------------- scripted simulators
class StubPayoff:
    def __init__(self, kind):
        self.payoff_dates_type = kind


class StubProduct:
    """what the simulators read of a product: maturity, payoff.payoff_dates_type, times_grid()"""

    def __init__(self, dates, stochastic):
        self.dates = np.array(dates, float)
        self.maturity = float(dates[-1])
        self.payoff = StubPayoff(PayoffDates.STOCHASTIC if stochastic else PayoffDates.DETERMINISTIC)

    def times_grid(self):
        return self.dates


def zval(seed, k):
    """k-th prescribed normal (dyadic)"""
    return (((seed + 1) * (k + 1) * 2654435761) % 33 - 16) / 8


class Script:
    """prescribed variates: wraps numpy.random while a simulator runs and logs what was consumed"""

    def __init__(self, desc):
        self.d = desc
        self.nz = 0
        self.normals = []
        self.uni_calls = []          # offsets per random_sample call
        self.k_interval = 0
        self.cu = 0

    def __enter__(self):
        self.saved = {n: getattr(np.random, n) for n in ("normal", "random_sample", "uniform")}
        np.random.normal = self.normal
        np.random.random_sample = self.random_sample
        np.random.uniform = self.uniform
        return self

    def __exit__(self, *a):
        for n, f in self.saved.items():
            setattr(np.random, n, f)

    def normal(self, loc=0.0, scale=1.0, size=None):
        n = int(np.prod(size)) if size is not None else 1
        vals = [zval(self.d["zseed"], self.nz + i) for i in range(n)]
        self.nz += n
        self.normals += vals
        return np.array(vals, float).reshape(size) if size is not None else vals[0]

    def random_sample(self, size=None):
        us = self.d["uniforms"][self.k_interval]
        self.k_interval += 1
        assert len(us) == (size or 0), "script out of step with the number of jumps"
        self.uni_calls.append(list(us))
        return np.array(us, float)

    def uniform(self, low=0.0, high=1.0, size=None):
        n = size or 1
        vals = [self.d["cu"][(self.cu + i) % len(self.d["cu"])] for i in range(n)]
        self.cu += n
        return np.array(vals, float)


class CyclicUniform:
    """stands for CouplingProcessLevyCopula._uniform: the scripted coupling uniforms, cyclically"""

    def __init__(self, values):
        self.values, self.k = list(values), 0

    def sample(self, size=1):
        v = self.values[self.k % len(self.values)]
        self.k += 1
        return v

    def reset_sampling_cost(self):
        pass


def make_grid(desc):
    return CTMCUniformGrid.create_from_fixed_nb_of_points(h=desc["h"], nb_of_points=9, dimension=1)


def run_sim(desc):
    """builds the simulator, drives it with the script; returns dict(times, diff, jumps, sizes (per interval, fine/coarse), sig)"""
    sim, mode, dates = desc["sim"], desc["mode"], desc["dates"]
    if sim in ("copula", "ccopula"):
        model = zoo.make_copula_model([zoo.make_levy(desc["family"], desc["params"]) for _ in range(desc.get("dim", 2))],
                                      zoo.make_copula(desc.get("copula", "independent")))
    else:
        model = zoo.make_levy(desc["family"], desc["params"])
    if desc.get("asian"):
        prod = Product(payoff_underlying=Asian(Discretisation.MONTHLY), payoff=PayoffOnTheFly(lambda x: x), maturity=dates[-1])
        if mode != "fixed":
            prod.payoff.payoff_dates_type = PayoffDates.STOCHASTIC
    else:
        prod = StubProduct(dates, stochastic=(mode != "fixed"))
    dates_used = [float(x) for x in (prod.times_grid().grid if desc.get("asian") else dates)]
    eps = desc["eps"] if mode == "maxstep" else None
    warm = desc.get("warm")            # an earlier path simulated on the SAME simulator object (its own script), see gen_sim
    npaths = 2 if warm else 1
    if warm and mode == "fixed":
        # fixed dates: the Poisson counts of all paths are drawn interval by interval in pre_computation (levyprocess.py:168-176)
        counts = iter([c for pair in zip(warm["counts"], desc["counts"]) for c in pair])
    elif warm:
        counts = iter(list(warm["counts"]) + list(desc["counts"]))
    else:
        counts = iter(desc["counts"])
    flat = iter(([x for iv in warm["incs"] for x in iv] if warm else []) + [x for iv in desc["incs"] for x in iv])
    coarse_log = []

    def two_paths(sc, simulate, counts_holder=None):
        """simulate the warm-up path (if any) and then the scripted path on the same object; returns the scripted path"""
        if not warm:
            return simulate()
        sc.d = dict(desc, uniforms=warm["uniforms"])
        simulate()
        sc.d = desc
        if mode != "fixed":                  # variates are drawn on the fly: forget what the warm-up path consumed
            sc.nz, sc.normals = 0, []
        sc.k_interval, sc.uni_calls, sc.cu = 0, [], 0
        coarse_log.clear()
        return simulate()

    with Script(desc) as sc:
        if sim == "direct":
            p = LevyProcess(model)
            p.nb_jump_dt = lambda dt: next(counts)
            p.model.jump_increment = lambda n: np.array([next(flat) for _ in range(n)], float)
            p.initialisation(prod, max_step_epsilon=eps)
            p.pre_computation(npaths, prod)
            path = two_paths(sc, p.simulate_one_path)
            sig = [float(model.diffusion_coefficient())]
        elif sim == "copula":
            g = CTMCUniformGrid.create_from_fixed_nb_of_points(h=desc["h"], nb_of_points=5, dimension=desc.get("dim", 2))
            p = MarkovChainLevyCopula(levy_copula_model=model, grid=g, method=SamplingMethod.INVERSION)
            p.nb_jump_dt = lambda dt: next(counts)
            p.sampling.sample = lambda size: [tuple(int(v) for v in next(flat)) for _ in range(size)]
            p.initialisation(prod, max_step_epsilon=eps)
            p.pre_computation(npaths, prod)
            path = two_paths(sc, p.simulate_one_path)
            sig = np.asarray(p._path_simulation.diffusion_matrix, float).real.tolist()
        elif sim == "ctmc":
            g = make_grid(desc)
            p = MarkovChainProcess(model=model, method=SamplingMethod.INVERSION, grid=g)
            p.nb_jump_dt = lambda dt: next(counts)
            p.initialisation(prod, max_step_epsilon=eps)
            p._path_simulation._sampling = lambda size: [int(next(flat)) for _ in range(size)]
            p.pre_computation(npaths, prod)
            path = two_paths(sc, p.simulate_one_path)
            sig = [float(p.equivalent_diffusion_coefficient)]
        elif sim == "ccopula":
            # the coupled Levy-copula simulator (couplinglevycopula.py): fine increments scripted, the coarse increment of every
            # jump is what the real __coupling_state returns (scripted coupling uniforms), logged at the top-level call
            g = CTMCUniformGrid.create_from_fixed_nb_of_points(h=desc["h"], nb_of_points=5, dimension=desc.get("dim", 2))
            cp = CouplingProcessLevyCopula(levy_copula_model=model, grid=g, method=SamplingMethod.INVERSION)
            cp.initialisation(prod, max_step_epsilon=eps)
            cp.pre_computation(1, prod)
            for _ in range(desc.get("level", 1)):
                cp.next_level(1, None, prod, max_step_epsilon=eps)
            sc.nz, sc.normals, sc.k_interval, sc.uni_calls, sc.cu = 0, [], 0, [], 0
            g = cp.grid
            p = cp.fine_process
            p.nb_jump_dt = lambda dt: next(counts)
            p.sampling.sample = lambda size: [tuple(int(v) for v in next(flat)) for _ in range(size)]
            cp._uniform = CyclicUniform(desc["cu"])
            csim = cp._path_coupling_simulation
            mangled = "_CouplingLevyCopulaSimulation__coupling_state"
            orig_cs = getattr(csim, mangled)
            depth = [0]

            def logged_nd(increment, axis_coordinates=None):
                depth[0] += 1
                try:
                    v = orig_cs(increment, axis_coordinates)
                finally:
                    depth[0] -= 1
                if depth[0] == 0:
                    coarse_log.append([float(x) for x in np.asarray(v, float).reshape(-1)])
                return v
            setattr(csim, mangled, logged_nd)
            cp.pre_computation(npaths, prod)
            path = two_paths(sc, cp.simulate_one_path_with_coupling)
            sig = [np.asarray(cp._diffusion_matrix_h, float).real.tolist(), np.asarray(cp._diffusion_matrix_2h, float).real.tolist()]
        else:
            g = make_grid(desc)
            cp = CouplingMarkovChain(model=model, method=SamplingMethod.INVERSION, grid=g)
            cp.initialisation(prod, max_step_epsilon=eps)
            cp.pre_computation(1, prod)
            cp.next_level(1, None, prod, max_step_epsilon=eps)
            sc.nz, sc.normals, sc.k_interval, sc.uni_calls, sc.cu = 0, [], 0, [], 0      # what next_level drew is not part of the path
            p = cp.fine_process
            p.nb_jump_dt = lambda dt: next(counts)
            p._path_simulation._sampling = lambda size: [int(next(flat)) for _ in range(size)]
            csim = cp._path_coupling_simulation
            orig_cs = csim.coupling_state

            def logged(increment):
                v = orig_cs(increment)
                coarse_log.append(float(np.asarray(v).reshape(-1)[0]))
                return v
            csim.coupling_state = logged
            _real = p.nb_jump_dt
            cp.pre_computation(npaths, prod)
            path = two_paths(sc, cp.simulate_one_path_with_coupling)
            sig = [float(cp.equivalent_diffusion_coefficient_fine), float(cp.equivalent_diffusion_coefficient_coarse)]
        normals = list(sc.normals)
        if warm and mode == "fixed":          # both paths' normals were drawn path by path in pre_computation: keep the second half
            normals = normals[len(normals) // 2:]
    return make_out(desc, path, sig, normals, dates_used, g if sim != "direct" else None, coarse_log)


def make_out(desc, path, sig, normals, dates_used, g, coarse_log):
    """what the probes read of one simulated path: times, component rows, the jump sizes actually used per product interval"""
    sim = desc["sim"]
    times = np.asarray(path.jump_times if not hasattr(path.jump_times, "grid") else path.jump_times.grid, float)
    out = dict(times=[float(x) for x in np.asarray(times).reshape(-1)], sig=sig, normals=normals, dates=dates_used)
    def rows2d(a):
        a = np.asarray(a, float)
        return (a.reshape(-1, a.shape[-1]) if a.ndim == 3 else np.atleast_2d(a)).tolist()      # (2, d, n) -> 2d rows: fine 0..d-1, coarse 0..d-1
    out["diff"] = rows2d(path.diffusion_path)
    out["jumps"] = rows2d(path.jump_path)
    out["shape"] = list(np.asarray(path.jump_path).shape)
    # jump sizes actually used, per product interval
    if sim == "direct":
        out["sizes"] = [[[float(x) for x in iv] for iv in desc["incs"]]]
    elif sim in ("copula", "ccopula"):
        dim = desc.get("dim", 2)
        o = g.origin_coordinate
        vals = [[[float(v) for v in g[o + tuple(int(x) for x in i)]] for i in iv] for iv in desc["incs"]]
        out["sizes"] = [[[v[c] for v in iv] for iv in vals] for c in range(dim)]
        if sim == "ccopula":
            it = iter(coarse_log)
            cvals = [[next(it) for _ in iv] for iv in desc["incs"]]
            out["sizes"] += [[[v[c] for v in iv] for iv in cvals] for c in range(dim)]
    else:
        grid = g
        o = grid.origin_coordinate
        fine = [[float(grid[o + int(i)]) for i in iv] for iv in desc["incs"]]
        if sim == "ctmc":
            out["sizes"] = [fine]
        else:
            it = iter(coarse_log)
            out["sizes"] = [fine, [[next(it) for _ in iv] for iv in desc["incs"]]]
    return out


# --------------------------------------------------------------------------------------------- one live object, many operations
STATIC_KEYS = ("sim", "family", "params", "h", "dim", "copula", "level")


class Live:
    """ONE simulator object (the same five kinds as run_sim) driven through a history of `initialisation` / `pre_computation` /
    simulate operations with different products.  Every step carries its own product (dates, payoff-dates type) and its own
    prescribed variates; what a step returns must be the path of ITS product from ITS variates, whatever happened before on the
    object.  Legal sequences (verified on the unchanged tree, see probe_history): `initialisation(product, eps)` chooses the
    simulation mode and epsilon; any number of `pre_computation(n, product')` with other products may follow without a new
    initialisation (both engines do so per batch) - the unchanged code re-reads times, maturity, sqrt(dt), the pre-drawn deques and
    the refinement closure from product' each time; any number of paths <= n may be simulated after each of them."""

    def __init__(self, static, sc):
        self.s, self.sc = static, sc
        self.counts, self.flat, self.coarse_log = iter(()), iter(()), []
        self.started = False
        sim = static["sim"]
        dim = static.get("dim", 2)
        if sim in ("copula", "ccopula"):
            model = zoo.make_copula_model([zoo.make_levy(static["family"], static["params"]) for _ in range(dim)],
                                          zoo.make_copula(static.get("copula", "independent")))
        else:
            model = zoo.make_levy(static["family"], static["params"])
        self.model = model
        nb = lambda dt: next(self.counts)
        tuples = lambda size: [tuple(int(v) for v in next(self.flat)) for _ in range(size)]
        self.p = self.cp = None
        if sim == "direct":
            self.p = LevyProcess(model)
            self.p.nb_jump_dt = nb
            self.p.model.jump_increment = lambda n: np.array([next(self.flat) for _ in range(n)], float)
            self.g = None
        elif sim == "copula":
            self.g = CTMCUniformGrid.create_from_fixed_nb_of_points(h=static["h"], nb_of_points=5, dimension=dim)
            self.p = MarkovChainLevyCopula(levy_copula_model=model, grid=self.g, method=SamplingMethod.INVERSION)
            self.p.nb_jump_dt = nb
            self.p.sampling.sample = tuples
        elif sim == "ctmc":
            self.g = make_grid(static)
            self.p = MarkovChainProcess(model=model, method=SamplingMethod.INVERSION, grid=self.g)
            self.p.nb_jump_dt = nb
        elif sim == "ccopula":
            self.g = CTMCUniformGrid.create_from_fixed_nb_of_points(h=static["h"], nb_of_points=5, dimension=dim)
            self.cp = CouplingProcessLevyCopula(levy_copula_model=model, grid=self.g, method=SamplingMethod.INVERSION)
        else:
            self.g = make_grid(static)
            self.cp = CouplingMarkovChain(model=model, method=SamplingMethod.INVERSION, grid=self.g)

    @staticmethod
    def product(step):
        return StubProduct(step["dates"], stochastic=step["stochastic"])

    def initialise(self, step):
        """`initialisation` with the step's product; on the coupled objects the first one is followed by the level-ups (as in run_sim),
        later ones re-initialise the object at its level.  Hooks living on the simulation objects are set again (initialisation replaces
        these objects), hooks on the process objects stay."""
        sim, prod = self.s["sim"], self.product(step)
        eps = step["eps"] if step["mode"] == "maxstep" else None
        ints = lambda size: [int(next(self.flat)) for _ in range(size)]
        if self.p is not None:
            self.p.initialisation(prod, max_step_epsilon=eps)
            if sim == "ctmc":
                self.p._path_simulation._sampling = ints
            self.started = True
            return
        cp = self.cp
        cp.initialisation(prod, max_step_epsilon=eps)
        if not self.started:
            cp.pre_computation(1, prod)
            for _ in range(self.s.get("level", 1)):
                cp.next_level(1, None, prod, max_step_epsilon=eps)
            self.g = cp.grid
            cp.fine_process.nb_jump_dt = lambda dt: next(self.counts)
            if sim == "ccopula":
                cp.fine_process.sampling.sample = lambda size: [tuple(int(v) for v in next(self.flat)) for _ in range(size)]
            self.started = True
        csim = cp._path_coupling_simulation
        if sim == "coupled":
            cp.fine_process._path_simulation._sampling = ints
            orig = csim.coupling_state

            def logged(increment):
                v = orig(increment)
                self.coarse_log.append(float(np.asarray(v).reshape(-1)[0]))
                return v
            csim.coupling_state = logged
        else:
            mangled = "_CouplingLevyCopulaSimulation__coupling_state"
            orig_nd = getattr(csim, mangled)
            depth = [0]

            def logged_nd(increment, axis_coordinates=None):
                depth[0] += 1
                try:
                    v = orig_nd(increment, axis_coordinates)
                finally:
                    depth[0] -= 1
                if depth[0] == 0:
                    self.coarse_log.append([float(x) for x in np.asarray(v, float).reshape(-1)])
                return v
            setattr(csim, mangled, logged_nd)

    def batch(self, step):
        """`pre_computation(mc_paths, product of the step)`, then (unless simulate is False) the first path of the batch"""
        sim, mode, sc = self.s["sim"], step["mode"], self.sc
        desc = dict(self.s, **step)
        m = step.get("mc_paths", 1)
        sc.d = desc
        sc.nz, sc.normals, sc.k_interval, sc.uni_calls, sc.cu = 0, [], 0, [], 0
        # fixed dates: the Poisson counts of all m paths are drawn interval by interval in pre_computation; paths 2..m never jump
        self.counts = iter([c for ck in step["counts"] for c in [ck] + [0] * (m - 1)] if mode == "fixed" else list(step["counts"]))
        self.flat = iter([x for iv in step["incs"] for x in iv])
        self.coarse_log.clear()
        if sim == "ccopula":
            self.cp._uniform = CyclicUniform(step["cu"])
        obj = self.p if self.p is not None else self.cp
        obj.pre_computation(m, self.product(step))
        if not step.get("simulate", True):
            return None
        if self.p is not None:
            path = self.p.simulate_one_path()
        else:
            path = self.cp.simulate_one_path_with_coupling()
        if sim == "direct":
            sig = [float(self.model.diffusion_coefficient())]
        elif sim == "copula":
            sig = np.asarray(self.p._path_simulation.diffusion_matrix, float).real.tolist()
        elif sim == "ctmc":
            sig = [float(self.p.equivalent_diffusion_coefficient)]
        elif sim == "ccopula":
            sig = [np.asarray(self.cp._diffusion_matrix_h, float).real.tolist(), np.asarray(self.cp._diffusion_matrix_2h, float).real.tolist()]
        else:
            sig = [float(self.cp.equivalent_diffusion_coefficient_fine), float(self.cp.equivalent_diffusion_coefficient_coarse)]
        normals = list(sc.normals)
        if mode == "fixed":                   # all m paths' normals were drawn in pre_computation, path by path: the first path's share
            normals = normals[:len(normals) // m]
        return make_out(desc, path, sig, normals, [float(x) for x in step["dates"]], self.g, list(self.coarse_log))


def run_history(hdesc):
    """drives one live object through hdesc["history"]; returns per step None (nothing simulated), ("out", out) or ("raises", text)"""
    static = {k: hdesc[k] for k in STATIC_KEYS if k in hdesc}
    res = []
    with Script(dict(static, **hdesc["history"][0])) as sc:
        live = Live(static, sc)
        for step in hdesc["history"]:
            try:
                if step["init"]:
                    live.initialise(step)
                out = live.batch(step)
                res.append(None if out is None else ("out", out))
            except Exception as e:  # noqa
                res.append(("raises", f"{type(e).__name__}: {e}"[:300]))
    return res


def scaled_rows(out, dts):
    """per output row, the scaled Brownian increments sqrt(dt_k) * (sigma z)_k of the consumed normals (None: wrong count)"""
    n = len(dts)
    sq = np.sqrt(np.asarray(dts, float))
    if out["sig"] and isinstance(out["sig"][0], list) and isinstance(out["sig"][0][0], list):     # coupled copula: D_h, D_2h, one block
        Dh, D2h = (np.array(m_, float) for m_ in out["sig"])
        if len(out["normals"]) != Dh.shape[0] * n:
            return None
        Z = np.array(out["normals"], float).reshape(Dh.shape[0], n)
        return [list(r) for r in (sq * (Dh @ Z))] + [list(r) for r in (sq * (D2h @ Z))]
    if out["sig"] and isinstance(out["sig"][0], list):           # copula: diffusion matrix times a (dim, n) block of normals
        D = np.array(out["sig"], float)
        if len(out["normals"]) != D.shape[0] * n:
            return None
        Z = np.array(out["normals"], float).reshape(D.shape[0], n)
        return [list(r) for r in (sq * (D @ Z))]
    if len(out["normals"]) != n:
        return None
    z = np.array(out["normals"], float)
    return [list(sq * sg * z) for sg in out["sig"]]


def expected_paths(desc, out):
    """the property's own reading: at every output time, jump component = sum of all jump sizes with jump time <= t,
    diffusion component = running sum of sqrt(dt) sigma z"""
    dates, mode = out["dates"], desc["mode"]
    times = out["times"]
    exp_j = []
    for sizes in out["sizes"]:
        if mode == "fixed":
            ev = [(dates[k + 1], s) for k, iv in enumerate(sizes) for s in iv]      # a jump of interval k is seen from date k+1 on
        else:
            ev = []
            for k, iv in enumerate(sizes):
                us = sorted(desc["uniforms"][k])
                ev += [(dates[k] + (dates[k + 1] - dates[k]) * u, s) for u, s in zip(us, iv)]
        exp_j.append([math.fsum(s for (tt, s) in ev if tt <= t) for t in times])
    rows = scaled_rows(out, np.diff(np.array(times)))
    exp_d = [[0.0] + np.cumsum(r).tolist() for r in rows] if rows is not None else None
    return exp_j, exp_d


def sim_cls(desc):
    """classification of one scripted path (what the known findings are matched on), its number of jumps"""
    sim, mode, dates = desc["sim"], desc["mode"], desc["dates"]
    T = dates[-1]
    n_dates = len(dates) - 1
    eps = desc.get("eps")
    njumps = sum(desc["counts"][:n_dates])
    all_times = sorted(dates[k] + (dates[k + 1] - dates[k]) * u for k in range(n_dates) for u in desc["uniforms"][k])
    last_gap = T - (all_times[-1] if all_times else 0.0)
    cls = dict(sim=sim, mode=mode, n_dates=n_dates, no_jump=njumps == 0,
               equal_counts=len(set(desc["counts"][:n_dates])) <= 1,
               last_gap_exceeds_eps=bool(mode == "maxstep" and last_gap > eps))
    if sim in ("copula", "ccopula"):
        cls["dim"] = desc.get("dim", 2)
    return cls, njumps


def probe_sim(ctx, desc):
    sim, mode, dates = desc["sim"], desc["mode"], desc["dates"]
    n_dates = len(dates) - 1
    cls, njumps = sim_cls(desc)
    probe = "c15.sim"
    try:
        with warnings.catch_warnings():
            warnings.simplefilter("ignore")          # 0/0 in probability_to_right_jump on zero-mass cells is C03's subject
            out = run_sim(desc)
    except Exception as e:  # noqa
        ctx.count(probe, desc, nontrivial=False, branch=f"raises:{sim}:{mode}")
        ctx.fail("oracle", probe + ".raises", desc, {"what": "simulate_one_path raised", "error": f"{type(e).__name__}: {e}"[:300]}, cls=cls)
        return
    ctx.count(probe, desc, nontrivial=njumps > 0, branch=f"{sim}:{mode}:{min(n_dates, 2)}d")
    if desc.get("warm"):
        ctx.branches["c15.sim:after_an_earlier_path_on_the_same_object"] += 1
    judge_path(ctx, desc, out, cls)


def judge_path(ctx, desc, out, cls):
    """the property (S) and the tie to the model (C) on ONE simulated path `out` whose product and prescribed variates are `desc`
    (whatever object produced it: a fresh one in probe_sim, a live one with a history in probe_history)"""
    sim, mode, dates = desc["sim"], desc["mode"], desc["dates"]
    probe = "c15.sim"
    eps = desc.get("eps")
    n_dates = len(dates) - 1
    all_times = sorted(dates[k] + (dates[k + 1] - dates[k]) * u for k in range(n_dates) for u in desc["uniforms"][k])
    last_gap = dates[-1] - (all_times[-1] if all_times else 0.0)
    times, diff, jumps = out["times"], out["diff"], out["jumps"]
    dates = out["dates"]
    T = dates[-1]
    ncomp = len(out["sizes"])
    # ---- C first (its verdict tells whether a known-faulty output still is the recorded faulty output); a path whose times do not
    # increase (NaN square roots in the scaled increments) or with non-finite values is outside what the wire format can carry: S only
    if all(a < b for a, b in zip(times, times[1:])) and all(math.isfinite(x) for r in [times] + diff + jumps for x in r):
        mirrors = lean_compare(ctx, desc, out, cls)
    else:
        mirrors = False
    # ---- S: the property
    bad = None
    if len(diff) != ncomp or len(jumps) != ncomp or any(len(r) != len(times) for r in diff + jumps):
        bad = ("shape", "fine/coarse components and times are not aligned")
    elif times[0] != 0.0 or any(r[0] != 0.0 for r in diff + jumps):
        bad = ("start", "path does not start at 0 at time 0")
    elif not all(a < b for a, b in zip(times, times[1:])) or times[-1] != T:
        bad = ("times", "times not strictly increasing / not ending at the maturity")
    if bad:
        ctx.fail("oracle", probe + "." + bad[0], desc, {"what": bad[1], "times": times, "jumps": jumps}, cls=cls)
        return
    exp_j, exp_d = expected_paths(desc, out)
    if exp_d is None or any(abs(a - b) > 1e-12 * (1 + abs(b)) for r, e in zip(diff, exp_d) for a, b in zip(r, e)):
        ctx.fail("oracle", probe + ".diffusion_running_sums", desc, {"what": "diffusion component is not the running sum of the scaled Brownian increments",
                                                                    "impl": diff, "expected": exp_d, "times": times}, cls=cls)
    # both sides of the equivalences that delimit the recorded running-sum faults, row by row: the implementation's row is the running
    # sum  <=>  the theorem's domain predicate holds of the increments it consumed
    preds = domain_predicates(ctx, desc, out)
    for c, ((mine, lean), r, e) in enumerate(zip(preds, jumps, exp_j)):
        row_ok = all(a == b for a, b in zip(r, e))
        ctx.branches[f"c15.sim.iff:{'fixed' if mode == 'fixed' else 'jump_times'}:{'in' if lean else 'out_of'}_domain"] += 1
        if mine != lean:
            ctx.fail("corr", "c15.sim.iff", desc, {"name": "Drivers/C15 iff (domain decider of the model) vs the harness' reading of the theorem's right-hand side",
                                                   "row": c, "harness": mine, "model": lean}, cls=cls)
        elif lean and not row_ok:
            ctx.fail("oracle", probe + ".running_sums_in_domain", desc,
                     {"what": "jump component is not the running sum although the increments are inside the domain on which the code as modelled "
                              "satisfies the full statement (fixedDates_code_eq_spec_iff / jumpValsCtmc_eq_direct_iff)", "row": c, "impl": r, "expected": e,
                      "times": times}, cls=cls)
        elif not lean and row_ok:
            ctx.fail("corr", "c15.sim.iff", desc, {"name": "the implementation returns running sums outside the domain on which the model of the code does "
                                                           "(theorem fixedDates_code_eq_spec_iff / jumpValsCtmc_eq_direct_iff): the model no longer mirrors the code",
                                                   "row": c, "impl": r}, cls=cls)
    if any(a != b for r, e in zip(jumps, exp_j) for a, b in zip(r, e)):
        ctx.fail("oracle", probe + ".running_sums", desc, {"what": "jump component is not the running sum of the jump increments up to each time",
                                                          "impl": jumps, "expected": exp_j, "times": times}, cls=cls, mirrors_model=mirrors)
    if mode == "maxstep":
        steps = [b - a for a, b in zip(times, times[1:])]
        # maxStepCode_steps_le_eps_iff: every step <= eps  <=>  T - (last jump time, 0 if none) <= eps
        ctx.branches[f"c15.sim.iff:max_step:{'in' if last_gap <= eps else 'out_of'}_domain"] += 1
        if max(steps) <= eps and last_gap > eps:
            ctx.fail("corr", "c15.sim.iff", desc, {"name": "every step is within epsilon although the last gap exceeds it (theorem maxStepCode_steps_le_eps_iff): "
                                                           "the model no longer mirrors the code", "times": times, "epsilon": eps}, cls=cls)
        if max(steps) > eps and eps < T:
            worst = max(range(len(steps)), key=lambda i: steps[i])
            only_last = all(s <= eps for s in steps[:-1])
            ctx.fail("oracle", probe + ".max_step", desc, {"what": "a step of the returned path exceeds the requested maximum step", "epsilon": eps,
                                                          "worst_step": steps[worst], "index": worst, "only_the_last_step": only_last, "times": times},
                     cls=cls, mirrors_model=mirrors and only_last)
        if any(t not in times for t in all_times):
            ctx.fail("oracle", probe + ".keeps_points", desc, {"what": "an original jump time is missing", "jump_times": all_times, "times": times}, cls=cls)
        orig = set(all_times) | {0.0, T}
        for r in jumps:
            for k in range(1, len(times)):
                if times[k] not in orig and r[k] != r[k - 1]:
                    ctx.fail("oracle", probe + ".inserted_repeat_previous", desc, {"what": "an inserted point does not repeat the preceding value",
                                                                                  "index": k, "times": times, "jumps": jumps}, cls=cls)
                    return


class StepCtx:
    """ctx for judging one step of a history: failures are recorded with the WHOLE history as input (so that they replay)"""

    def __init__(self, ctx, hdesc, i):
        self._ctx, self._h, self._i = ctx, hdesc, i

    def __getattr__(self, name):
        return getattr(self._ctx, name)

    def fail(self, kind, probe, _inp, detail, cls=None, mirrors_model=None):
        self._ctx.fail(kind, probe, self._h, dict(detail, history_step=self._i), cls=cls, mirrors_model=mirrors_model)


def history_kind(hdesc):
    """which pattern a history exercises (evidence only)"""
    steps = hdesc["history"]
    tags = set()
    for a, b in zip(steps, steps[1:]):
        if b["init"]:
            tags.add("reinit_same_mode" if a["mode"] == b["mode"] else "reinit_other_mode")
            continue
        ta, tb = a["dates"][-1], b["dates"][-1]
        if b["mode"] == "maxstep":
            side = lambda t: "below" if t < b["eps"] else "equal" if t == b["eps"] else "above"
            tags.add(f"maxstep_maturity_{side(ta)}_then_{side(tb)}_eps")
        else:
            tags.add("maturity_" + ("shorter" if tb < ta else "longer" if tb > ta else "same"))
        if len(a["dates"]) != len(b["dates"]):
            tags.add("other_number_of_dates")
        if not a.get("simulate", True):
            tags.add("batch_without_a_path")
        if a.get("mc_paths", 1) > 1:
            tags.add("paths_left_over")
        if a["stochastic"] != b["stochastic"]:
            tags.add("other_payoff_dates_type")
    return sorted(tags)


def probe_history(ctx, hdesc):
    """operation histories on ONE live simulator object: every path it returns is judged by the oracles of probe_sim for the product and
    the variates of ITS step (cls of that step: the recorded faults are matched as for a fresh object), and compared with the path a
    freshly constructed and initialised object returns for the same product and variates (run_sim)"""
    static = {k: hdesc[k] for k in STATIC_KEYS if k in hdesc}
    steps = hdesc["history"]
    with warnings.catch_warnings():
        warnings.simplefilter("ignore")
        res = run_history(hdesc)
    judged = [i for i, r in enumerate(res) if r is not None]
    ctx.count("c15.history", hdesc, nontrivial=len(judged) >= 1 and len(steps) >= 2 and any(sum(s["counts"]) for s in steps),
              branch=f"{static['sim']}:{'/'.join(dict.fromkeys(s['mode'] for s in steps))}")
    for t in history_kind(hdesc):
        ctx.branches["c15.history.pattern:" + t] += 1
    for i in judged:
        step = steps[i]
        desc = dict(static, **step)
        cls, _ = sim_cls(desc)
        cls.update(history=True, step=i, reinit=bool(step["init"]))
        sctx = StepCtx(ctx, hdesc, i)
        fdesc = {k: v for k, v in desc.items() if k not in ("init", "stochastic", "mc_paths", "simulate")}
        try:
            with warnings.catch_warnings():
                warnings.simplefilter("ignore")
                fresh = ("out", run_sim(fdesc))
        except Exception as e:  # noqa
            fresh = ("raises", f"{type(e).__name__}: {e}"[:300])
        kind, out = res[i]
        if kind == "raises":
            # a recorded raise of the fresh object (ragged slices, copula with several dates) is the same finding here; a raise of the
            # live object alone is never one of the recorded ones
            sctx.fail("oracle", "c15.sim.raises", None, {"what": "the live object raised in this step of the history", "error": out,
                                                         "fresh_object": fresh[1] if fresh[0] == "raises" else "returns a path"},
                      cls=cls, mirrors_model=None if fresh[0] == "raises" else False)
            continue
        ctx.branches[f"c15.history.step:{static['sim']}:{step['mode']}:{'init' if step['init'] else 'pre_computation_only'}"] += 1
        judge_path(sctx, desc, out, cls)
        if fresh[0] == "raises":
            sctx.fail("corr", "c15.history.fresh", None, {"name": "the live object returns a path where a fresh object raises", "fresh": fresh[1]}, cls=cls)
        elif any(out[k] != fresh[1][k] for k in ("times", "jumps", "diff", "shape")):
            sctx.fail("corr", "c15.history.fresh", None,
                      {"name": "path of the live object vs path of a freshly constructed and initialised object, same product, same prescribed "
                               "variates (a path is a function of the current product and the variates of its batch)",
                       "live_times": out["times"], "fresh_times": fresh[1]["times"], "live_jumps": out["jumps"], "fresh_jumps": fresh[1]["jumps"]},
                      cls=cls)


def lean_compare(ctx, desc, out, cls):
    """implementation vs M (the *as coded* model). returns True when they agree"""
    sim, mode, dates = desc["sim"], desc["mode"], out["dates"]
    times = out["times"]
    n_dates = len(dates) - 1
    dts = np.diff(np.array(times))
    ok = True
    comps = []
    wrows = scaled_rows(out, dts)
    if sim == "ccopula":
        return lean_compare_ccopula(ctx, desc, out, cls, wrows)
    for c, sizes in enumerate(out["sizes"]):
        wv = wrows[c] if wrows is not None else []
        us = [sorted(u) for u in desc["uniforms"][:n_dates]]
        if mode == "fixed":
            ans = ctx.lean(f"fixed {'code' if sim == 'direct' else 'ctmc'} {wl(dates)} {wll(sizes)} {wl(wv)}")
        else:
            kind = "direct" if sim == "direct" else "ctmc"
            ans = ctx.lean(f"jt {kind} {wl(dates)} {wll(us)} {wll(sizes)} {wl(wv) if mode == 'jump_times' else '[]'}")
            if mode == "maxstep":
                a = ans.split(" ")
                jt, jv = rdl(a[0])[1:-1], rdl(a[2])[1:-1]
                comps.append((jt, jv))
                ans = ctx.lean(f"maxstep code {w(desc['eps'])} {w(dates[-1])} {wl(jt)} {wl(jv)} {wl(wv)}")
                # maxStepCode_eq_spec_iff: the whole returned row (times, values) is the specified capped path  <=>  T - last jump <= eps
                spec = ctx.lean(f"maxstep spec {w(desc['eps'])} {w(dates[-1])} {wl(jt)} {wl(jv)} {wl(wv)}").split(" ")
                impl_is_spec = (len(spec) == 3 and rdl(spec[0]) == [fr(x) for x in times] and rdl(spec[2]) == [fr(x) for x in out["jumps"][c]])
                in_domain = fr(dates[-1]) - (jt[-1] if jt else 0) <= fr(desc["eps"])
                if impl_is_spec != in_domain:
                    ctx.fail("oracle" if in_domain else "corr", "c15.sim.max_step_spec" if in_domain else "c15.sim.iff", desc,
                             {"what": "returned path vs the specified capped path (maturity part of the capped grid): equal exactly when the last gap is within "
                                      "epsilon (theorem maxStepCode_eq_spec_iff)", "impl_equals_spec": impl_is_spec, "last_gap_within_eps": in_domain,
                              "impl_times": times, "spec": [x[:200] for x in spec]}, cls=cls)
        a = ans.split(" ")
        good = (len(a) == 3 and rdl(a[0]) == [fr(x) for x in times] and rdl(a[2]) == [fr(x) for x in out["jumps"][c]]
                and len(rdl(a[1])) == len(out["diff"][c]) and all(close(p, l) for p, l in zip(out["diff"][c], rdl(a[1]))))
        if not good:
            ok = False
            ctx.fail("corr", "c15.sim.model", desc, {"name": f"Drivers/C15 {mode} ({sim}, component {c}) vs simulate_one_path", "impl_times": times,
                                                     "impl_jumps": out["jumps"][c], "impl_diff": out["diff"][c], "model": [x[:300] for x in a]}, cls=cls)
    if sim == "coupled" and mode == "maxstep" and ok:
        (jt, jf), (_, jc) = comps
        a = ctx.lean(f"maxpair {w(desc['eps'])} {w(dates[-1])} {wl(jt)} {wl(jf)} {wl(jc)}").split(" ")
        if not (len(a) == 3 and rdl(a[0]) == [fr(x) for x in times] and rdl(a[1]) == [fr(x) for x in out["jumps"][0]]
                and rdl(a[2]) == [fr(x) for x in out["jumps"][1]]):
            ok = False
            ctx.fail("corr", "c15.sim.model", desc, {"name": "Drivers/C15 maxpair vs CouplingSimulationMaximumStep", "impl_times": times, "model": a}, cls=cls)
    return ok


def lean_compare_ccopula(ctx, desc, out, cls, wrows):
    """the coupled copula simulator against its own d-dimensional model (Drivers/C15 cfixed / cjt / cmax): the whole (2, d, n)
    blocks on the shared times in one request"""
    mode, dates, times = desc["mode"], out["dates"], out["times"]
    d = desc.get("dim", 2)
    n_dates = len(dates) - 1
    sizes = out["sizes"]

    def flat_rows(block):          # per interval: its d-vectors flattened
        return [[block[c][k][i] for i in range(len(block[0][k])) for c in range(d)] for k in range(n_dates)]
    iF, iC = flat_rows(sizes[:d]), flat_rows(sizes[d:])
    nsteps = len(times) - 1
    if wrows is None:
        wF = wC = []
    else:
        wF = [[wrows[c][i] for c in range(d)] for i in range(nsteps)]
        wC = [[wrows[d + c][i] for c in range(d)] for i in range(nsteps)]
    us = [sorted(u) for u in desc["uniforms"][:n_dates]]
    if mode == "fixed":
        ans = ctx.lean(f"cfixed {d} {wl(dates)} {wll(iF)} {wll(iC)} {wll(wF)} {wll(wC)}")
    elif mode == "jump_times":
        ans = ctx.lean(f"cjt {d} {wl(dates)} {wll(us)} {wll(iF)} {wll(iC)} {wll(wF)} {wll(wC)}")
    else:
        ans = ctx.lean(f"cmax {d} {w(desc['eps'])} {wl(dates)} {wll(us)} {wll(iF)} {wll(iC)} {wll(wF)} {wll(wC)}")
    a = ans.split(" ")
    good = len(a) == 5 and rdl(a[0]) == [fr(x) for x in times] and out.get("shape") == [2, d, len(times)]
    if good:
        mdF, mdC, mF, mC = (rdll(x) for x in a[1:])            # one row per time, d entries
        n = len(times)
        for c in range(d):
            good = good and [r[c] for r in mF] == [fr(x) for x in out["jumps"][c]] and [r[c] for r in mC] == [fr(x) for x in out["jumps"][d + c]]
            good = good and len(mdF) == n and all(close(p_, l[c]) for p_, l in zip(out["diff"][c], mdF))
            good = good and len(mdC) == n and all(close(p_, l[c]) for p_, l in zip(out["diff"][d + c], mdC))
    if not good:
        ctx.fail("corr", "c15.sim.model", desc, {"name": f"Drivers/C15 coupled copula ({mode}, d={d}) vs CouplingProcessLevyCopula.simulate_one_path_with_coupling",
                                                 "impl_times": times, "impl_jumps": out["jumps"], "model": [x[:300] for x in a]}, cls=cls)
    return good


def domain_predicates(ctx, desc, out):
    """right-hand sides of the equivalences of Proofs/C15 section 7, per output row, decided by the Lean model (Drivers/C15 iff ...) and
    recomputed here: fixed dates - every interval but the last has zero jump sum (fixedDates_code_eq_spec_iff); jump times of the
    chain simulators - the carried total is 0 before every interval that jumps (jumpValsCtmc_eq_direct_iff); the direct simulator
    accumulates globally (running_sums_jump_times)"""
    sim, mode = desc["sim"], desc["mode"]
    n_dates = len(out["dates"]) - 1
    res = []
    for sizes in out["sizes"]:
        sizes = [list(iv) for iv in sizes[:n_dates]]
        if mode == "fixed":
            mine = all(math.fsum(iv) == 0 for iv in sizes[:-1])
            lean = ctx.lean(f"iff fixed {wll(sizes)}") if len(sizes) >= 1 and any(sizes) else ("1" if mine else "0")
        elif sim == "direct":
            mine, lean = True, "1"
        else:
            acc, mine = 0.0, True
            for iv in sizes:
                if iv and acc != 0:
                    mine = False
                acc += math.fsum(iv)
            lean = ctx.lean(f"iff restart {wll(sizes)}") if any(sizes) else "1"
        res.append((mine, lean == "1"))
    return res


def gen_sim(rng, sim=None, mode=None, n_dates=None, fixed=None, T=None, eps=None, warm=True):
    """one scripted path. fixed: the simulator-level parameters (family, params, h, dim, copula) of an existing object, T / eps: a
    prescribed maturity / maximum step, warm=False: no earlier path (used by gen_history; the defaults leave the random stream as is)"""
    sim = sim or rng.choice(["direct", "ctmc", "coupled", "ccopula"])
    mode = mode or rng.choice(["fixed", "jump_times", "maxstep"])
    n_dates = n_dates or rng.choice([1, 1, 2, 2, 3, 4, 5, 6])
    T = rng.choice([0.5, 1.0, 2.0]) if T is None else T
    cuts = sorted(rng.sample(range(1, 32), n_dates - 1))
    dates = [0.0] + [T * c / 32 for c in cuts] + [T]
    style = rng.random()
    counts = []
    for k in range(n_dates):
        if style < 0.12:
            counts.append(0)
        elif style < (0.3 if sim == "coupled" else 0.5) and sim in ("coupled", "ccopula") and mode != "fixed":
            counts.append(counts[0] if counts else rng.randint(1, 3))        # equal counts: the only shape the coupled jump-time code accepts
        else:
            counts.append(rng.choice([0, 0, 1, 1, 2, 3]))
    if fixed:
        fam, params, h = fixed["family"], fixed["params"], fixed["h"]
    else:
        fam = rng.choice(["hem", "merton"])
        params = (dict(sigma=rng.choice([0.125, 0.25, 0.2]), p=0.4, eta1=10.0, eta2=5.0, intensity=3.0) if fam == "hem"
                  else dict(sigma=rng.choice([0.125, 0.25, 0.2]), sigma_j=0.1, mu_j=0.05, intensity=3.0))
        h = rng.choice([0.125, 0.25])
    if sim == "direct":
        incs = [[rng.randint(-16, 16) / 16 for _ in range(c)] for c in counts]
    elif sim in ("copula", "ccopula"):
        import itertools
        if fixed:
            dim, cop = fixed.get("dim", 2), fixed.get("copula", "independent")
        else:
            dim = rng.choice([2, 2, 3])
            cop = rng.choice(["independent", "clayton"]) if dim == 2 else "independent"
        reach = 2 if sim == "copula" else 4          # the coupled simulator runs on the grid refined once: 9 points per axis
        if sim == "ccopula" and cop == "independent":
            # the coarse increment comes from the real coupling: only states of positive rate (on the axes for independent components)
            cells = [tuple(v if k == ax else 0 for k in range(dim)) for ax in range(dim) for v in range(-reach, reach + 1) if v != 0]
        else:
            cells = [c_ for c_ in itertools.product(range(-reach, reach + 1), repeat=dim) if any(c_)]
        incs = [[list(rng.choice(cells)) for _ in range(c)] for c in counts]
    else:
        hi = 8 if sim == "coupled" else 4
        incs = [[rng.choice([i for i in range(-hi, hi + 1) if i != 0]) for _ in range(c)] for c in counts]
    uniforms = [[u / 64 for u in rng.sample(range(1, 64), c)] for c in counts] if mode != "fixed" else [[] for _ in counts]
    desc = dict(sim=sim, mode=mode, dates=dates, counts=counts, incs=incs, uniforms=uniforms, zseed=rng.randrange(10 ** 6),
                cu=[rng.random() for _ in range(8)], family=fam, params=params, h=h)
    if sim in ("copula", "ccopula"):
        desc["copula"], desc["dim"] = cop, dim
        desc["cu"] = [rng.randint(1, 63) / 64 for _ in range(8)]
    if mode == "maxstep":
        desc["eps"] = rng.choice([T / 32, T / 16, 3 * T / 32, T / 8, T / 4, T / 2, T, 2 * T]) if eps is None else eps
    if warm and rng.random() < 0.3:
        # an earlier, busy path on the same simulator object (every interval jumps): what the scripted path returns must not
        # depend on it
        cw = rng.choice([1, 2, 3])
        wc = [cw] * n_dates
        if sim == "direct":
            wi = [[rng.randint(1, 16) / 16 for _ in range(cw)] for _ in wc]
        elif sim in ("copula", "ccopula"):
            wi = [[list(rng.choice(cells)) for _ in range(cw)] for _ in wc]
        else:
            wi = [[rng.choice([1, 2, 3, -1, -3]) for _ in range(cw)] for _ in wc]
        wu = [[u / 64 for u in rng.sample(range(1, 64), cw)] for _ in wc] if mode != "fixed" else [[] for _ in wc]
        desc["warm"] = dict(counts=wc, incs=wi, uniforms=wu)
    return desc


MODES = ("fixed", "jump_times", "maxstep")
SIMS = ("direct", "ctmc", "coupled", "copula", "ccopula")


def gen_history(rng, sim):
    """a random history on one object: 2..4 steps; a step re-initialises (any mode, any epsilon) with probability 0.3, otherwise only
    `pre_computation` with ANOTHER product: other maturity (maximum step: below / equal / above epsilon), other number of dates, other
    payoff-dates type where the mode ignores it; 1..3 pre-computed paths, of which one or none is simulated"""
    first = gen_sim(rng, sim=sim, mode="fixed", n_dates=1, warm=False)
    static = {k: first[k] for k in STATIC_KEYS if k in first}
    steps, n = [], rng.choice([2, 2, 3, 3, 4])
    mode = eps = None
    for i in range(n):
        init = i == 0 or rng.random() < 0.3
        if init:
            mode = rng.choice(MODES + ("maxstep",))
            eps = rng.choice([0.125, 0.25, 0.5]) if mode == "maxstep" else None
        T = rng.choice([eps / 2, eps, 2 * eps, 4 * eps, 8 * eps]) if mode == "maxstep" else rng.choice([0.25, 0.5, 1.0, 2.0])
        nd = 1 if sim == "copula" else rng.choice([1, 1, 2, 3] if sim in ("coupled", "ccopula") else [1, 2, 3, 5])
        d = gen_sim(rng, sim=sim, mode=mode, n_dates=nd, fixed=static, T=T, eps=eps, warm=False)
        step = {k: d[k] for k in ("mode", "dates", "counts", "incs", "uniforms", "zseed", "cu", "eps") if k in d}
        step.update(init=init, stochastic=mode == "jump_times" or (mode == "maxstep" and rng.random() < 0.5),
                    mc_paths=rng.choice([1, 1, 2, 3]), simulate=i == n - 1 or rng.random() < 0.7)
        steps.append(step)
    return dict(static, history=steps)


def directed_step(sim, mode, T, nd, eps=None, init=False, simulate=True, mc_paths=1, stochastic=None):
    """a product with maturity T and nd dates whose jumps need refinement when T > eps and whose last gap is T/8 (inside the domain
    of the max-step equivalences for T <= 8 eps): one date - jumps at T/2 and 7T/8; two dates - one jump per interval, at T/4 and 7T/8"""
    one = [[1, 0]] if sim in ("copula", "ccopula") else [1 if sim != "direct" else 0.5]
    two = [[1, 0], [0, -2]] if sim in ("copula", "ccopula") else ([1, -2] if sim != "direct" else [0.5, -0.25])
    if nd == 1:
        dates, counts, incs, uni = [0.0, T], [2], [two], [[0.5, 0.875]]
    else:
        dates, counts, incs, uni = [0.0, T / 2, T], [1, 1], [one, one], [[0.5], [0.75]]
    step = dict(mode=mode, dates=dates, counts=counts, incs=incs, uniforms=uni if mode != "fixed" else [[] for _ in counts], zseed=3,
                cu=[0.5, 0.25, 0.75], init=init, simulate=simulate, mc_paths=mc_paths,
                stochastic=(mode != "fixed") if stochastic is None else stochastic)
    if mode == "maxstep":
        step["eps"] = eps
    return step


def directed_histories(sim):
    """maximum step: every ordered pair of maturities below / equal / above epsilon under one initialisation, with and without a path
    in between, one and two dates; fixed dates / jump times: longer and shorter maturities, more and fewer dates; every ordered pair
    of modes with a re-initialisation in between"""
    hem = dict(sigma=0.25, p=0.4, eta1=10.0, eta2=5.0, intensity=3.0)
    static = dict(sim=sim, family="hem", params=hem, h=0.125)
    if sim in ("copula", "ccopula"):
        static.update(dim=2, copula="independent")
    nds = (1,) if sim == "copula" else (1, 2)
    eps = 0.25
    res = []
    for k, (ta, tb) in enumerate((a, b) for a in (0.125, 0.25, 1.0) for b in (0.125, 0.25, 1.0)):
        for between in (True, False):
            na, nb = nds[k % len(nds)], nds[(k + between) % len(nds)]
            res.append(dict(static, history=[
                directed_step(sim, "maxstep", ta, na, eps, init=True, simulate=between, mc_paths=2, stochastic=bool(k % 2)),
                directed_step(sim, "maxstep", tb, nb, eps, stochastic=not k % 2)]))
    # three batches: the closure of the middle (short) product must not survive either
    res.append(dict(static, history=[directed_step(sim, "maxstep", 1.0, 1, eps, init=True), directed_step(sim, "maxstep", 0.125, 1, eps),
                                     directed_step(sim, "maxstep", 2.0, nds[-1], eps)]))
    for mode in ("fixed", "jump_times"):
        for (ta, na), (tb, nb) in (((0.25, 1), (1.0, nds[-1])), ((1.0, nds[-1]), (0.25, 1)), ((1.0, 1), (1.0, nds[-1])), ((0.5, nds[-1]), (2.0, 1))):
            for between in (True, False):
                res.append(dict(static, history=[directed_step(sim, mode, ta, na, init=True, simulate=between, mc_paths=3),
                                                 directed_step(sim, mode, tb, nb)]))
    for ma in MODES:
        for mb in MODES:
            res.append(dict(static, history=[directed_step(sim, ma, 0.25, 1, eps, init=True, mc_paths=2),
                                             directed_step(sim, mb, 1.0, nds[-1], eps / 2 if ma == "maxstep" else eps, init=True),
                                             directed_step(sim, mb, 0.5, 1, eps / 2 if ma == "maxstep" else eps)]))
    return res


def run(ctx):
    rng = ctx.rng
    for _ in range(ctx.n(400, 4000)):
        probe_finer(ctx, gen_finer(rng, "direct"))
    for _ in range(ctx.n(400, 4000)):
        probe_finer(ctx, gen_finer(rng, "coupled"))
    # directed reproductions of the two recorded defects (the Lean witnesses running_sums_counterexample / last_gap_uncapped)
    hem = dict(sigma=0.25, p=0.4, eta1=10.0, eta2=5.0, intensity=3.0)
    base = dict(zseed=1, cu=[0.5], family="hem", params=hem, h=0.125)
    probe_sim(ctx, dict(base, sim="direct", mode="fixed", dates=[0.0, 0.5, 1.0], counts=[1, 0], incs=[[0.05], []], uniforms=[[], []]))
    probe_sim(ctx, dict(base, sim="ctmc", mode="jump_times", dates=[0.0, 0.5, 1.0], counts=[1, 1], incs=[[1], [1]], uniforms=[[0.5], [0.5]]))
    probe_sim(ctx, dict(base, sim="direct", mode="maxstep", eps=0.125, dates=[0.0, 1.0], counts=[1], incs=[[1.0]], uniforms=[[0.5]]))
    probe_sim(ctx, dict(base, sim="ctmc", mode="maxstep", eps=0.125, dates=[0.0, 1.0], counts=[0], incs=[[]], uniforms=[[]]))
    # a real product with several dates (Asian, monthly averaging: 0.25y -> 4 dates)
    probe_sim(ctx, dict(base, sim="direct", mode="fixed", asian=True, dates=[0.0, 0.25 / 3, 0.5 / 3, 0.25], counts=[1, 2, 0],
                        incs=[[0.5], [0.25, -0.125], []], uniforms=[[], [], []]))
    for sim in ("direct", "ctmc", "coupled"):
        for _ in range(ctx.n(250, 3000)):
            probe_sim(ctx, gen_sim(rng, sim=sim))
    # the Levy-copula CTMC simulator: its own stacking of the d coordinates (one product date; two dates raise, reproduced once)
    probe_sim(ctx, dict(base, sim="copula", mode="jump_times", dates=[0.0, 0.5, 1.0], counts=[1, 1], incs=[[[1, 0]], [[0, 1]]],
                        uniforms=[[0.5], [0.5]], copula="independent"))
    for _ in range(ctx.n(40, 500)):
        probe_sim(ctx, gen_sim(rng, sim="copula", n_dates=1))
    # the coupled Levy-copula simulator (CouplingProcessLevyCopula, level 1): its own (2, d, n) stacking, d = 2 (independent / Clayton)
    # and d = 3, all three modes, 1..6 dates; directed: the witness of the per-interval restart in every row, and level 2
    cbase = dict(base, sim="ccopula", dim=2, copula="clayton", cu=[0.3, 0.9, 0.5, 0.2])
    probe_sim(ctx, dict(cbase, mode="jump_times", dates=[0.0, 0.5, 1.0], counts=[1, 1], incs=[[[1, 1]], [[3, -1]]], uniforms=[[0.25], [0.5]]))
    probe_sim(ctx, dict(cbase, mode="fixed", dates=[0.0, 0.5, 1.0], counts=[2, 1], incs=[[[1, 1], [3, -1]], [[2, 1]]], uniforms=[[], []]))
    probe_sim(ctx, dict(cbase, mode="maxstep", eps=0.125, dates=[0.0, 1.0], counts=[2], incs=[[[1, 1], [3, -1]]], uniforms=[[0.25, 0.5]], level=2))
    probe_sim(ctx, dict(cbase, mode="jump_times", dates=[0.0, 0.5, 1.0], counts=[2, 1], incs=[[[1, 1], [3, -1]], [[2, 1]]], uniforms=[[0.25, 0.5], [0.5]]))
    for _ in range(ctx.n(150, 1800)):
        probe_sim(ctx, gen_sim(rng, sim="ccopula"))
    # edge cases of the parameters (no random stream reaches them): a product date at 0+, epsilon tiny (hundreds of inserted points),
    # epsilon far beyond the maturity, no jump anywhere with many dates, one jump exactly at distance epsilon from the maturity
    for sim in ("direct", "ctmc", "coupled", "ccopula"):
        one = [[1, 0]] if sim == "ccopula" else [1 if sim != "direct" else 0.5]
        two = [[1, 0], [0, -2]] if sim == "ccopula" else ([1, -2] if sim != "direct" else [0.5, -0.25])
        eb = dict(cbase, copula="independent") if sim == "ccopula" else dict(base, sim=sim)
        tiny = 2.0 ** -20
        for mode in ("fixed", "jump_times", "maxstep"):
            e = dict(eb, mode=mode, eps=0.25)
            un = (lambda *u: [list(x) for x in u]) if mode != "fixed" else (lambda *u: [[] for _ in u])
            probe_sim(ctx, dict(e, dates=[0.0, tiny, 1.0], counts=[1, 1], incs=[one, one], uniforms=un([0.5], [0.5])))
            probe_sim(ctx, dict(e, dates=[0.0, tiny, 1.0], counts=[0, 2], incs=[[], two], uniforms=un([], [0.25, 0.75])))
            probe_sim(ctx, dict(e, dates=[0.0, 0.125, 0.25, 0.5, 0.75, 0.875, 1.0], counts=[0] * 6, incs=[[]] * 6, uniforms=[[]] * 6))
        probe_sim(ctx, dict(eb, mode="maxstep", eps=2.0 ** -8, dates=[0.0, 1.0], counts=[2], incs=[two], uniforms=[[0.25, 0.75]]))
        probe_sim(ctx, dict(eb, mode="maxstep", eps=1024.0, dates=[0.0, 0.5, 1.0], counts=[1, 1], incs=[one, one], uniforms=[[0.5], [0.5]]))
        probe_sim(ctx, dict(eb, mode="maxstep", eps=0.25, dates=[0.0, 1.0], counts=[1], incs=[one], uniforms=[[0.75]]))
        probe_sim(ctx, dict(eb, mode="maxstep", eps=0.25, dates=[0.0, 1.0], counts=[2], incs=[two], uniforms=[[0.5, 0.875]]))
    # operation histories on ONE live object of every simulator: initialisation once, then pre_computation with DIFFERENT products
    # (maturity below / equal / above epsilon in every order, other numbers of dates, batches without a path, paths left over),
    # re-initialisations in another mode / with another epsilon; every returned path judged for its own product and variates
    for sim in SIMS:
        for h in directed_histories(sim):
            probe_history(ctx, h)
        for _ in range(ctx.n(60 if sim in ("direct", "ctmc", "coupled") else 25, 800 if sim in ("direct", "ctmc", "coupled") else 300)):
            probe_history(ctx, gen_history(rng, sim))
    probe_equal_dates(ctx)


def probe_equal_dates(ctx):
    """two equal consecutive product dates: outside the property's quantifier (dates strictly increasing); recorded for the evidence
    whether the simulators reject them, and when they do not, that the assembly still is the model's (no oracle)"""
    hem = dict(sigma=0.25, p=0.4, eta1=10.0, eta2=5.0, intensity=3.0)
    for sim in ("direct", "ctmc"):
        equal_dates_one(ctx, dict(zseed=1, cu=[0.5], family="hem", params=hem, h=0.125, sim=sim, mode="fixed", dates=[0.0, 0.5, 0.5, 1.0],
                                  counts=[1, 0, 1], incs=[[0.5 if sim == "direct" else 1], [], [0.25 if sim == "direct" else 2]],
                                  uniforms=[[], [], []]))


def equal_dates_one(ctx, desc):
    try:
        with warnings.catch_warnings():
            warnings.simplefilter("ignore")
            out = run_sim(desc)
    except Exception as e:  # noqa
        ctx.count("c15.equal_dates", desc, nontrivial=False, branch="rejected:" + type(e).__name__)
        return
    ctx.count("c15.equal_dates", desc, nontrivial=False, branch="accepted")
    lean_compare(ctx, desc, out, dict(sim=desc["sim"], mode="fixed", equal_dates=True))


def replay(ctx, rec):
    p, d = rec["probe"], rec["input"]
    if p.startswith("c15.finer"):
        probe_finer(ctx, d)
    elif "history" in d:
        probe_history(ctx, d)
    elif any(a == b for a, b in zip(d["dates"], d["dates"][1:])):
        equal_dates_one(ctx, d)
    else:
        probe_sim(ctx, d)


def search(ctx):
    rng = ctx.rng
    for _ in range(600):
        probe_finer(ctx, gen_finer(rng, rng.choice(["direct", "coupled"])))
        probe_sim(ctx, gen_sim(rng))
        probe_history(ctx, gen_history(rng, rng.choice(SIMS)))
