"""C04 — Drift compensation: the chain reproduces the mean of the process it replaces   (DESIGN.md §4 C04).

C (correspondence): real chains (`MarkovChainProcess(model, method, grid).initialisation(product)`, `process_drift()`,
`equivalent_diffusion_coefficient`, the intervals `compute_mu_h` hands to `integrate`) against the Lean model
RpylibModel/Model/Drift.lean run by Drivers/C04.lean, the model being fed the *untruncated* measure's own
`integrate / integrate_against_x / integrate_against_xx` at the (clipped) intervals the model asks for, the chain's
`levy_triplet.a` (tilde drift of the truncated triplet, C10's subject) and `model.drift()`.
S (oracle, independent of the model and of the closed-form moment integrals): the mean per unit time of the truncated
process in the *declared* representation R,   model.drift() + a_R + ∫_[l,r] (x - h_R(x)) ν(x) dx   by scipy quadrature of
the Lévy *density*, must equal  process_drift + Σ_k x_k q_k ; eqDiff² - σ² = quadrature of x²ν on the central interval iff
infinite variation; |variance of the approximation - variance of the truncated model| <= Σ_k osc_k(x²) q_k (+ central
second moment for finite variation).
"""
from __future__ import annotations

import copy
import itertools
import math
import traceback
import warnings
from fractions import Fraction

import numpy as np
import scipy.linalg
from scipy.integrate import quad

from .. import zoo
from ..common import w, wl, wll, rd, rdl, rdll, close, fr, Infra

from rpylib.distribution.sampling import SamplingMethod
from rpylib.distribution.samplingfactory import create_q_vector
from rpylib.grid.grid import Coordinates
from rpylib.model.levymodel.levymodel import LevyRepresentation as LR
from rpylib.process.markovchain import markovchain as mc_mod
from rpylib.process.markovchain import markovchainlevycopula as mclc_mod
from rpylib.process.markovchain.markovchain import MarkovChainProcess
from rpylib.process.markovchain.markovchainlevycopula import MarkovChainLevyCopula, vol_adjustment_ij
from rpylib.product.payoff import Vanilla, PayoffType
from rpylib.product.product import Product
from rpylib.product.underlying import Spot

RULE = ("1-d structured: model families (HEM, Merton, VG, CGMY in all five activity branches, incl. infinite variation 1<y<2) x "
        "parameter draws x {Levy model (identity), exponential of Levy (log)} x every admissible declared representation "
        "(ONEONE, TILDE, CENTER, and ZERO for finite variation; set on the caller's model before the chain is built) x the six "
        "grid constructors x h x 0..2 refinements x {INVERSION, BINARYSEARCHTREEADAPTED1D}; synthetic: dyadic axes x "
        "piecewise-constant densities (truncation active in both directions, zero-mass cells); copula: each margin of 2-d "
        "chains, Clayton / independent / dependent, 5..7 points per axis, fixed and credit grids (unequal axes); variance "
        "matrix: independent copula with infinite-variation margins through the real constructor (process pool + nquad). "
        "non-trivial = chain built and initialised on a well-formed grid with >= 5 points; distinct = distinct (model, "
        "parameters, representation, grid arguments, refinements, method)")
NOT_PROVED = [
    "the closed-form integrate / integrate_against_x / integrate_against_xx of the families (inputs of the model; C09) and the "
    "representation conversion that produces levy_triplet.a (C10) are not proved here: `chain_mean` takes the tilde drift as an input",
    "the sandwich hypotheses IsSecondMoment / IsFirstMoment (a² m <= m2 <= b² m on one-sided intervals) of `variance_gap` / `mean_gap` "
    "are hypotheses: true of every measure with a density, not derived from the families' closed forms",
    "`model.drift()` of the exponential models (r - d + omega, omega from the Lévy exponent) is an input (C10)",
    "vol_adjustment_ij's nquad (copula small-jump covariances) is not modelled; only the combination adj·adjᵀ + σ² vs adj + σ² is",
    "the variance statement for finite variation is `variance_finite_variation` (gap <= central second moment + weighted oscillation)",
    "float rounding of sums (compared at 2^-40 relative to the cancellation-aware scale; oracle 1e-9)",
]
ASSUMPTIONS = [
    "scipy.integrate.quad(epsabs=0, epsrel=1e-13) of the Lévy density on intervals that avoid / end at 0 (oracle only); measured "
    "agreement with the implementation <= 5e-15 relative over seeds 0..5, tolerance 1e-9",
    "the declared representation is changed with LevyTriplet.set_representation on the caller's model: its result a_R is taken as "
    "the declaration (whether the conversion is right is C10)",
]
TRUSTED = ["scipy.integrate.quad (oracle only)", "scipy.special functions inside the families' closed forms (C09)"]

warnings.filterwarnings("ignore", category=scipy.linalg.LinAlgWarning)
warnings.filterwarnings("ignore")

MEAN_REL = 1e-9
METHODS = {"INVERSION": SamplingMethod.INVERSION, "BINARYSEARCHTREEADAPTED1D": SamplingMethod.BINARYSEARCHTREEADAPTED1D}
REPS = {"ONEONE": LR.ONEONE, "TILDE": LR.TILDE, "CENTER": LR.CENTER, "ZERO": LR.ZERO}
MAXDEV = {"mean": 0.0, "eqdiff": 0.0, "var_ratio": 0.0, "margin_indep": 0.0}


# ------------------------------------------------------------------------------------------------------------ helpers
def the_product():
    return Product(payoff_underlying=Spot(), payoff=Vanilla(strike=100.0, payoff_type=PayoffType.CALL), maturity=1.0)


def axis_ok(ax, o):
    return 0 < o < len(ax) - 1 and ax[o] == 0.0 and all(a < b for a, b in zip(ax, ax[1:]))


def grid_from_desc(model, gd):
    kw = {}
    for src, dst in (("tp", "truncation_probability"), ("nb", "nb_of_points" if gd["kind"] == "fixed" else "nb"),
                     ("tr", "truncations"), ("mps", "minimum_probability_step"), ("a", "level_a"), ("sym", "symmetric_grid")):
        if src in gd:
            kw[dst] = tuple(gd[src]) if src == "tr" else gd[src]
    g, _ = zoo.make_grid(gd["kind"], model, gd["h"], dimension=gd.get("dim", 1), **kw)
    return g


def mid_table(g, ax):
    if not isinstance(g, zoo.CTMCGridProbabilityStep):
        return "[]"
    rows, seen, n = [], set(), len(ax)
    for k in range(n):
        for a, b in ((ax[max(0, k - 1)], ax[k]), (ax[k], ax[min(n - 1, k + 1)])):
            if (a, b) not in seen:
                seen.add((a, b))
                rows.append([a, b, float(g.middle(a, b))])
    return wll(rows)


def Q(f, a, b):
    if not a < b:
        return 0.0
    return quad(f, a, b, epsabs=0.0, epsrel=1e-13, limit=400)[0]


def cutoff(rep, fv):
    """V such that h_R(x) = x for |x| < V and 0 otherwise; None for h_R(x) = x everywhere"""
    return {LR.ZERO: 0.0, LR.ONEONE: 1.0, LR.TILDE: 0.0 if fv else 1.0, LR.CENTER: None}[rep]


def truncated_mean(density, l, r, rep, fv, exact_first=None):
    """∫_[l,r] (x - h_R(x)) ν(x) dx and ∫ |x - h_R(x)| ν (scale), by quadrature of the density (exact antiderivative of the
    piecewise-constant synthetic density: quad does not see its jumps)"""
    V = cutoff(rep, fv)
    if V is None:
        return 0.0, 0.0
    if exact_first is not None:
        E = lambda a, b: exact_first(a, b) if a < b else 0.0
        left, right = E(l, min(-V, r)), E(max(V, l), r)
        return left + right, abs(left) + abs(right)
    f = lambda x: x * density(x)
    g = lambda x: abs(x) * density(x)
    return (Q(f, l, min(-V, r)) + Q(f, max(V, l), r)), (Q(g, l, min(-V, r)) + Q(g, max(V, l), r))


def guarded(ctx, d, cls, fn, *a, **k):
    try:
        return fn(*a, **k)
    except Infra:
        raise
    except Exception as e:
        frames = traceback.extract_tb(e.__traceback__)
        if not any("/rpylib/" in f.filename for f in frames):
            raise
        where = [f"{f.filename.split('/rpylib/')[-1]}:{f.lineno}" for f in frames if "/rpylib/" in f.filename][-3:]
        ctx.fail("oracle", "c04.chain.raises", d, {"exception": repr(e)[:400], "where": where}, cls=cls)


class Recorder:
    """records the intervals handed to one bound method of the chain's Lévy measure (instance-level patch)"""

    def __init__(self, obj, name):
        self.obj, self.name, self.calls = obj, name, []
        self.orig = getattr(obj, name)

    def __enter__(self):
        def rec(a, b, *rest):
            self.calls.append((float(a), float(b)))
            return self.orig(a, b, *rest)
        setattr(self.obj, self.name, rec)
        return self

    def __exit__(self, *exc):
        try:
            delattr(self.obj, self.name)
        except AttributeError:
            setattr(self.obj, self.name, self.orig)
        return False


# ------------------------------------------------------------------------------------------------- one 1-d chain
def chain_probe(ctx, d, cls, model, rep, g, method_name, corr=True, density=None, exact_second=None, exact_first=None):
    """model: the caller's model already declared in representation `rep` (rep None: as constructed)"""
    prod = the_product()
    ax = [float(x) for x in g.axes[0]]
    o = int(g.origin_coordinate.value)
    n = len(ax)
    h = float(g.h)
    nu0 = model.levy_triplet.nu                       # the caller's (untruncated) measure
    a_decl = float(model.levy_triplet.a)
    rep = rep if rep is not None else model.levy_triplet.representation
    fv = bool(model.jump_of_finite_variation())
    mdrift = float(np.ravel(model.drift())[0]) if np.ndim(model.drift()) else float(model.drift())
    sigma = float(model.diffusion_coefficient())
    mc = MarkovChainProcess(model, METHODS[method_name], g)
    nu_t = mc.model.levy_triplet.nu
    with Recorder(nu_t, "integrate") as rec:
        mc.initialisation(prod)
    walked = list(rec.calls)
    drift = float(np.ravel(mc.process_drift())[0])
    q = [float(x) for x in create_q_vector(nu_t, g)]
    eq = float(mc.equivalent_diffusion_coefficient)
    a_tilde = float(mc.model.levy_triplet.a)
    ctx.count("c04.chain1d", d, nontrivial=n >= 5, branch=f"{cls.get('kind')}:{cls.get('family')}:{rep.name}:{'fv' if fv else 'iv'}")
    ctx.branches[f"c04.chain1d:process_representation:{mc.process_representation.name}"] += 1
    jump_mean = math.fsum(x * y for x, y in zip(ax, q))
    abs_jump = math.fsum(abs(x) * y for x, y in zip(ax, q))
    chain_mean = drift + jump_mean
    if not all(math.isfinite(v) for v in (drift, eq, a_tilde, jump_mean)):
        ctx.fail("oracle", "c04.chain.nonfinite", d, {"process_drift": drift, "eqdiff": eq, "a_tilde": a_tilde, "jump_mean": jump_mean}, cls=cls)
        return
    # ---- S: compute_mu_h walks exactly the cells the rates are computed on (the implementation's own cells)
    lo = [float(g.middle(g.left_point(k), ax[k])) for k in range(n)]
    hi = [float(g.middle(ax[k], g.right_point(k))) for k in range(n)]
    cells = [(lo[k], hi[k]) for k in range(n) if k != o]
    if walked != cells:
        bad = next((i for i, (a, b) in enumerate(zip(walked, cells)) if a != b), min(len(walked), len(cells)))
        ctx.fail("oracle", "c04.muh_uses_cells", d, {"position": bad, "walked": walked[bad:bad + 2], "cells": cells[bad:bad + 2],
                                                   "n_walked": len(walked), "n_cells": len(cells)}, cls=cls)
        return
    # ---- S: the mean, independently (quadrature of the density; declared representation; truncated support)
    dens = density if density is not None else nu0
    I, S = truncated_mean(dens, ax[0], ax[-1], rep, fv, exact_first=exact_first)
    expected = mdrift + a_decl + I
    scale = abs(mdrift) + abs(a_decl) + S + abs_jump
    dev = abs(chain_mean - expected) / max(scale, 1e-300)
    MAXDEV["mean"] = max(MAXDEV["mean"], dev)
    if not dev <= MEAN_REL:
        ctx.fail("oracle", "c04.chain_mean", d, {"process_drift": drift, "jump_mean": jump_mean, "chain_mean": chain_mean,
                                               "model_drift": mdrift, "declared_a": a_decl, "declared_representation": rep.name,
                                               "quadrature_of_(x-h(x))nu_on_truncated_support": I, "expected_mean": expected,
                                               "relative_deviation": dev, "finite_variation": fv, "truncation": [ax[0], ax[-1]]}, cls=cls)
        return
    # ---- S: small jumps -> Brownian motion iff infinite variation
    ca, cb = max(-h / 2, -1.0, ax[0]), min(h / 2, 1.0, ax[-1])
    f2 = lambda x: x * x * dens(x)
    if fv:
        if eq != sigma:
            ctx.fail("oracle", "c04.eqdiff", d, {"finite_variation": True, "equivalent_diffusion_coefficient": eq, "sigma": sigma}, cls=cls)
            return
        central2 = None
    else:
        central2 = Q(f2, ca, 0.0) + Q(f2, 0.0, cb)
        dv = abs(eq * eq - sigma * sigma - central2) / max(sigma * sigma + central2, 1e-300)
        MAXDEV["eqdiff"] = max(MAXDEV["eqdiff"], dv)
        if not dv <= 1e-8:
            ctx.fail("oracle", "c04.eqdiff", d, {"finite_variation": False, "eqdiff_squared": eq * eq, "sigma_squared": sigma * sigma,
                                               "quadrature_x2_nu_central": central2, "central_interval": [ca, cb]}, cls=cls)
            return
    # ---- S: variance gap (neighbours of 0 are -h, +h: the central interval is the origin's cell)
    if math.isclose(ax[o - 1], -h, rel_tol=1e-12) and math.isclose(ax[o + 1], h, rel_tol=1e-12) and h <= 2 and lo[o] < 0 < hi[o]:
        out2 = Q(f2, ax[0], lo[o]) + Q(f2, hi[o], ax[-1]) if exact_second is None else exact_second(ax[0], lo[o]) + exact_second(hi[o], ax[-1])
        if central2 is None:
            central2 = (Q(f2, lo[o], 0.0) + Q(f2, 0.0, hi[o])) if exact_second is None else exact_second(lo[o], hi[o])
        var_model = sigma * sigma + central2 + out2
        var_chain = eq * eq + math.fsum(x * x * y for x, y in zip(ax, q))
        osc = math.fsum((max(lo[k] ** 2, hi[k] ** 2) - min(lo[k] ** 2, hi[k] ** 2)) * q[k] for k in range(n) if k != o)
        bound = osc + (central2 if fv else 0.0)
        gap = abs(var_chain - var_model)
        if bound > 0:
            MAXDEV["var_ratio"] = max(MAXDEV["var_ratio"], gap / bound)
        if not gap <= bound * (1 + 1e-9) + 1e-12 * max(var_model, 1e-300):
            ctx.fail("oracle", "c04.variance_gap", d, {"variance_of_approximation": var_chain, "variance_of_truncated_model": var_model,
                                                     "gap": gap, "weighted_oscillation": osc, "central_second_moment": central2,
                                                     "finite_variation": fv}, cls=cls)
            return
        ctx.branches["c04.variance_gap_checked"] += 1
    if not corr:
        return
    # ---- C: the model, fed the untruncated measure's own integrals at the intervals it asks for
    tbl = mid_table(g, ax)
    head = f"{wl(ax)} {o} {w(h)} {tbl} {1 if fv else 0}"
    out = ctx.lean(f"queries {head}").split(" ")
    qm, q1, q2 = rdll(out[0]), rdll(out[1]), rdll(out[2])
    try:
        mv = [float(nu0.integrate(float(a), float(b))) for a, b in qm]
        m1v = [float(nu0.integrate_against_x(float(a), float(b))) for a, b in q1]
        m2v = [float(nu0.integrate_against_xx(float(a), float(b))) for a, b in q2] if not fv else [0.0 for _ in q2]
    except Exception as e:
        ctx.fail("corr", "c04.queries.model", d, {"name": "Drivers/C04 queries: interval rejected by the measure", "exception": repr(e)[:200]}, cls=cls)
        return
    if not all(math.isfinite(v) for v in mv + m1v + m2v):
        ctx.branches["c04.corr_skipped_nonfinite_integral"] += 1
        return
    out = ctx.lean(f"chain {head} {w(sigma)} {w(mdrift)} {w(a_tilde)} {wl(mv)} {wl(m1v)} {wl(m2v)} []").split(" ")
    if out[0] == "bad-op":
        raise Infra("Drivers/C04 chain rejected its own query list")
    m_muh, m_mut, m_drift, m_eq2, m_jm, m_mean, m_j2, m_osc, m_walked = (rd(out[0]), rd(out[1]), rd(out[2]), rd(out[3]), rd(out[4]),
                                                                       rd(out[5]), rd(out[6]), rd(out[7]), rdll(out[8]))
    sc = fr(abs(mdrift) + abs(a_tilde) + sum(abs(v) for v in m1v) + abs_jump)
    sc = max(sc, Fraction(1, 2 ** 200))
    span = fr(max(abs(ax[0]), abs(ax[-1])))
    if len(m_walked) != len(walked) or not all(close(a, x, scale=span) and close(b, y, scale=span) for (a, b), (x, y) in zip(walked, m_walked)):
        ctx.fail("corr", "c04.muhcells.model", d, {"name": "Drivers/C04 muHCells vs the intervals compute_mu_h integrates over",
                                                 "impl": walked[:4], "model": [[str(x) for x in r] for r in m_walked[:4]]}, cls=cls)
        return
    if not close(drift, m_drift, scale=sc):
        ctx.fail("corr", "c04.process_drift.model", d, {"name": "Drivers/C04 processDrift vs MarkovChainProcess.process_drift()",
                                                      "impl": drift, "model": str(m_drift), "model_float": float(m_drift),
                                                      "muH": float(m_muh), "muTilde": float(m_mut), "a_tilde": a_tilde}, cls=cls)
        return
    if not close(jump_mean, m_jm, scale=max(fr(abs_jump), Fraction(1, 2 ** 200))):
        ctx.fail("corr", "c04.jump_mean.model", d, {"name": "Drivers/C04 jumpMean vs sum x_k q_k", "impl": jump_mean, "model": str(m_jm)}, cls=cls)
        return
    if not close(eq * eq, m_eq2, scale=max(abs(m_eq2), Fraction(1, 2 ** 200))):
        ctx.fail("corr", "c04.eqdiff.model", d, {"name": "Drivers/C04 eqDiffSq vs equivalent_diffusion_coefficient²", "impl": eq * eq,
                                               "model": str(m_eq2), "finite_variation": fv}, cls=cls)
        return


def reps_for(model):
    fv = bool(model.jump_of_finite_variation())
    return ["ONEONE", "TILDE", "CENTER"] + (["ZERO"] if fv else [])


def run_1d(ctx, nmodels, corr=True):
    rng = ctx.rng
    hs = [0.2, 0.1, 0.05]
    for fam, params in zoo.model_stream(rng, nmodels):
        exp = rng.random() < 0.5
        for rep_name in rng.sample(["AS_BUILT", "ONEONE", "TILDE", "CENTER", "ZERO"], 2):
            model = zoo.make_exp(fam, params) if exp else zoo.make_levy(fam, params)
            if rep_name == "ZERO" and not model.jump_of_finite_variation():
                rep_name = "AS_BUILT"
            rep = None
            if rep_name != "AS_BUILT":
                rep = REPS[rep_name]
                model.levy_triplet.set_representation(rep)
            if not math.isfinite(float(model.levy_triplet.a)):
                ctx.branches[f"c04.declared_a_nonfinite:{fam}:{rep_name}"] += 1
                continue
            kind = rng.choice(zoo.GRID_KINDS)
            h = rng.choice(hs)
            kw = {}
            if kind in ("uniform", "geometric"):
                kw["truncation_probability"] = rng.choice([0.99, 0.999, 0.99999])
            if kind in ("geometric", "geometric_bounds"):
                kw["nb"] = rng.choice([2, 3, 5, 8])
            if kind == "geometric_bounds":
                kw["truncations"] = (-rng.choice([0.5, 1.0, 2.0]), rng.choice([0.75, 1.5, 3.0]))
            if kind == "fixed":
                kw["nb_of_points"] = rng.choice([5, 9, 21, 41])
            if kind == "probstep":
                kw["minimum_probability_step"] = rng.choice([0.05, 0.1, 0.2])
                h = max(h, 0.05)
            if kind == "credit":
                kw["level_a"] = -rng.choice([0.25, 0.3, 0.5])
            try:
                g, gd = zoo.make_grid(kind, model, h, **kw)
            except Exception as e:
                ctx.branches[f"c04.ctor_raises:{kind}:{type(e).__name__}"] += 1
                continue
            ax0 = [float(x) for x in g.axes[0]]
            if not axis_ok(ax0, int(g.origin_coordinate.value)):
                ctx.branches[f"c04.skipped_not_wellformed:{kind}"] += 1
                continue
            k = rng.randint(0, 2 if kind != "probstep" else 1)
            while k > 0 and (len(ax0) - 1) * 2 ** k + 1 > 500:
                k -= 1
            for _ in range(k):
                g.refine()
            if not axis_ok([float(x) for x in g.axes[0]], int(g.origin_coordinate.value)):
                ctx.branches[f"c04.skipped_not_wellformed_after_refine:{kind}"] += 1
                continue
            method = "INVERSION" if rng.random() < 0.7 else "BINARYSEARCHTREEADAPTED1D"
            d = dict(stream="1d", family=fam, params=params, exp=exp, rep=rep_name, grid=gd, k=k, method=method)
            cls = dict(stream="1d", kind=kind, family=fam, dimension=1)
            guarded(ctx, d, cls, chain_probe, ctx, d, cls, model, rep, g, method, corr=corr)


# ------------------------------------------------------------------------------------------------- synthetic
def synthetic_case(rng):
    n_left, n_right = rng.randint(2, 6), rng.randint(2, 6)
    h = rng.choice([1.0, 0.5, 0.25])
    steps = lambda m: list(np.cumsum([h] + [rng.randint(1, 32) / 32 for _ in range(m - 1)]))
    axis = [float(-x) for x in steps(n_left)][::-1] + [0.0] + [float(x) for x in steps(n_right)]
    span = max(-axis[0], axis[-1])
    kn = sorted({round(rng.randint(-64, 64) / 16 * (span / 4 if rng.random() < 0.5 else span / 2) * 64) / 64 for _ in range(rng.randint(2, 9))})
    if len(kn) < 2:
        kn = [-span, span]
    heights = [rng.choice([0, 1, 2, 3, 5, 8]) / 4 for _ in range(len(kn) - 1)]
    return dict(stream="synthetic", axis=axis, o=n_left, h=h, knots=[float(x) for x in kn], heights=heights, k=rng.randint(0, 2),
                a=rng.randint(-16, 16) / 8, sigma=rng.choice([0.0, 0.25, 0.5]), rep=rng.choice(["ZERO", "ONEONE", "TILDE", "CENTER"]),
                method=rng.choice(list(METHODS)))


def synthetic_probe(ctx, d, corr=True):
    tm = zoo.TableMeasure(d["knots"], d["heights"])
    model = zoo.make_levy("hem", dict(sigma=d["sigma"]))
    model.levy_triplet.nu = tm
    model.levy_triplet.a = d["a"]
    model.levy_triplet.representation = REPS[d["rep"]]          # declared: (a, sigma, table measure) in representation rep
    g = zoo.CTMCGrid(h=d["h"], origin_coordinate=d["o"], axes=[np.array(d["axis"])])
    for _ in range(d["k"]):
        g.refine()
    half = Fraction(d["h"]) / 2 ** (d["k"] + 1)
    if tm._exact(d["axis"][0], -half, 0) + tm._exact(half, d["axis"][-1], 0) == 0:
        ctx.branches["c04.synthetic:zero_intensity_skipped"] += 1
        return
    cls = dict(stream="synthetic", kind="synthetic", family="table", dimension=1)
    guarded(ctx, d, cls, chain_probe, ctx, d, cls, model, REPS[d["rep"]], g, d["method"], corr=corr, density=tm,
            exact_second=lambda a, b: float(tm._exact(a, b, 2)), exact_first=lambda a, b: float(tm._exact(a, b, 1)))


# ------------------------------------------------------------------------------------------------- copula margins
def copula_case(rng):
    margins = [(f, zoo.draw_params(rng, f, y_branch=rng.choice([-0.5, 0.0, 0.5]) if f == "cgmy" else None) if rng.random() < 0.6 else
                ({} if f != "cgmy" else dict(c=0.5, g=10.0, m=12.0, y=0.5)))
               for f in (rng.choice(zoo.FAMILIES) for _ in range(2))]
    cop = rng.choice(zoo.COPULAS)
    cop_kw = dict(theta=rng.choice([0.3, 0.7, 1.0, 2.5]), eta=rng.choice([0.1, 0.3, 0.5, 0.9])) if cop == "clayton" else {}
    if rng.random() < 0.7:
        gd = dict(kind="fixed", h=rng.choice([0.2, 0.1, 0.05]), nb=rng.choice([5, 7]), dim=2)
    else:
        gd = dict(kind="credit_nd", h=rng.choice([0.1, 0.05]), a=[-rng.choice([0.25, 0.3, 0.4]) for _ in range(2)], sym=False, dim=2)
    return dict(stream="copula", margins=margins, copula=cop, copula_kw=cop_kw, grid=gd, k=rng.choice([0, 0, 1]), exp=rng.random() < 0.4)


def build_copula(d):
    mk = zoo.make_exp if d.get("exp") else zoo.make_levy
    margins = [mk(f, p) for f, p in d["margins"]]
    cm = zoo.make_copula_model(margins, zoo.make_copula(d["copula"], **d["copula_kw"]))
    gd = d["grid"]
    if gd["kind"] == "credit_nd":
        g = zoo.CTMCCredit(h=gd["h"], level_a=list(gd["a"]), model=cm, symmetric_grid=gd["sym"])
    else:
        g = grid_from_desc(None, gd)
    for _ in range(d["k"]):
        g.refine()
    return cm, g


def copula_probe(ctx, d, corr=True):
    cls = dict(stream="copula", copula=d["copula"], dimension=2, grid=d["grid"]["kind"])
    guarded(ctx, d, cls, _copula_probe, ctx, d, cls, corr)


def _copula_probe(ctx, d, cls, corr):
    try:
        cm, g = build_copula(d)
    except Exception as e:
        ctx.branches[f"c04.ctor_raises:copula:{d['grid']['kind']}:{type(e).__name__}"] += 1
        return
    axes = zoo.axis_list(g)
    o = int(list(g.origin_coordinate)[0])
    if not all(axis_ok(ax, o) for ax in axes) or len({len(ax) for ax in axes}) != 1:
        ctx.branches[f"c04.skipped_not_wellformed:copula:{d['grid']['kind']}"] += 1
        return
    if not cm.jump_of_finite_variation():
        ctx.branches["c04.copula_skipped_infinite_variation"] += 1   # the constructor's nquad pool: variance_matrix_probe's subject
        return
    prod = the_product()
    h = float(g.h)
    n = len(axes[0])
    mc = MarkovChainLevyCopula(cm, g, SamplingMethod.BINARYSEARCHTREEADAPTED)
    recs = [Recorder(m.levy_triplet.nu, "integrate") for m in mc.model.models]
    for r in recs:
        r.__enter__()
    try:
        mc.initialisation(prod)
    finally:
        for r in recs:
            r.__exit__()
    drift = [float(x) for x in np.ravel(mc.process_drift())]
    states = list(itertools.product(range(n), repeat=2))
    origin = (o, o)
    rate = {}
    for cs in states:
        if cs == origin:
            rate[cs] = 0.0
            continue
        pt = Coordinates(cs)
        a = tuple(float(x) for x in g.middle(g.left_point(pt), g[pt]))
        b = tuple(float(x) for x in g.middle(g[pt], g.right_point(pt)))
        rate[cs] = float(mc.model.mass(a, b))
    lam = float(mc.intensity_of_jumps)
    ctx.count("c04.copula", d, nontrivial=n >= 5, branch=f"{d['copula']}:{d['grid']['kind']}:k{d['k']}")
    for k in range(2):
        dk = dict(d, margin=k)
        ax = axes[k]
        caller = cm.models[k]                          # declared representation: as built
        nu0 = caller.levy_triplet.nu
        rep = caller.levy_triplet.representation
        fv = bool(cm.jump_of_finite_variation())       # V of the copula chain: max Blumenthal-Getoor index over the margins
        a_decl = float(caller.levy_triplet.a)
        mdrift = float(np.ravel(caller.drift())[0]) if np.ndim(caller.drift()) else float(caller.drift())
        cols = [math.fsum(rate[cs] for cs in states if cs[k] == i) for i in range(n)]
        jump_mean = math.fsum(x * c for x, c in zip(ax, cols))
        abs_jump = math.fsum(abs(x) * c for x, c in zip(ax, cols))
        margin_mean = drift[k] + jump_mean
        # S: the margin's mean against the truncated margin in its declared representation (tilde cut-off V of the copula)
        I, S = truncated_mean(nu0, ax[0], ax[-1], rep, bool(caller.jump_of_finite_variation()))
        expected = mdrift + a_decl + I
        scale = abs(mdrift) + abs(a_decl) + S + abs_jump
        dev = abs(margin_mean - expected) / max(scale, 1e-300)
        # S: compute_mu_h walks the cells of the axis it is given
        unequal = axes[0] != ax
        walked = recs[k].calls
        lo = [0.5 * (ax[max(0, i - 1)] + ax[i]) for i in range(n)]
        hi = [0.5 * (ax[i] + ax[min(n - 1, i + 1)]) for i in range(n)]
        own_cells = [(lo[i], hi[i]) for i in range(n) if i != o]
        kcls = dict(cls, copula_dependent=d["copula"] != "independent", unequal_axes=unequal, margin_ge_1=k >= 1)
        # C: the model's margin (since /repo fix of compute_mu_h the neighbours are those of the walked axis itself: the
        #    model's neighbour axis ax0 is the axis), then with the column sums
        mirrors, cells_mirror = None, None
        if corr:
            nu_t = mc.model.models[k].levy_triplet.nu
            a_tilde = float(mc.model.models[k].levy_triplet.a)
            sigma = float(caller.diffusion_coefficient())
            m_walked = rdll(ctx.lean(f"muhcells {wl(ax)} {wl(ax)} {o} []"))
            span = fr(max(abs(ax[0]), abs(ax[-1])))
            cells_mirror = len(m_walked) == len(walked) and all(close(a, x, scale=span) and close(b, y, scale=span)
                                                                for (a, b), (x, y) in zip(walked, m_walked))
            if not cells_mirror:
                ctx.fail("corr", "c04.muhcells.model", dk, {"name": "Drivers/C04 muHCells(axis, axis) vs the intervals compute_mu_h integrates over (margin)",
                                                          "impl": walked[:4], "model": [[str(x) for x in r] for r in m_walked[:4]]}, cls=cls)
                return
            head = f"{wl(ax)} {o} {w(h)} [] {1 if fv else 0}"
            qs = ctx.lean(f"queries {head}").split(" ")
            qm, q1 = rdll(qs[0]), rdll(qs[1])
            mv = [float(nu0.integrate(float(a), float(b))) for a, b in qm]
            m1v = [float(nu0.integrate_against_x(float(a), float(b))) for a, b in q1]
            out = ctx.lean(f"chain {head} {w(sigma)} {w(mdrift)} {w(a_tilde)} {wl(mv)} {wl(m1v)} [0] []").split(" ")
            m_mut = rd(out[1])
            vals = [float(nu_t.integrate(float(a), float(b))) for a, b in m_walked]
            m_muh = rd(ctx.lean(f"muh2 {wl(ax)} {wl(ax)} {o} [] {wl(vals)}"))
            m_drift = fr(mdrift) + fr(a_tilde) + m_mut - m_muh
            m_colmean = m_drift + sum((fr(x) * fr(c) for x, c in zip(ax, cols)), Fraction(0))
            sc = max(fr(abs(mdrift) + abs(a_tilde) + sum(abs(v) for v in m1v) + abs_jump), Fraction(1, 2 ** 200))
            if not close(drift[k], m_drift, scale=sc):
                ctx.fail("corr", "c04.process_drift.model", dk, {"name": "Drivers/C04 modelDrift + aTilde + muTilde - muH(axis, axis) vs "
                                                                       "MarkovChainLevyCopula.process_drift()[k]", "impl": drift[k], "model": str(m_drift)}, cls=cls)
                return
            mirrors = close(margin_mean, m_colmean, scale=sc)
            if not mirrors:
                ctx.fail("corr", "c04.margin_mean.model", dk, {"name": "Drivers/C04 processDrift + sum x_k col_k vs the implementation",
                                                             "impl": margin_mean, "model": str(m_colmean)}, cls=cls)
                return
            if unequal:
                ctx.branches["c04.copula:unequal_axes_margin"] += 1
        if walked != own_cells:
            bad = next((i for i, (a, b) in enumerate(zip(walked, own_cells)) if a != b), min(len(walked), len(own_cells)))
            ctx.fail("oracle", "c04.muh_uses_cells", dk, {"margin": k, "position": bad, "walked": walked[bad:bad + 2], "cells_of_the_axis": own_cells[bad:bad + 2],
                                                        "axes": axes}, cls=kcls, mirrors_model=cells_mirror)
        if d["copula"] == "independent" and not (unequal and k >= 1):
            MAXDEV["margin_indep"] = max(MAXDEV["margin_indep"], dev)
        if not dev <= MEAN_REL:
            ctx.fail("oracle", "c04.margin_mean", dk, {"margin": k, "process_drift": drift[k], "jump_mean_of_coordinate": jump_mean,
                                                     "margin_mean": margin_mean, "expected_mean_of_truncated_margin": expected,
                                                     "relative_deviation": dev, "lambda": lam},
                     cls=kcls, mirrors_model=mirrors)
            ctx.branches[f"c04.margin_mean_fails:{d['copula']}"] += 1
        else:
            ctx.branches[f"c04.margin_mean_holds:{d['copula']}"] += 1


# ------------------------------------------------------------------------------------------------- copula variance matrix (#27)
class SqrtmRecorder:
    """records every square matrix the constructor hands to a matrix factorisation (scipy.linalg.sqrtm / cholesky / eigh,
    numpy.linalg.eigh / cholesky / svd — module attributes patched for the duration): which factorisation the code uses to
    take the square root of its variance matrix is its own business, the property only speaks about the matrix"""
    TARGETS = [(scipy.linalg, "sqrtm"), (scipy.linalg, "cholesky"), (scipy.linalg, "eigh"), (np.linalg, "eigh"),
               (np.linalg, "cholesky"), (np.linalg, "svd")]

    def __enter__(self):
        self.args, self.orig = [], []
        for mod, name in self.TARGETS:
            orig = getattr(mod, name)
            self.orig.append((mod, name, orig))

            def rec(a, *r, _orig=orig, **k):
                try:
                    m = np.array(a, dtype=float, copy=True)
                    if m.ndim == 2 and m.shape[0] == m.shape[1]:
                        self.args.append(m)
                except Exception:
                    pass
                return _orig(a, *r, **k)
            setattr(mod, name, rec)
        return self

    def __exit__(self, *exc):
        for mod, name, orig in self.orig:
            setattr(mod, name, orig)
        return False


class PoolRecorder:
    """the constructor's own process pool (pathos), unchanged, with the results of `apply_async(...).get()` recorded together
    with the (i, j) they were computed for"""

    def __enter__(self):
        self.results, self.orig = [], mclc_mod.mp.Pool
        outer = self

        class Res:
            def __init__(self, r, args):
                self.r, self.args = r, args

            def get(self, *a, **k):
                v = self.r.get(*a, **k)
                outer.results.append(((int(self.args[0]), int(self.args[1])), float(v)))
                return v

        class Pool:
            def __init__(self, *a, **k):
                self.p = outer.orig(*a, **k)

            def __enter__(self):
                self.p.__enter__()
                return self

            def __exit__(self, *e):
                return self.p.__exit__(*e)

            def apply_async(self, f, args=(), **k):
                return Res(self.p.apply_async(f, args=args, **k), args)
        mclc_mod.mp.Pool = Pool
        return self

    def __exit__(self, *exc):
        mclc_mod.mp.Pool = self.orig
        return False


class ScriptedVolAdj:
    """stands for vol_adjustment_ij in the scripted stream: prescribed (dyadic) results, picklable for the pool"""

    def __init__(self, table):
        self.table = dict(table)

    def __call__(self, i, j, h, levy_model):
        return self.table[(int(i), int(j))]


def matrix_checks(ctx, d, cls, dim, fv, outs_ij, sig, Vs, D, exact, corr=True):
    """C: the matrices handed to sqrtm against M's assembly of the same results; S: what `variance_matrix_as_built` and
    `symm_sqrt_cov` state, on the implementation: symmetric, positive semi-definite, diagonal >= sigma², and the factor the
    simulation uses reproduces it (D·Dᵀ = variance matrix, whichever factorisation is called)"""
    order = [(i, j) for i in range(dim) for j in range(i, dim)]
    if not fv and [ij for ij, _ in outs_ij] != order:
        ctx.fail("oracle", "c04.variance_matrix.order", d, {"what": "vol_adjustment_ij is not evaluated once per pair i <= j in the "
                 "order the assembly loop consumes", "pairs_evaluated": [list(ij) for ij, _ in outs_ij]}, cls=cls)
        return None
    if fv and outs_ij:
        ctx.fail("oracle", "c04.variance_matrix.order", d, {"what": "finite variation: vol_adjustment_ij evaluated although no small-jump "
                 "term is added", "pairs_evaluated": [list(ij) for ij, _ in outs_ij]}, cls=cls)
        return None
    outs = [v for _, v in outs_ij]
    Dc0 = np.asarray(D)
    Vs = [W for W in Vs if W.shape == (dim, dim)]
    if not Vs:
        # no recognised factorisation call: take the covariance per unit time the simulation actually uses, D·Dᵀ, as the
        # variance matrix (then compared with M's assembly at 2^-40, not bit for bit)
        if not np.all(np.isfinite(Dc0.real)):
            ctx.fail("oracle", "c04.diffusion_factor", d, {"what": "diffusion matrix has non-finite entries", "diffusion_matrix": str(Dc0.tolist())[:400]}, cls=cls)
            return None
        Dr0 = np.asarray(Dc0.real, dtype=float)
        Vs, exact = [Dr0 @ Dr0.T], False
    V = Vs[-1]
    if any(not np.array_equal(V, W) for W in Vs):
        ctx.fail("oracle", "c04.variance_matrix.deterministic", d, {"what": "two constructions of the simulation object of the same chain "
                 "hand different matrices to the factorisation", "first": Vs[0].tolist(), "last": V.tolist()}, cls=cls)
        return None
    mirrors = None
    if corr:
        x = [Fraction(ctx.rng.randint(-8, 8), 4) for _ in range(dim)]
        out = ctx.lean(f"assemble {dim} {1 if fv else 0} {wl(outs)} {wl(sig)} {wl(x)}").split(" ")
        if out[0] == "bad-op":
            raise Infra("Drivers/C04 assemble rejected its input")
        adj, coded, spec, symm, qf = rdll(out[0]), rdll(out[1]), rdll(out[2]), out[3], rd(out[4])
        if symm != "1" or qf < 0:
            ctx.fail("proof", "c04.variance_matrix.theorem", d, {"name": "variance_matrix_as_built contradicted by the driver", "symm": symm,
                                                                  "quadratic_form": str(qf)}, cls=cls)
            return None
        mirrors = True
        for i in range(dim):
            for j in range(dim):
                sc = sum((abs(adj[i][k] * adj[j][k]) for k in range(dim)), Fraction(0)) + (fr(sig[i]) ** 2 if i == j else 0)
                ok = (fr(float(V[i][j])) == coded[i][j]) if exact else close(float(V[i][j]), coded[i][j], scale=max(sc, Fraction(1, 2 ** 200)))
                if not ok and mirrors:
                    mirrors = False
                    ctx.fail("corr", "c04.variance_matrix.model", d, {"name": "Drivers/C04 assemble (adj from the results in loop order, adj·adjᵀ + diag σ²) "
                             "vs the matrix handed to sqrtm", "entry": [i, j], "impl": float(V[i][j]), "model": str(coded[i][j]),
                             "results": outs}, cls=cls)
    top = max(float(np.max(np.abs(V))), 1e-300)
    asym = float(np.max(np.abs(V - V.T)))
    if asym > 1e-12 * top:
        ctx.fail("oracle", "c04.variance_matrix.symmetric", d, {"variance_matrix": V.tolist(), "max_asymmetry": asym}, cls=cls, mirrors_model=mirrors)
        return mirrors
    ev = np.linalg.eigvalsh((V + V.T) / 2)
    if float(ev[0]) < -1e-10 * top:
        ctx.fail("oracle", "c04.variance_matrix.psd", d, {"variance_matrix": V.tolist(), "smallest_eigenvalue": float(ev[0])}, cls=cls, mirrors_model=mirrors)
        return mirrors
    bad = [k for k in range(dim) if not V[k][k] >= sig[k] ** 2 * (1 - 1e-12)]
    if bad:
        ctx.fail("oracle", "c04.variance_matrix.diag", d, {"margin": bad[0], "diag": [float(V[k][k]) for k in range(dim)], "sigma": sig}, cls=cls, mirrors_model=mirrors)
        return mirrors
    Dc = np.asarray(D)
    if np.iscomplexobj(Dc) and float(np.max(np.abs(Dc.imag))) > 1e-8 * math.sqrt(top):
        ctx.fail("oracle", "c04.diffusion_factor", d, {"what": "diffusion matrix is not real", "diffusion_matrix": str(Dc.tolist())[:400]}, cls=cls, mirrors_model=mirrors)
        return mirrors
    Dr = np.asarray(Dc.real, dtype=float)
    dev = float(np.max(np.abs(Dr @ Dr.T - V)))
    if not dev <= 1e-7 * top:
        ctx.fail("oracle", "c04.diffusion_factor", d, {"what": "covariance per unit time of the simulated diffusion part, D·Dᵀ, is not the variance "
                 "matrix the constructor computed", "D_Dt": (Dr @ Dr.T).tolist(), "variance_matrix": V.tolist(), "max_deviation": dev},
                 cls=cls, mirrors_model=mirrors)
        return mirrors
    ctx.branches[f"c04.variance_matrix_checked:d{dim}:{'fv' if fv else 'iv'}"] += 1
    return mirrors


def variance_matrix_probe(ctx, d, corr=True):
    """the real constructor (process pool + nquad).  C/S of `matrix_checks`; independent copula with infinite-variation margins in
    addition: the k-th diagonal entry of diffusion_matrix @ diffusion_matrix.T must be the variance the 1-d chain of margin k adds
    (sigma_k² + ∫ x² ν_k on the central cell)"""
    dim = d.get("dim", 2)
    margins = [zoo.make_levy(f, p) for f, p in d["margins"]]
    cm = zoo.make_copula_model(margins, zoo.make_copula(d["copula"], **d.get("copula_kw", {})))
    fv = bool(cm.jump_of_finite_variation())
    cls = dict(stream="variance_matrix", copula=d["copula"], dimension=dim, infinite_variation=not fv)
    g, _ = zoo.make_grid("fixed", None, d["h"], nb_of_points=5, dimension=dim)
    prod = the_product()
    with SqrtmRecorder() as sq, PoolRecorder() as pr:
        mc = MarkovChainLevyCopula(cm, g, SamplingMethod.BINARYSEARCHTREEADAPTED)
        n_first = len(pr.results)
        if d.get("init", True):
            mc.initialisation(prod)
    D = np.asarray(mc._path_simulation.diffusion_matrix)
    ctx.count("c04.variance_matrix", d, nontrivial=True, branch=f"{d['copula']}:d{dim}:{'fv' if fv else 'iv'}")
    sig = [float(m.diffusion_coefficient()) for m in margins]
    mirrors = matrix_checks(ctx, d, cls, dim, fv, pr.results[:n_first], sig, sq.args, D, exact=False, corr=corr)
    if d["copula"] != "independent" or fv:
        return
    V = np.asarray(D.real, dtype=float) @ np.asarray(D.real, dtype=float).T
    want = []
    for k, m in enumerate(margins):
        g1, _ = zoo.make_grid("fixed", None, d["h"], nb_of_points=5, dimension=1)
        want.append(float(MarkovChainProcess(m, SamplingMethod.INVERSION, g1).equivalent_diffusion_coefficient) ** 2)
    bad = [k for k in range(dim) if not abs(V[k][k] - want[k]) <= 2e-2 * want[k] + 2e-3]      # nquad runs with epsabs = 1e-3
    if bad:
        ctx.fail("oracle", "c04.copula_variance", d, {"margin": bad[0], "diag_of_D_Dt": [float(V[k][k]) for k in range(dim)],
                                                    "variance_of_the_1d_chain_of_the_margin": want, "diffusion_matrix": D.real.tolist()},
                 cls=cls, mirrors_model=mirrors)


SCRIPT_MARGINS = {True: [("hem", dict(sigma=0.0)), ("merton", dict(sigma=0.125)), ("hem", dict(sigma=0.25)), ("merton", dict(sigma=0.5))],
                  False: [("cgmy", dict(c=0.5, g=10.0, m=12.0, y=1.5)), ("hem", dict(sigma=0.25)), ("cgmy", dict(c=0.3, g=8.0, m=9.0, y=1.25)),
                          ("merton", dict(sigma=0.5))]}


def scripted_matrix_case(rng):
    dim = rng.choice([2, 3, 3, 4])
    fv = rng.random() < 0.25
    pool = SCRIPT_MARGINS[fv]
    margins = [pool[0]] + [rng.choice(pool) for _ in range(dim - 1)]       # pool[0] fixes the variation class of the copula
    table = [[i, j, rng.randint(-16, 16) / 16 if i != j else rng.randint(0, 16) / 16] for i in range(dim) for j in range(i, dim)]
    return dict(stream="variance_matrix_scripted", dim=dim, margins=margins, table=table, h=rng.choice([0.25, 0.125]))


def scripted_matrix_probe(ctx, d, corr=True):
    """the assembly / symmetrisation / adj·adjᵀ + σ² / sqrtm logic of `MCLevyCopulaSimulation.__init__` in d = 2, 3, 4 on prescribed
    dyadic results: the real class is constructed (real margins and copula model, the real process pool) with `vol_adjustment_ij`
    replaced by a table; finite variation: no result may be asked for"""
    import types
    dim = d["dim"]
    margins = [zoo.make_levy(f, p) for f, p in d["margins"]]
    cm = zoo.make_copula_model(margins, zoo.make_copula("independent"))
    fv = bool(cm.jump_of_finite_variation())
    cls = dict(stream="variance_matrix_scripted", dimension=dim, infinite_variation=not fv)
    table = {(int(i), int(j)): float(v) for i, j, v in d["table"]}
    stub = types.SimpleNamespace(model=cm, grid=types.SimpleNamespace(h=d["h"]))
    orig = mclc_mod.vol_adjustment_ij
    mclc_mod.vol_adjustment_ij = ScriptedVolAdj(table)
    try:
        with SqrtmRecorder() as sq, PoolRecorder() as pr:
            sim = mclc_mod.MCLevyCopulaSimulation(process=stub)
    finally:
        mclc_mod.vol_adjustment_ij = orig
    ctx.count("c04.variance_matrix_scripted", d, nontrivial=True, branch=f"d{dim}:{'fv' if fv else 'iv'}")
    sig = [float(m.diffusion_coefficient()) for m in margins]
    matrix_checks(ctx, d, cls, dim, fv, pr.results, sig, sq.args, sim.diffusion_matrix, exact=True, corr=corr)


# ------------------------------------------------------------------------------------------------------------ entry points
def run(ctx, corr=True):
    rng = ctx.rng
    run_1d(ctx, nmodels=ctx.n(40, 700), corr=corr)
    for _ in range(ctx.n(60, 1500)):
        synthetic_probe(ctx, synthetic_case(rng), corr=corr)
    for _ in range(ctx.n(16, 200)):
        copula_probe(ctx, copula_case(rng), corr=corr)
    c15, c13, c12 = ("cgmy", dict(c=0.5, g=10.0, m=12.0, y=1.5)), ("cgmy", dict(c=0.3, g=8.0, m=9.0, y=1.3)), ("cgmy", dict(c=0.4, g=6.0, m=7.0, y=1.2))
    vm = [dict(stream="variance_matrix", copula="independent", h=0.1, margins=[c15, c13]),
          dict(stream="variance_matrix", copula="clayton", copula_kw=dict(theta=0.7, eta=0.3), h=0.1, margins=[c15, c13]),
          dict(stream="variance_matrix", copula="independent", h=0.1, margins=[("hem", dict(sigma=0.25)), ("merton", {})])]
    if ctx.thorough:
        vm += [dict(stream="variance_matrix", copula="independent", h=rng.choice([0.2, 0.05]),
                    margins=[("cgmy", zoo.draw_params(rng, "cgmy", 1.5)), ("cgmy", zoo.draw_params(rng, "cgmy", 1.5))]) for _ in range(4)]
        vm += [dict(stream="variance_matrix", copula="clayton", copula_kw=dict(theta=rng.choice([0.3, 1.0, 2.5]), eta=rng.choice([0.1, 0.5, 0.9])),
                    h=rng.choice([0.2, 0.1]), margins=[("cgmy", zoo.draw_params(rng, "cgmy", 1.5)), ("hem", zoo.draw_params(rng, "hem"))])
               for _ in range(2)]
        vm += [dict(stream="variance_matrix", copula="independent", h=0.1, dim=3, init=False, margins=[c15, c13, c12])]
    for d in vm:
        guarded(ctx, d, dict(stream="variance_matrix", dimension=d.get("dim", 2)), variance_matrix_probe, ctx, d, corr=corr)
    for _ in range(ctx.n(12, 120)):
        d = scripted_matrix_case(rng)
        guarded(ctx, d, dict(stream="variance_matrix_scripted", dimension=d["dim"]), scripted_matrix_probe, ctx, d, corr=corr)
    ctx.notes.append(f"largest deviations: mean oracle {MAXDEV['mean']:.2e} (tolerance {MEAN_REL}), eqDiff² vs quadrature {MAXDEV['eqdiff']:.2e} "
                     f"(1e-8), variance gap / bound {MAXDEV['var_ratio']:.3f} (<= 1), independent-copula margin mean {MAXDEV['margin_indep']:.2e}")


def search(ctx):
    run_1d(ctx, nmodels=ctx.n(60, 400), corr=False)
    for _ in range(ctx.n(200, 1000)):
        synthetic_probe(ctx, synthetic_case(ctx.rng), corr=False)
    for _ in range(ctx.n(20, 100)):
        copula_probe(ctx, copula_case(ctx.rng), corr=False)
    for _ in range(ctx.n(40, 200)):
        d = scripted_matrix_case(ctx.rng)
        guarded(ctx, d, dict(stream="variance_matrix_scripted", dimension=d["dim"]), scripted_matrix_probe, ctx, d, corr=False)


def replay(ctx, rec):
    d = rec["input"]
    s = d.get("stream")
    if s == "synthetic":
        synthetic_probe(ctx, d)
    elif s == "1d":
        model = zoo.make_exp(d["family"], d["params"]) if d.get("exp") else zoo.make_levy(d["family"], d["params"])
        rep = None
        if d["rep"] != "AS_BUILT":
            rep = REPS[d["rep"]]
            model.levy_triplet.set_representation(rep)
        g = grid_from_desc(model, d["grid"])
        for _ in range(d["k"]):
            g.refine()
        cls = rec.get("cls") or dict(stream="1d", kind=d["grid"]["kind"], family=d["family"], dimension=1)
        guarded(ctx, d, cls, chain_probe, ctx, d, cls, model, rep, g, d["method"])
    elif s == "copula":
        d = {k: v for k, v in d.items() if k != "margin"}
        copula_probe(ctx, dict(d, margins=[tuple(m) for m in d["margins"]]))
    elif s == "variance_matrix":
        variance_matrix_probe(ctx, dict(d, margins=[tuple(m) for m in d["margins"]]))
    elif s == "variance_matrix_scripted":
        scripted_matrix_probe(ctx, dict(d, margins=[tuple(m) for m in d["margins"]]))
    else:
        raise Infra(f"unknown replay record stream {s!r}")
