"""C04 — Drift compensation: the chain reproduces the mean of the process it replaces   (DESIGN.md §4 C04).

C (correspondence): real chains (`MarkovChainProcess(model, method, grid).initialisation(product)`, `process_drift()`,
`equivalent_diffusion_coefficient`, the intervals `compute_mu_h` hands to `integrate`) against the Lean model
RpylibModel/Model/Drift.lean run by Drivers/C04.lean, the model being fed the *untruncated* measure's own
`integrate / integrate_against_x / integrate_against_xx` at the (clipped) intervals the model asks for, the chain's
`levy_triplet.a` (tilde drift of the truncated triplet, C10's subject) and `model.drift()`.
S (oracle, independent of the model and of the closed-form moment integrals): the mean per unit time of the truncated
process in the *declared* representation R,   model.drift() + a_R + ∫_[l,r] (x - h_R(x)) ν(x) dx   by scipy quadrature of
the Lévy *density*, must equal  process_drift + Σ_k x_k q_k ; eqDiff² - σ² = quadrature of x²ν on the central interval iff
infinite variation; |variance of the approximation - variance of the truncated model| <= Σ_k osc_k(x²) q_k (+ central
second moment for finite variation).
S on the SIMULATED approximation: the live chain is taken through every simulation scheme `initialisation(product,
max_step_epsilon)` offers (fixed dates, jump times for a payoff with stochastic dates, maximum time step), the normal variates
prescribed from the harness; from the diffusion component of the returned paths the coefficient (copula chain: matrix) applied per
sqrt(dt) is recovered and must be sqrt(σ² + quadrature of x²ν on the central cell) for infinite variation, σ for finite variation
(copula chain: A·Aᵀ = the variance matrix); the slope of `process.deterministic_path` over the path's times must be the oracle
mean minus Σ_k x_k q_k.
"""
from __future__ import annotations

import copy
import itertools
import math
import traceback
import warnings
from fractions import Fraction

import numpy as np
import scipy.linalg
from scipy.integrate import quad

from .. import zoo
from ..common import w, wl, wll, rd, rdl, rdll, close, fr, Infra

from rpylib.distribution.sampling import SamplingMethod
from rpylib.distribution.samplingfactory import create_q_vector
from rpylib.grid.grid import Coordinates
from rpylib.model.levymodel.exponentialoflevymodel import ExponentialOfLevyModel
from rpylib.model.levymodel.levymodel import LevyRepresentation as LR, LevyMeasure, LevyModel, LevyTriplet
from rpylib.process.markovchain import markovchain as mc_mod
from rpylib.process.markovchain import markovchainlevycopula as mclc_mod
from rpylib.process.markovchain.markovchain import MarkovChainProcess
from rpylib.process.markovchain.markovchainlevycopula import MarkovChainLevyCopula, vol_adjustment_ij
from rpylib.product.payoff import Vanilla, PayoffType, Payoff, PayoffDates, PayoffOnTheFly
from rpylib.product.product import Product
from rpylib.product.underlying import Spot, Asian, Discretisation

RULE = ("1-d structured: model families (HEM, Merton, VG, CGMY in all five activity branches, incl. infinite variation 1<y<2) x "
        "parameter draws x {Levy model (identity), exponential of Levy (log)} x every admissible declared representation "
        "(ONEONE, TILDE, CENTER, and ZERO for finite variation; set on the caller's model before the chain is built) x the six "
        "grid constructors x h x 0..2 refinements x {INVERSION, BINARYSEARCHTREEADAPTED1D}; synthetic: dyadic axes x "
        "piecewise-constant densities (truncation active in both directions, zero-mass cells); copula: each margin of 2-d "
        "chains, Clayton / independent / dependent, 5..7 points per axis, fixed and credit grids (unequal axes); variance "
        "matrix: independent copula with infinite-variation margins through the real constructor (process pool + nquad). "
        "Simulation schemes: every 1-d chain above and every copula chain (finite variation: the margin stream; infinite variation: "
        "the real nquad constructor and live chains in d = 2, 3 with prescribed vol_adjustment_ij results) is re-initialised on the "
        "live object for fixed dates (one date / monthly dates), jump times (payoff with PayoffDates.STOCHASTIC; one / monthly "
        "intervals), maximum time step (epsilon < maturity with either payoff kind, epsilon >= maturity), maturity ~ 16 expected "
        "jumps, and one path per coordinate simulated with prescribed normal variates (copula chain: one product date only - with "
        "two or more its simulators raise, known finding C15-copula-several-dates-raise). "
        "User-defined collaborators (the property quantifies over every model, not only the shipped families): a subclass of the public "
        "abstract LevyModel = Brownian part sigma in {0, 1/8, 1/4, 1/2} + the jump parts of one or two shipped families (two: a "
        "user-defined LevyMeasure, the sum), i.e. the combinations no shipped family has - diffusion AND infinite-variation jumps (CGMY "
        "1 <= y < 2, alone or plus compound-Poisson / finite-variation parts), diffusion + infinite-activity finite-variation jumps - "
        "with the triplet DECLARED at construction in any admissible representation with a drift a != 0 (optionally re-declared with "
        "set_representation), as Levy model or wrapped in the public ExponentialOfLevyModel, on the same grids / refinements / methods / "
        "simulation schemes as the shipped families (the first six cases of every run are fixed combinations with sigma > 0); such models "
        "are also margins of the copula chains (finite variation: 30% of the copula cases, any declared representation; scripted "
        "variance matrix: margins with sigma > 0 and infinite variation in the same margin). "
        "Degenerate but supported geometry (hand-built through the public CTMCGrid constructor, uniform or non-uniform steps, 0..1 "
        "refinements): ONE-SIDED state grids - the origin is the first point (only upward jumps) or, the mirror case, the last point, so "
        "that a truncation bound is exactly 0.0 - and grids with a single state on one side of the origin, for every shipped family "
        "(all CGMY branches) and the exact piecewise-constant density x every admissible declared representation (ZERO / TILDE / ONEONE "
        "/ CENTER / as built) x identity / log process x {INVERSION, ALIAS, BINARYSEARCHTREEADAPTED1D, BINARYSEARCHTREE}, judged by the same "
        "mean / drift / coefficient oracles against the density of the caller's own measure restricted to the grid span (one-sided grids: "
        "oracle only, the Lean model describes grids with states on both sides; the intensity of jumps must be a finite number; every "
        "simulated path has a wall-clock limit of 10 s - a sampler that never returns is an oracle failure, not a hang). "
        "non-trivial = chain built and initialised on a well-formed grid with >= 5 points; distinct = distinct (model, "
        "parameters, representation, grid arguments, refinements, method)")
NOT_PROVED = [
    "the closed-form integrate / integrate_against_x / integrate_against_xx of the families (inputs of the model; C09) and the "
    "representation conversion that produces levy_triplet.a (C10) are not proved here: `chain_mean` takes the tilde drift as an input",
    "the sandwich hypotheses IsSecondMoment / IsFirstMoment (a² m <= m2 <= b² m on one-sided intervals) of `variance_gap` / `mean_gap` "
    "are hypotheses: true of every measure with a density, not derived from the families' closed forms",
    "`model.drift()` of the exponential models (r - d + omega, omega from the Lévy exponent) is an input (C10)",
    "vol_adjustment_ij's nquad (copula small-jump covariances) is not modelled; only the combination adj·adjᵀ + σ² vs adj + σ² is",
    "the variance statement for finite variation is `variance_finite_variation` (gap <= central second moment + weighted oscillation)",
    "one-sided state grids (origin = first / last point of the axis): oracle only (mean, eqDiff, simulation schemes, finite intensity); "
    "Drift.lean's chain is stated for an origin with states on both sides, so the tie is not evaluated there; the variance-gap statement "
    "is not evaluated there either (no central cell with neighbours -h, +h)",
    "float rounding of sums (compared at 2^-40 relative to the cancellation-aware scale; oracle 1e-9)",
    "simulation schemes: oracle only (coefficient / matrix recovered from the simulated diffusion component, drift from "
    "process.deterministic_path); the law of the variates, of the jump times and of the sampled states is not C04's subject (C02, C12, "
    "C15, C16); infinite-variation copula chains: A·Aᵀ of each scheme is compared with the variance matrix the constructor computed "
    "(and, independent copula, its diagonal with the 1-d chains' variances: known finding C04-copula-variance-matrix-squared)",
]
ASSUMPTIONS = [
    "scipy.integrate.quad(epsabs=0, epsrel=1e-13) of the Lévy density on intervals that avoid / end at 0 (oracle only); measured "
    "agreement with the implementation <= 5e-15 relative over seeds 0..5, tolerance 1e-9",
    "the declared representation is changed with LevyTriplet.set_representation on the caller's model: its result a_R is taken as "
    "the declaration (whether the conversion is right is C10)",
    "user-defined models: the jump parts reuse the shipped families' measure objects (their closed-form integrals are C09's subject); the "
    "sum measure adds the parts' integrals; levy_exponent_pure_jump (only used for the exponential model's omega, an input here) is the "
    "sum of the parts' exponents",
    "the simulation schemes draw their normal variates through numpy.random.normal (replaced for the duration of a path; Infra if it is "
    "never called although a diffusion component is produced); for a d-dimensional chain a flat draw of d*n variates is read as the "
    "C-ordered (d, n) array (coordinate-major), an array draw as (..., d, n)",
]
TRUSTED = ["SIGALRM-based limit of 10 s per simulated path (the harness's own wall-clock alarm is saved and put back)",
           "scipy.integrate.quad (oracle only)", "scipy.special functions inside the families' closed forms (C09)",
           "replacement of numpy.random.normal while a scheme simulates a path (prescribed variates)"]

warnings.filterwarnings("ignore", category=scipy.linalg.LinAlgWarning)
warnings.filterwarnings("ignore")

MEAN_REL = 1e-9
METHODS = {"INVERSION": SamplingMethod.INVERSION, "BINARYSEARCHTREEADAPTED1D": SamplingMethod.BINARYSEARCHTREEADAPTED1D,
           "ALIAS": SamplingMethod.ALIAS, "BINARYSEARCHTREE": SamplingMethod.BINARYSEARCHTREE}     # the last two: degenerate-geometry stream
REPS = {"ONEONE": LR.ONEONE, "TILDE": LR.TILDE, "CENTER": LR.CENTER, "ZERO": LR.ZERO}
MAXDEV = {"mean": 0.0, "eqdiff": 0.0, "var_ratio": 0.0, "margin_indep": 0.0, "scheme_coef": 0.0, "scheme_drift": 0.0}


# ------------------------------------------------------------------------------------------------------------ helpers
def the_product():
    return Product(payoff_underlying=Spot(), payoff=Vanilla(strike=100.0, payoff_type=PayoffType.CALL), maturity=1.0)


def axis_ok(ax, o):
    return 0 < o < len(ax) - 1 and ax[o] == 0.0 and all(a < b for a, b in zip(ax, ax[1:]))


def grid_from_desc(model, gd):
    kw = {}
    for src, dst in (("tp", "truncation_probability"), ("nb", "nb_of_points" if gd["kind"] == "fixed" else "nb"),
                     ("tr", "truncations"), ("mps", "minimum_probability_step"), ("a", "level_a"), ("sym", "symmetric_grid")):
        if src in gd:
            kw[dst] = tuple(gd[src]) if src == "tr" else gd[src]
    g, _ = zoo.make_grid(gd["kind"], model, gd["h"], dimension=gd.get("dim", 1), **kw)
    return g


def mid_table(g, ax):
    if not isinstance(g, zoo.CTMCGridProbabilityStep):
        return "[]"
    rows, seen, n = [], set(), len(ax)
    for k in range(n):
        for a, b in ((ax[max(0, k - 1)], ax[k]), (ax[k], ax[min(n - 1, k + 1)])):
            if (a, b) not in seen:
                seen.add((a, b))
                rows.append([a, b, float(g.middle(a, b))])
    return wll(rows)


def Q(f, a, b):
    if not a < b:
        return 0.0
    return quad(f, a, b, epsabs=0.0, epsrel=1e-13, limit=400)[0]


def cutoff(rep, fv):
    """V such that h_R(x) = x for |x| < V and 0 otherwise; None for h_R(x) = x everywhere"""
    return {LR.ZERO: 0.0, LR.ONEONE: 1.0, LR.TILDE: 0.0 if fv else 1.0, LR.CENTER: None}[rep]


def truncated_mean(density, l, r, rep, fv, exact_first=None):
    """∫_[l,r] (x - h_R(x)) ν(x) dx and ∫ |x - h_R(x)| ν (scale), by quadrature of the density (exact antiderivative of the
    piecewise-constant synthetic density: quad does not see its jumps)"""
    V = cutoff(rep, fv)
    if V is None:
        return 0.0, 0.0
    if exact_first is not None:
        E = lambda a, b: exact_first(a, b) if a < b else 0.0
        left, right = E(l, min(-V, r)), E(max(V, l), r)
        return left + right, abs(left) + abs(right)
    f = lambda x: x * density(x)
    g = lambda x: abs(x) * density(x)
    return (Q(f, l, min(-V, r)) + Q(f, max(V, l), r)), (Q(g, l, min(-V, r)) + Q(g, max(V, l), r))


def guarded(ctx, d, cls, fn, *a, **k):
    try:
        return fn(*a, **k)
    except Infra:
        raise
    except Exception as e:
        frames = traceback.extract_tb(e.__traceback__)
        if not any("/rpylib/" in f.filename for f in frames):
            raise
        where = [f"{f.filename.split('/rpylib/')[-1]}:{f.lineno}" for f in frames if "/rpylib/" in f.filename][-3:]
        ctx.fail("oracle", "c04.chain.raises", d, {"exception": repr(e)[:400], "where": where}, cls=cls)


def nonfinite(**vals):
    """names of the values (numbers / lists / lists of lists) that are not all finite"""
    bad = []
    for name, v in vals.items():
        try:
            ok = bool(np.all(np.isfinite(np.asarray(v, dtype=float))))
        except (TypeError, ValueError):
            ok = False
        if not ok:
            bad.append(name)
    return bad


def ask(ctx, d, cls, fields, parsers):
    """one request to Drivers/C04 (fields: strings / numbers / wire lists already formed) parsed token by token.  Never raises on what
    the implementation produced: a value that cannot be written on the wire (nan) or an answer of the driver that is not the numbers
    asked for ('bad-op', e.g. for an infinite entry) is a `corr` failure - the tie cannot be evaluated on this input - and None is
    returned.  (Callers report non-finite numbers of the implementation as oracle failures BEFORE asking.)"""
    try:
        req = " ".join(f if isinstance(f, str) else w(f) for f in fields)
    except (ValueError, TypeError, OverflowError) as e:
        ctx.fail("corr", "c04.driver_request.model", d, {"name": "Drivers/C04: the request cannot be formed from the implementation's values",
                                                        "op": str(fields[0]), "exception": repr(e)[:200]}, cls=cls)
        return None
    ans = ctx.lean(req)
    toks = ans.split(" ")
    try:
        if toks[0] == "bad-op" or len(toks) < len(parsers):
            raise ValueError("not the answer asked for")
        return [parse(t) for parse, t in zip(parsers, toks)]
    except (ValueError, ZeroDivisionError, IndexError) as e:
        ctx.fail("corr", "c04.driver_answer.model", d, {"name": "Drivers/C04 did not answer the request with the numbers asked for",
                                                       "request": req[:400], "answer": ans[:200], "exception": repr(e)[:120]}, cls=cls)
        return None


class Recorder:
    """records the intervals handed to one bound method of the chain's Lévy measure (instance-level patch)"""

    def __init__(self, obj, name):
        self.obj, self.name, self.calls = obj, name, []
        self.orig = getattr(obj, name)

    def __enter__(self):
        def rec(a, b, *rest):
            self.calls.append((float(a), float(b)))
            return self.orig(a, b, *rest)
        setattr(self.obj, self.name, rec)
        return self

    def __exit__(self, *exc):
        try:
            delattr(self.obj, self.name)
        except AttributeError:
            setattr(self.obj, self.name, self.orig)
        return False


# ------------------------------------------------------------------------------------------------- simulation schemes
class StochasticDatesPayoff(Payoff):
    """a payoff whose dates depend on the path (public constructor argument): the chain is then simulated at its jump times"""

    def __init__(self):
        super().__init__(payoff_dates_type=PayoffDates.STOCHASTIC)

    def evaluate(self, underlying):
        return underlying


class Normals:
    """prescribed normal variates: numpy.random.normal returns, for a d-dimensional chain, the value rows[k] for every variate of
    coordinate k (array sizes (..., d, n) as drawn for the fixed dates; a flat size d*n is read as the C-ordered (d, n) array the
    jump-times schemes reshape it to).  The property speaks about the coefficient the variates are scaled with, not about them."""

    def __init__(self, rows):
        self.rows, self.calls = np.array(rows, float), 0

    def __enter__(self):
        self.orig = np.random.normal
        np.random.normal = self.normal
        return self

    def __exit__(self, *exc):
        np.random.normal = self.orig
        return False

    def normal(self, loc=0.0, scale=1.0, size=None):
        self.calls += 1
        d = len(self.rows)
        if size is None:
            if d != 1:
                raise Infra("scripted normals: scalar draw for a multi-dimensional chain")
            return loc + scale * float(self.rows[0])
        shape = tuple(int(x) for x in np.atleast_1d(size))
        if len(shape) >= 2 and shape[-2] == d:
            vals = np.broadcast_to(self.rows[:, None], shape).copy()
        elif len(shape) == 1 and shape[0] % d == 0:
            vals = np.repeat(self.rows, shape[0] // d)
        elif d == 1:
            vals = np.full(shape, float(self.rows[0]))
        else:
            raise Infra(f"scripted normals: cannot lay out size {shape} for a {d}-dimensional chain")
        return loc + scale * vals


class SimulationTimeout(Exception):
    pass


class time_limit:
    """wall-clock limit for one simulated path (about 16 jumps expected: milliseconds).  A chain whose sampler never returns (seen on a
    one-sided grid when the intensity of jumps and the rates of the states disagree) is a failure of the simulated approximation, not
    a hang of the check.  SIGALRM is shared with the harness's own wall-clock limit: its handler and remaining time are put back."""

    def __init__(self, seconds):
        self.seconds = seconds

    def __enter__(self):
        import signal, time
        self.signal, self.t0 = signal, time.time()
        self.usable = hasattr(signal, "SIGALRM")
        if self.usable:
            def fire(signum, frame):
                raise SimulationTimeout()
            self.remaining = signal.alarm(0)
            self.old = signal.signal(signal.SIGALRM, fire)
            signal.alarm(self.seconds)
        return self

    def __exit__(self, *exc):
        if self.usable:
            import time
            self.signal.alarm(0)
            self.signal.signal(self.signal.SIGALRM, self.old)
            if self.remaining:
                self.signal.alarm(max(1, self.remaining - int(time.time() - self.t0)))     # whole seconds: no drift over thousands of paths
        return False


SIMULATION_LIMIT = 10                     # seconds for one path
SCHEME_C = [1.0, -2.0, 0.5, 1.5]          # the value of the prescribed variates of the coordinate under observation
SCHEME_NP_SEED = 20240404                 # Poisson counts / jump times / states of the scheme runs (replayable)


def scheme_list(lam, full=True, several_dates=True):
    """the simulation schemes `initialisation(product, max_step_epsilon)` offers, each with a product that selects it: fixed dates
    (one date / monthly dates), jump times (payoff with stochastic dates; one interval / monthly intervals), maximum time step
    (epsilon < maturity with either payoff kind; epsilon >= maturity).  Maturity so that about 16 jumps are expected.
    several_dates=False for the copula chain: its simulators raise with two or more product dates (known finding of C15,
    C15-copula-several-dates-raise - path assembly, not C04's subject)."""
    lam = float(lam) if math.isfinite(float(lam)) and float(lam) > 0 else 1.0
    T = min(1.0, 16.0 / lam)
    monthly = several_dates and lam * 0.25 <= 4000
    out = [dict(name="fixed", und="spot", dates="D", T=T, eps=None),
           dict(name="jump_times", und="spot", dates="S", T=T, eps=None),
           dict(name="maximum_step", und="spot", dates="D", T=T, eps=T / 7)]
    if monthly:
        out.append(dict(name="fixed/monthly", und="asian", dates="D", T=0.25, eps=None))
    if full:
        out += [dict(name="maximum_step/stochastic_dates", und="spot", dates="S", T=T, eps=T / 3),
                dict(name="maximum_step/eps>=maturity", und="spot", dates="D", T=T, eps=2 * T)]
        if monthly:
            out.append(dict(name="jump_times/monthly", und="asian", dates="S", T=0.25, eps=None))
    return out


def scheme_product(sch):
    und = Spot() if sch["und"] == "spot" else Asian(Discretisation.MONTHLY)
    payoff = PayoffOnTheFly(lambda x: x) if sch["dates"] == "D" else StochasticDatesPayoff()
    return Product(payoff_underlying=und, payoff=payoff, maturity=sch["T"])


def run_scheme(mc, sch, dim, initialised_with=None):
    """initialises the live chain for the scheme and simulates `dim` paths, the normal variates of coordinate k being SCHEME_C[k]
    in run k and 0 for the other coordinates.  From the diffusion component of the returned paths: column k of the matrix A with
    increment(step) = sqrt(dt) * A * z(step); `nonprop`: largest deviation of a diffusion path from A z * cumsum(sqrt(dt)) relative to
    its size (one coefficient for every step); the deterministic drift per unit time the scheme applies (slope of
    process.deterministic_path over the path's times)."""
    if initialised_with is None:
        prod = scheme_product(sch)
        mc.initialisation(prod, max_step_epsilon=sch["eps"])
    else:
        prod = initialised_with                          # the caller's initialisation(prod) of the live chain is the scheme
    A = np.zeros((dim, dim))
    res = dict(scheme=sch["name"], simulation=type(mc._path_simulation).__name__, nonprop=0.0, steps=0, problem=None)
    for k in range(dim):
        c = SCHEME_C[k % len(SCHEME_C)]
        rows = [0.0] * dim
        rows[k] = c
        np.random.seed(SCHEME_NP_SEED + k)
        try:
            with time_limit(SIMULATION_LIMIT), Normals(rows) as nz:
                mc.pre_computation(1, prod)
                path = mc.simulate_one_path()
        except SimulationTimeout:
            res["problem"] = (f"simulate_one_path did not return within {SIMULATION_LIMIT} s (maturity {sch['T']}, intensity of jumps "
                              f"{float(mc.intensity_of_jumps)!r}): the approximation cannot be simulated")
            return res
        times = np.asarray(path.times(), dtype=float)
        diff = np.asarray(path.diffusion_path)
        if np.iscomplexobj(diff) and float(np.max(np.abs(diff.imag))) > 0:
            res["problem"] = "the diffusion component of the simulated path is not real"
            return res
        diff = np.atleast_2d(np.asarray(diff.real, dtype=float))
        if diff.shape != (dim, times.size) or times.size < 2 or not np.all(np.isfinite(diff)) or not np.all(np.diff(times) >= 0):
            res["problem"] = f"diffusion component of shape {diff.shape} (finite: {bool(np.all(np.isfinite(diff)))}) over {times.size} times"
            return res
        S = np.concatenate(([0.0], np.cumsum(np.sqrt(np.diff(times)))))
        col = diff[:, -1] / (c * S[-1])
        size = float(np.max(np.abs(col))) * abs(c) * S[-1]
        if size > 0:
            if nz.calls == 0:
                raise Infra("the simulation schemes do not draw their normal variates through numpy.random.normal: cannot prescribe them")
            res["nonprop"] = max(res["nonprop"], float(np.max(np.abs(diff - np.outer(col, c * S)))) / size)
        A[:, k] = col
        res["steps"] = max(res["steps"], times.size - 1)
    det = np.atleast_2d(np.asarray(mc.deterministic_path(times), dtype=float))
    res["A"], res["T"] = A, float(times[-1])
    res["slope"] = [float(x) for x in (det[:, -1] - det[:, 0]) / (times[-1] - times[0])]
    res["slope_slack"] = [float(8 * np.finfo(float).eps * (abs(a) + abs(b)) / (times[-1] - times[0])) for a, b in zip(det[:, 0], det[:, -1])]
    return res


def schemes_1d(ctx, d, cls, mc, fv, sigma, central2, expected_drift, drift_scale):
    """S on what each scheme simulates: coefficient² = sigma² (+ quadrature of x² nu on the central cell iff infinite variation);
    deterministic drift per unit time = oracle mean - sum x_k q_k"""
    want2 = sigma * sigma + (0.0 if fv else central2)
    for sch in scheme_list(mc.intensity_of_jumps):
        r = run_scheme(mc, sch, 1)
        scls = dict(cls, scheme=sch["name"], infinite_variation=not fv)
        ctx.branches[f"c04.scheme:{sch['name']}:{'fv' if fv else 'iv'}"] += 1
        if r["problem"] or r["nonprop"] > 1e-9:
            ctx.fail("oracle", "c04.scheme_diffusion", d, {"scheme": sch, "simulation": r["simulation"], "what": r["problem"] or
                     "the diffusion component is not one coefficient times the prescribed variates times sqrt(dt) at every step",
                     "relative_deviation": r["nonprop"]}, cls=scls)
            return
        got2 = float(r["A"][0, 0]) ** 2
        dv = abs(got2 - want2) / max(want2, 1e-300)
        if not abs(got2 - want2) <= 1e-8 * want2 + 1e-24:
            ctx.fail("oracle", "c04.scheme_diffusion", d, {"scheme": sch, "simulation": r["simulation"], "finite_variation": fv,
                     "coefficient_applied_per_sqrt_dt": float(r["A"][0, 0]), "its_square": got2, "sigma_squared": sigma * sigma,
                     "quadrature_x2_nu_central": None if fv else central2, "expected_square": want2, "steps": r["steps"]}, cls=scls)
            return
        MAXDEV["scheme_coef"] = max(MAXDEV["scheme_coef"], dv if want2 > 0 else 0.0)
        dev = abs(r["slope"][0] - expected_drift)
        if not dev <= MEAN_REL * drift_scale + r["slope_slack"][0]:
            ctx.fail("oracle", "c04.scheme_drift", d, {"scheme": sch, "simulation": r["simulation"], "drift_applied_per_unit_time": r["slope"][0],
                     "expected_(mean_of_truncated_process_minus_jump_mean)": expected_drift, "deviation": dev, "scale": drift_scale}, cls=scls)
            return
        MAXDEV["scheme_drift"] = max(MAXDEV["scheme_drift"], dev / max(drift_scale, 1e-300))


def collect_schemes(mc, dim, full=False, first=None):
    """[(scheme, run)] of the live copula chain; `first` = the product of an initialisation the caller already made (fixed dates)"""
    out = []
    for sch in scheme_list(mc.intensity_of_jumps, full=full, several_dates=False):
        if first is not None and sch["name"] == "fixed":
            sch = dict(sch, T=float(first.maturity), note="the probe's own initialisation(product)")
            out.append((sch, run_scheme(mc, sch, dim, initialised_with=first)))
        else:
            out.append((sch, run_scheme(mc, sch, dim)))
    return out


def schemes_matrix(ctx, d, cls, mc, dim, V, what_V, full=False, rel=1e-7, pre=None):
    """S on what each scheme of the copula chain simulates: the matrix A applied to the variates per sqrt(dt) must reproduce the
    variance matrix, A·Aᵀ = V; returns {scheme: run} for further checks"""
    top = max(float(np.max(np.abs(V))), 1e-300)
    runs = {}
    for sch, r in (pre if pre is not None else collect_schemes(mc, dim, full=full)):
        scls = dict(cls, scheme=sch["name"])
        ctx.branches[f"c04.scheme_matrix:{sch['name']}:d{dim}"] += 1
        if r["problem"] or r["nonprop"] > 1e-9:
            ctx.fail("oracle", "c04.scheme_diffusion_matrix", d, {"scheme": sch, "simulation": r["simulation"], "what": r["problem"] or
                     "the diffusion component is not one matrix times the prescribed variates times sqrt(dt) at every step",
                     "relative_deviation": r["nonprop"]}, cls=scls)
            continue
        AAt = r["A"] @ r["A"].T
        dev = float(np.max(np.abs(AAt - V)))
        if not dev <= rel * top:
            ctx.fail("oracle", "c04.scheme_diffusion_matrix", d, {"scheme": sch, "simulation": r["simulation"], "what": "covariance per unit "
                     "time of the diffusion component the scheme simulates, A·Aᵀ, is not " + what_V, "matrix_applied_per_sqrt_dt": r["A"].tolist(),
                     "A_At": AAt.tolist(), "expected": np.asarray(V).tolist(), "max_deviation": dev}, cls=scls)
            continue
        runs[sch["name"]] = r
    return runs


# ------------------------------------------------------------------------------------------------- one 1-d chain
def chain_probe(ctx, d, cls, model, rep, g, method_name, corr=True, density=None, exact_second=None, exact_first=None):
    """model: the caller's model already declared in representation `rep` (rep None: as constructed)"""
    prod = the_product()
    ax = [float(x) for x in g.axes[0]]
    o = int(g.origin_coordinate.value)
    n = len(ax)
    h = float(g.h)
    nu0 = model.levy_triplet.nu                       # the caller's (untruncated) measure
    a_decl = float(model.levy_triplet.a)
    rep = rep if rep is not None else model.levy_triplet.representation
    fv = bool(model.jump_of_finite_variation())
    mdrift = float(np.ravel(model.drift())[0]) if np.ndim(model.drift()) else float(model.drift())
    sigma = float(model.diffusion_coefficient())
    mc = MarkovChainProcess(model, METHODS[method_name], g)
    nu_t = mc.model.levy_triplet.nu
    with Recorder(nu_t, "integrate") as rec:
        mc.initialisation(prod)
    walked = list(rec.calls)
    drift = float(np.ravel(mc.process_drift())[0])
    q = [float(x) for x in create_q_vector(nu_t, g)]
    eq = float(mc.equivalent_diffusion_coefficient)
    a_tilde = float(mc.model.levy_triplet.a)
    ctx.count("c04.chain1d", d, nontrivial=n >= 5, branch=f"{cls.get('kind')}:{cls.get('family')}:{rep.name}:{'fv' if fv else 'iv'}")
    ctx.branches[f"c04.chain1d:process_representation:{mc.process_representation.name}"] += 1
    jump_mean = math.fsum(x * y for x, y in zip(ax, q))
    abs_jump = math.fsum(abs(x) * y for x, y in zip(ax, q))
    chain_mean = drift + jump_mean
    if not all(math.isfinite(v) for v in (drift, eq, a_tilde, jump_mean)):
        ctx.fail("oracle", "c04.chain.nonfinite", d, {"process_drift": drift, "eqdiff": eq, "a_tilde": a_tilde, "jump_mean": jump_mean}, cls=cls)
        return
    # ---- S: compute_mu_h walks exactly the cells the rates are computed on (the implementation's own cells)
    lo = [float(g.middle(g.left_point(k), ax[k])) for k in range(n)]
    hi = [float(g.middle(ax[k], g.right_point(k))) for k in range(n)]
    cells = [(lo[k], hi[k]) for k in range(n) if k != o]
    if walked != cells:
        bad = next((i for i, (a, b) in enumerate(zip(walked, cells)) if a != b), min(len(walked), len(cells)))
        ctx.fail("oracle", "c04.muh_uses_cells", d, {"position": bad, "walked": walked[bad:bad + 2], "cells": cells[bad:bad + 2],
                                                   "n_walked": len(walked), "n_cells": len(cells)}, cls=cls)
        return
    # ---- S: the mean, independently (quadrature of the density; declared representation; truncated support)
    dens = density if density is not None else nu0
    I, S = truncated_mean(dens, ax[0], ax[-1], rep, fv, exact_first=exact_first)
    expected = mdrift + a_decl + I
    scale = abs(mdrift) + abs(a_decl) + S + abs_jump
    dev = abs(chain_mean - expected) / max(scale, 1e-300)
    MAXDEV["mean"] = max(MAXDEV["mean"], dev)
    if not dev <= MEAN_REL:
        ctx.fail("oracle", "c04.chain_mean", d, {"process_drift": drift, "jump_mean": jump_mean, "chain_mean": chain_mean,
                                               "model_drift": mdrift, "declared_a": a_decl, "declared_representation": rep.name,
                                               "quadrature_of_(x-h(x))nu_on_truncated_support": I, "expected_mean": expected,
                                               "relative_deviation": dev, "finite_variation": fv, "truncation": [ax[0], ax[-1]]}, cls=cls)
        return
    edge = o == 0 or o == n - 1                       # one-sided grid: the origin is the first / the last state
    if edge:
        ctx.branches[f"c04.chain1d:one_sided:{'first' if o == 0 else 'last'}:{rep.name}:{'fv' if fv else 'iv'}"] += 1
        lam = float(mc.intensity_of_jumps)
        if not (math.isfinite(lam) and lam >= 0):
            # the approximation is simulated with this rate: a chain that cannot be simulated has no mean per unit time
            ctx.fail("oracle", "c04.chain.nonfinite", d, {"what": "intensity of jumps of the chain on a one-sided grid is not a finite number "
                     "(the mean identity itself holds on this input)", "intensity_of_jumps": lam, "truncation": [ax[0], ax[-1]]}, cls=cls)
            return
    # ---- S: small jumps -> Brownian motion iff infinite variation
    ca, cb = max(-h / 2, -1.0, ax[0]), min(h / 2, 1.0, ax[-1])
    f2 = lambda x: x * x * dens(x)
    if fv:
        if eq != sigma:
            ctx.fail("oracle", "c04.eqdiff", d, {"finite_variation": True, "equivalent_diffusion_coefficient": eq, "sigma": sigma}, cls=cls)
            return
        central2 = None
    else:
        central2 = Q(f2, ca, 0.0) + Q(f2, 0.0, cb)
        dv = abs(eq * eq - sigma * sigma - central2) / max(sigma * sigma + central2, 1e-300)
        MAXDEV["eqdiff"] = max(MAXDEV["eqdiff"], dv)
        if not dv <= 1e-8:
            ctx.fail("oracle", "c04.eqdiff", d, {"finite_variation": False, "eqdiff_squared": eq * eq, "sigma_squared": sigma * sigma,
                                               "quadrature_x2_nu_central": central2, "central_interval": [ca, cb]}, cls=cls)
            return
    # ---- S: the same two statements on what each simulation scheme of the live chain actually applies
    schemes_1d(ctx, d, cls, mc, fv, sigma, 0.0 if fv else central2, expected - jump_mean, scale)
    # ---- S: variance gap (neighbours of 0 are -h, +h: the central interval is the origin's cell)
    if not edge and math.isclose(ax[o - 1], -h, rel_tol=1e-12) and math.isclose(ax[o + 1], h, rel_tol=1e-12) and h <= 2 and lo[o] < 0 < hi[o]:
        out2 = Q(f2, ax[0], lo[o]) + Q(f2, hi[o], ax[-1]) if exact_second is None else exact_second(ax[0], lo[o]) + exact_second(hi[o], ax[-1])
        if central2 is None:
            central2 = (Q(f2, lo[o], 0.0) + Q(f2, 0.0, hi[o])) if exact_second is None else exact_second(lo[o], hi[o])
        var_model = sigma * sigma + central2 + out2
        var_chain = eq * eq + math.fsum(x * x * y for x, y in zip(ax, q))
        osc = math.fsum((max(lo[k] ** 2, hi[k] ** 2) - min(lo[k] ** 2, hi[k] ** 2)) * q[k] for k in range(n) if k != o)
        bound = osc + (central2 if fv else 0.0)
        gap = abs(var_chain - var_model)
        if bound > 0:
            MAXDEV["var_ratio"] = max(MAXDEV["var_ratio"], gap / bound)
        if not gap <= bound * (1 + 1e-9) + 1e-12 * max(var_model, 1e-300):
            ctx.fail("oracle", "c04.variance_gap", d, {"variance_of_approximation": var_chain, "variance_of_truncated_model": var_model,
                                                     "gap": gap, "weighted_oscillation": osc, "central_second_moment": central2,
                                                     "finite_variation": fv}, cls=cls)
            return
        ctx.branches["c04.variance_gap_checked"] += 1
    if not corr or edge:                              # the model (Drift.lean) describes grids with states on both sides of the origin
        return
    # ---- C: the model, fed the untruncated measure's own integrals at the intervals it asks for
    bad = nonfinite(axis=ax, h=h, sigma=sigma, model_drift=mdrift, rates=q, process_drift=drift, a_tilde=a_tilde)
    if bad:
        ctx.fail("oracle", "c04.chain.nonfinite", d, {"what": "the chain / the model hands out non-finite numbers where the statement needs numbers",
                                                    "non_finite": bad}, cls=cls)
        return
    try:
        tbl = mid_table(g, ax)
    except ValueError:
        ctx.fail("oracle", "c04.chain.nonfinite", d, {"what": "grid.middle of two neighbouring states is not a finite number"}, cls=cls)
        return
    head = [wl(ax), str(o), w(h), tbl, "1" if fv else "0"]
    out = ask(ctx, d, cls, ["queries"] + head, [rdll, rdll, rdll])
    if out is None:
        return
    qm, q1, q2 = out
    try:
        mv = [float(nu0.integrate(float(a), float(b))) for a, b in qm]
        m1v = [float(nu0.integrate_against_x(float(a), float(b))) for a, b in q1]
        m2v = [float(nu0.integrate_against_xx(float(a), float(b))) for a, b in q2] if not fv else [0.0 for _ in q2]
    except Exception as e:
        ctx.fail("corr", "c04.queries.model", d, {"name": "Drivers/C04 queries: interval rejected by the measure", "exception": repr(e)[:200]}, cls=cls)
        return
    if not all(math.isfinite(v) for v in mv + m1v + m2v):
        ctx.branches["c04.corr_skipped_nonfinite_integral"] += 1
        return
    out = ask(ctx, d, cls, ["chain"] + head + [sigma, mdrift, a_tilde, wl(mv), wl(m1v), wl(m2v), "[]"], [rd] * 8 + [rdll])
    if out is None:
        return
    m_muh, m_mut, m_drift, m_eq2, m_jm, m_mean, m_j2, m_osc, m_walked = out
    sc = fr(abs(mdrift) + abs(a_tilde) + sum(abs(v) for v in m1v) + abs_jump)
    sc = max(sc, Fraction(1, 2 ** 200))
    span = fr(max(abs(ax[0]), abs(ax[-1])))
    if len(m_walked) != len(walked) or not all(close(a, x, scale=span) and close(b, y, scale=span) for (a, b), (x, y) in zip(walked, m_walked)):
        ctx.fail("corr", "c04.muhcells.model", d, {"name": "Drivers/C04 muHCells vs the intervals compute_mu_h integrates over",
                                                 "impl": walked[:4], "model": [[str(x) for x in r] for r in m_walked[:4]]}, cls=cls)
        return
    if not close(drift, m_drift, scale=sc):
        ctx.fail("corr", "c04.process_drift.model", d, {"name": "Drivers/C04 processDrift vs MarkovChainProcess.process_drift()",
                                                      "impl": drift, "model": str(m_drift), "model_float": float(m_drift),
                                                      "muH": float(m_muh), "muTilde": float(m_mut), "a_tilde": a_tilde}, cls=cls)
        return
    if not close(jump_mean, m_jm, scale=max(fr(abs_jump), Fraction(1, 2 ** 200))):
        ctx.fail("corr", "c04.jump_mean.model", d, {"name": "Drivers/C04 jumpMean vs sum x_k q_k", "impl": jump_mean, "model": str(m_jm)}, cls=cls)
        return
    if not close(eq * eq, m_eq2, scale=max(abs(m_eq2), Fraction(1, 2 ** 200))):
        ctx.fail("corr", "c04.eqdiff.model", d, {"name": "Drivers/C04 eqDiffSq vs equivalent_diffusion_coefficient²", "impl": eq * eq,
                                               "model": str(m_eq2), "finite_variation": fv}, cls=cls)
        return


def reps_for(model):
    fv = bool(model.jump_of_finite_variation())
    return ["ONEONE", "TILDE", "CENTER"] + (["ZERO"] if fv else [])


def draw_grid(ctx, rng, model, hs):
    """one of the six grid constructors with drawn arguments, refined 0..2 times; None if the constructor refuses the model / the
    axis is not well formed (counted in the branches)"""
    kind = rng.choice(zoo.GRID_KINDS)
    h = rng.choice(hs)
    kw = {}
    if kind in ("uniform", "geometric"):
        kw["truncation_probability"] = rng.choice([0.99, 0.999, 0.99999])
    if kind in ("geometric", "geometric_bounds"):
        kw["nb"] = rng.choice([2, 3, 5, 8])
    if kind == "geometric_bounds":
        kw["truncations"] = (-rng.choice([0.5, 1.0, 2.0]), rng.choice([0.75, 1.5, 3.0]))
    if kind == "fixed":
        kw["nb_of_points"] = rng.choice([5, 9, 21, 41])
    if kind == "probstep":
        kw["minimum_probability_step"] = rng.choice([0.05, 0.1, 0.2])
        h = max(h, 0.05)
    if kind == "credit":
        kw["level_a"] = -rng.choice([0.25, 0.3, 0.5])
    try:
        g, gd = zoo.make_grid(kind, model, h, **kw)
    except Exception as e:
        ctx.branches[f"c04.ctor_raises:{kind}:{type(e).__name__}"] += 1
        return None
    ax0 = [float(x) for x in g.axes[0]]
    if not axis_ok(ax0, int(g.origin_coordinate.value)):
        ctx.branches[f"c04.skipped_not_wellformed:{kind}"] += 1
        return None
    k = rng.randint(0, 2 if kind != "probstep" else 1)
    while k > 0 and (len(ax0) - 1) * 2 ** k + 1 > 500:
        k -= 1
    for _ in range(k):
        g.refine()
    if not axis_ok([float(x) for x in g.axes[0]], int(g.origin_coordinate.value)):
        ctx.branches[f"c04.skipped_not_wellformed_after_refine:{kind}"] += 1
        return None
    return g, gd, kind, k


def run_1d(ctx, nmodels, corr=True):
    rng = ctx.rng
    hs = [0.2, 0.1, 0.05]
    for fam, params in zoo.model_stream(rng, nmodels):
        exp = rng.random() < 0.5
        for rep_name in rng.sample(["AS_BUILT", "ONEONE", "TILDE", "CENTER", "ZERO"], 2):
            model = zoo.make_exp(fam, params) if exp else zoo.make_levy(fam, params)
            if rep_name == "ZERO" and not model.jump_of_finite_variation():
                rep_name = "AS_BUILT"
            rep = None
            if rep_name != "AS_BUILT":
                rep = REPS[rep_name]
                model.levy_triplet.set_representation(rep)
            if not math.isfinite(float(model.levy_triplet.a)):
                ctx.branches[f"c04.declared_a_nonfinite:{fam}:{rep_name}"] += 1
                continue
            drawn = draw_grid(ctx, rng, model, hs)
            if drawn is None:
                continue
            g, gd, kind, k = drawn
            method = "INVERSION" if rng.random() < 0.7 else "BINARYSEARCHTREEADAPTED1D"
            d = dict(stream="1d", family=fam, params=params, exp=exp, rep=rep_name, grid=gd, k=k, method=method)
            cls = dict(stream="1d", kind=kind, family=fam, dimension=1)
            guarded(ctx, d, cls, chain_probe, ctx, d, cls, model, rep, g, method, corr=corr)


# ------------------------------------------------------------------------------------------------- user-defined models
class SumMeasure(LevyMeasure):
    """a user's own Lévy measure on the library's public abstract class LevyMeasure: the measure of the sum of independent jump
    parts (density, integrals and moments are the sums of the parts'; finite activity / variation iff every part's is)"""

    def __init__(self, parts):
        self.parts = list(parts)

    def __call__(self, x):
        return sum(p(x) for p in self.parts)

    def jump_of_finite_activity(self) -> bool:
        return all(p.jump_of_finite_activity() for p in self.parts)

    def jump_of_finite_variation(self) -> bool:
        return all(p.jump_of_finite_variation() for p in self.parts)

    def finite_first_moment(self):
        return all(p.finite_first_moment() for p in self.parts)

    def blumenthal_getoor_index(self) -> float:
        return max(p.blumenthal_getoor_index() for p in self.parts)

    def _sum(self, name, a, b, *rest):
        if a > b:
            raise ValueError("Expected a<b when integrating the levy measure")
        return sum(getattr(p, name)(a, b, *rest) for p in self.parts)

    def integrate(self, a, b):
        return self._sum("integrate", a, b)

    def integrate_against_x(self, a, b):
        return self._sum("integrate_against_x", a, b)

    def integrate_against_xx(self, a, b):
        return self._sum("integrate_against_xx", a, b)

    def integrate_against_xn(self, a, b, n):
        return self._sum("integrate_against_xn", a, b, n)


class UserLevyModel(LevyModel):
    """a user's own model on the library's public abstract class LevyModel: a Brownian part of volatility sigma plus the independent
    jump parts of one or two shipped families, the triplet (a, sigma, nu) DECLARED at construction in a representation of the
    user's choice.  The shipped families fix the combination (CGMY: sigma = 0; HEM / Merton: finite activity; VG: finite variation);
    the property quantifies over every model."""

    def __init__(self, a, sigma, jump_models, representation):
        self.jump_models = list(jump_models)
        nus = [m.levy_triplet.nu for m in self.jump_models]
        triplet = LevyTriplet(a=a, sigma=sigma, nu=nus[0] if len(nus) == 1 else SumMeasure(nus), representation=representation)
        super().__init__(model_type=self.jump_models[0].model_type, levy_triplet=triplet, cumulant=None)

    def __repr__(self):
        return f"UserLevyModel(a={self.levy_triplet.a}, sigma={self.levy_triplet.sigma}, jumps={self.jump_models!r})"

    def levy_exponent_pure_jump(self, x: complex) -> complex:
        return sum(m.levy_exponent_pure_jump(x) for m in self.jump_models)

    def intensity(self) -> float:
        return sum(m.intensity() for m in self.jump_models)


USER_LEAD = [  # the first cases of every run: diffusion + jump parts in the combinations no shipped family has
    [("cgmy", 1.5)], [("cgmy", 1.5), ("merton", None)], [("vg", None)], [("cgmy", 1.0)], [("cgmy", 0.5), ("hem", None)], [("cgmy", 1.5), ("cgmy", 0.5)]]


def user_case(rng, i):
    if i < len(USER_LEAD):
        fams, sigma = USER_LEAD[i], rng.choice([0.125, 0.25, 0.5])
    else:
        fams = [(f, rng.choice([1.5, 1.5, 1.0, 0.5, 0.0, -0.5]) if f == "cgmy" else None)
                for f in (rng.choice(zoo.FAMILIES) for _ in range(1 if rng.random() < 0.6 else 2))]
        sigma = rng.choice([0.0, 0.125, 0.25, 0.5])
    parts = [(f, zoo.draw_params(rng, f, y_branch=y) if f == "cgmy" else zoo.draw_params(rng, f)) for f, y in fams]
    fv = all(f != "cgmy" or p["y"] < 1.0 for f, p in parts)
    reps = ["ONEONE", "TILDE", "CENTER"] + (["ZERO"] if fv else [])
    return dict(stream="user", parts=parts, sigma=sigma, a=rng.randint(-16, 16) / 32, rep_declared=rng.choice(reps),
                rep=rng.choice(["AS_BUILT", "AS_BUILT"] + reps), exp=rng.random() < 0.4)


def build_user_model(d):
    """the user's model: declared (a, sigma, nu) in `rep_declared` at construction; optionally wrapped in the public
    ExponentialOfLevyModel (log process); optionally re-declared in `rep` on the caller's model"""
    user = UserLevyModel(a=d["a"], sigma=d["sigma"], jump_models=[zoo.make_levy(f, p) for f, p in d["parts"]],
                         representation=REPS[d["rep_declared"]])
    model = ExponentialOfLevyModel(spot=100.0, r=0.02, d=0.0, levy_model=user) if d["exp"] else user
    if d["rep"] != "AS_BUILT":
        model.levy_triplet.set_representation(REPS[d["rep"]])
    return model


def make_margin(family, params):
    """a margin of a copula model: a shipped family, or ("user", dict(parts, sigma[, a, rep_declared])) - the user's own model"""
    if family != "user":
        return zoo.make_levy(family, params)
    return UserLevyModel(a=params.get("a", 0.0), sigma=params["sigma"], jump_models=[zoo.make_levy(f, q) for f, q in params["parts"]],
                         representation=REPS[params.get("rep_declared", "ONEONE")])


def user_probe(ctx, d, corr=True, built=None):
    model, g = built if built is not None else (None, None)
    if model is None:
        model = build_user_model(d)
        g = grid_from_desc(model, d["grid"])
        for _ in range(d["k"]):
            g.refine()
    fams = "+".join(f for f, _ in d["parts"])
    cls = dict(stream="user", kind=d["grid"]["kind"], family="user", parts=fams, dimension=1, diffusion=d["sigma"] > 0)
    ctx.branches[f"c04.user:{fams}:{'sigma>0' if d['sigma'] > 0 else 'sigma=0'}:{'fv' if model.jump_of_finite_variation() else 'iv'}"
                 f":{'exp' if d['exp'] else 'levy'}"] += 1
    guarded(ctx, d, cls, chain_probe, ctx, d, cls, model, None, g, d["method"], corr=corr)


def run_user(ctx, n, corr=True):
    """user-defined collaborators: models (and measures) built on the public abstract classes, combining what no shipped class does"""
    rng = ctx.rng
    for i in range(n):
        d = user_case(rng, i)
        model = build_user_model(d)
        if not math.isfinite(float(model.levy_triplet.a)):
            ctx.branches[f"c04.declared_a_nonfinite:user:{d['rep']}"] += 1
            continue
        drawn = draw_grid(ctx, rng, model, [0.2, 0.1, 0.05])
        if drawn is None:
            continue
        g, gd, kind, k = drawn
        d.update(grid=gd, k=k, method="INVERSION" if rng.random() < 0.7 else "BINARYSEARCHTREEADAPTED1D")
        user_probe(ctx, d, corr=corr, built=(model, g))


# ------------------------------------------------------------------------------------------------- synthetic
def synthetic_case(rng):
    n_left, n_right = rng.randint(2, 6), rng.randint(2, 6)
    h = rng.choice([1.0, 0.5, 0.25])
    steps = lambda m: list(np.cumsum([h] + [rng.randint(1, 32) / 32 for _ in range(m - 1)]))
    axis = [float(-x) for x in steps(n_left)][::-1] + [0.0] + [float(x) for x in steps(n_right)]
    span = max(-axis[0], axis[-1])
    kn = sorted({round(rng.randint(-64, 64) / 16 * (span / 4 if rng.random() < 0.5 else span / 2) * 64) / 64 for _ in range(rng.randint(2, 9))})
    if len(kn) < 2:
        kn = [-span, span]
    heights = [rng.choice([0, 1, 2, 3, 5, 8]) / 4 for _ in range(len(kn) - 1)]
    return dict(stream="synthetic", axis=axis, o=n_left, h=h, knots=[float(x) for x in kn], heights=heights, k=rng.randint(0, 2),
                a=rng.randint(-16, 16) / 8, sigma=rng.choice([0.0, 0.25, 0.5]), rep=rng.choice(["ZERO", "ONEONE", "TILDE", "CENTER"]),
                method=rng.choice(["INVERSION", "BINARYSEARCHTREEADAPTED1D"]))


def synthetic_probe(ctx, d, corr=True):
    tm = zoo.TableMeasure(d["knots"], d["heights"])
    model = zoo.make_levy("hem", dict(sigma=d["sigma"]))
    model.levy_triplet.nu = tm
    model.levy_triplet.a = d["a"]
    model.levy_triplet.representation = REPS[d["rep"]]          # declared: (a, sigma, table measure) in representation rep
    g = zoo.CTMCGrid(h=d["h"], origin_coordinate=d["o"], axes=[np.array(d["axis"])])
    for _ in range(d["k"]):
        g.refine()
    half = Fraction(d["h"]) / 2 ** (d["k"] + 1)
    E0 = lambda a, b: tm._exact(a, b, 0) if a < b else 0
    if E0(d["axis"][0], -half) + E0(half, d["axis"][-1]) == 0:
        ctx.branches["c04.synthetic:zero_intensity_skipped"] += 1
        return
    cls = dict(stream="synthetic", kind="synthetic", family="table", dimension=1)
    if d["o"] in (0, len(d["axis"]) - 1):
        cls["origin"] = "first" if d["o"] == 0 else "last"
    guarded(ctx, d, cls, chain_probe, ctx, d, cls, model, REPS[d["rep"]], g, d["method"], corr=corr, density=tm,
            exact_second=lambda a, b: float(tm._exact(a, b, 2)), exact_first=lambda a, b: float(tm._exact(a, b, 1)))


# ------------------------------------------------------------------------------------------------- degenerate geometry
def ybranch(family, params):
    if family != "cgmy":
        return None
    y = params.get("y", 0.5)
    return "y<=0" if y <= 0 else ("0<y<1" if y < 1 else "y>=1")


DEGENERATE_ORIGINS = ["first", "second", "first", "penultimate", "first", "last"]


def degenerate_case(rng, i):
    """degenerate but supported geometry, hand-built through the public CTMCGrid constructor: a ONE-SIDED state grid (the origin is the
    first point - only upward jumps - or, the mirror case, the last point: a truncation bound is then exactly 0.0) or a single state on
    one side of the origin; uniform or non-uniform steps; every family (and the exact piecewise-constant density) x every admissible
    declared representation x identity / log process x four sampling methods"""
    origin = DEGENERATE_ORIGINS[i % len(DEGENERATE_ORIGINS)]
    h = rng.choice([0.2, 0.1, 0.05]) if i % 5 else rng.choice([1.0, 0.5, 0.25])
    m = rng.randint(3, 12)
    if rng.random() < 0.5:
        side = [h * (j + 1) for j in range(m)]
    else:
        side = [float(x) for x in np.cumsum([h] + [h * rng.randint(4, 32) / 16 for _ in range(m - 1)])]
    other = {"first": [], "last": [], "second": [h], "penultimate": [h]}[origin]
    if origin in ("first", "second"):
        axis, o = [-x for x in other][::-1] + [0.0] + side, len(other)
    else:
        axis, o = [-x for x in side][::-1] + [0.0] + other, len(side)
    method = ["INVERSION", "ALIAS", "BINARYSEARCHTREEADAPTED1D", "BINARYSEARCHTREE"][(i // 2) % 4]
    if i % 5 == 0:
        span = max(-axis[0], axis[-1])
        kn = sorted({round(rng.randint(-64, 64) / 16 * (span / 4 if rng.random() < 0.5 else span / 2) * 64) / 64 for _ in range(rng.randint(3, 9))})
        if len(kn) < 2:
            kn = [-span, span]
        return dict(stream="synthetic", axis=axis, o=o, h=h, knots=[float(x) for x in kn],
                    heights=[rng.choice([0, 1, 2, 3, 5, 8]) / 4 for _ in range(len(kn) - 1)], k=rng.randint(0, 1), a=rng.randint(-16, 16) / 8,
                    sigma=rng.choice([0.0, 0.25, 0.5]), rep=rng.choice(["ZERO", "ONEONE", "TILDE", "CENTER"]), method=method)
    fam = zoo.FAMILIES[(i // len(DEGENERATE_ORIGINS)) % len(zoo.FAMILIES)] if rng.random() < 0.7 else rng.choice(zoo.FAMILIES)
    params = zoo.draw_params(rng, fam)
    reps = ["ZERO", "TILDE", "ONEONE", "CENTER", "AS_BUILT"]
    return dict(stream="onesided", family=fam, params=params, exp=rng.random() < 0.4, rep=reps[(i + i // 7) % len(reps)], axis=axis, o=o, h=h,
                k=rng.randint(0, 1), method=method, origin=origin)


def degenerate_probe(ctx, d, corr=True):
    if d["stream"] == "synthetic":
        return synthetic_probe(ctx, d, corr=corr)
    fam, params = d["family"], d["params"]
    model = zoo.make_exp(fam, params) if d["exp"] else zoo.make_levy(fam, params)
    rep_name = d["rep"]
    if rep_name == "ZERO" and not model.jump_of_finite_variation():
        rep_name = "TILDE"
    rep = None
    if rep_name != "AS_BUILT":
        rep = REPS[rep_name]
        model.levy_triplet.set_representation(rep)
    if not math.isfinite(float(model.levy_triplet.a)):
        ctx.branches[f"c04.declared_a_nonfinite:{fam}:{rep_name}"] += 1
        return
    n = len(d["axis"])
    origin = {0: "first", 1: "second", n - 2: "penultimate", n - 1: "last"}.get(d["o"], "interior")
    cls = dict(stream="onesided", kind="onesided", family=fam, dimension=1, origin=origin, ybranch=ybranch(fam, params),
               infinite_activity=not bool(model.levy_triplet.nu.jump_of_finite_activity()))

    def go():
        g = zoo.CTMCGrid(h=d["h"], origin_coordinate=d["o"], axes=[np.array(d["axis"], dtype=float)])
        for _ in range(d["k"]):
            g.refine()
        ax = [float(x) for x in g.axes[0]]
        oo = int(g.origin_coordinate.value)
        if not (0 <= oo < len(ax) and ax[oo] == 0.0 and all(a < b for a, b in zip(ax, ax[1:]))):
            ctx.fail("oracle", "c04.chain.nonfinite", d, {"what": "after refine() the origin coordinate of the hand-built grid does not point at 0 / "
                     "the axis is not increasing", "origin_coordinate": oo, "axis": ax[:6]}, cls=cls)
            return
        chain_probe(ctx, d, cls, model, rep, g, d["method"], corr=corr)
    guarded(ctx, d, cls, go)


def run_degenerate(ctx, n, corr=True):
    for i in range(n):
        degenerate_probe(ctx, degenerate_case(ctx.rng, i), corr=corr)


# ------------------------------------------------------------------------------------------------- copula margins
def copula_case(rng):
    margins = [(f, zoo.draw_params(rng, f, y_branch=rng.choice([-0.5, 0.0, 0.5]) if f == "cgmy" else None) if rng.random() < 0.6 else
                ({} if f != "cgmy" else dict(c=0.5, g=10.0, m=12.0, y=0.5)))
               for f in (rng.choice(zoo.FAMILIES) for _ in range(2))]
    cop = rng.choice(zoo.COPULAS)
    cop_kw = dict(theta=rng.choice([0.3, 0.7, 1.0, 2.5]), eta=rng.choice([0.1, 0.3, 0.5, 0.9])) if cop == "clayton" else {}
    if rng.random() < 0.7:
        gd = dict(kind="fixed", h=rng.choice([0.2, 0.1, 0.05]), nb=rng.choice([5, 7]), dim=2)
    else:
        gd = dict(kind="credit_nd", h=rng.choice([0.1, 0.05]), a=[-rng.choice([0.25, 0.3, 0.4]) for _ in range(2)], sym=False, dim=2)
    d = dict(stream="copula", margins=margins, copula=cop, copula_kw=cop_kw, grid=gd, k=rng.choice([0, 0, 1]), exp=rng.random() < 0.4)
    if rng.random() < 0.3:
        # a user-defined margin: diffusion + finite-variation jumps (one or two parts), declared at construction in any representation
        fams = [rng.choice(["vg", "cgmy", "hem", "merton"]) for _ in range(rng.choice([1, 1, 2]))]
        parts = [(f, zoo.draw_params(rng, f, y_branch=rng.choice([-0.5, 0.0, 0.5])) if f == "cgmy" else zoo.draw_params(rng, f)) for f in fams]
        margins[rng.randrange(2)] = ("user", dict(parts=parts, sigma=rng.choice([0.125, 0.25, 0.5]), a=rng.randint(-16, 16) / 32,
                                                  rep_declared=rng.choice(["ONEONE", "TILDE", "CENTER", "ZERO"])))
    return d


def build_copula(d):
    def mk(f, p):
        if not d.get("exp"):
            return make_margin(f, p)
        return ExponentialOfLevyModel(spot=100.0, r=0.02, d=0.0, levy_model=make_margin(f, p)) if f == "user" else zoo.make_exp(f, p)
    margins = [mk(f, p) for f, p in d["margins"]]
    cm = zoo.make_copula_model(margins, zoo.make_copula(d["copula"], **d["copula_kw"]))
    gd = d["grid"]
    if gd["kind"] == "credit_nd":
        g = zoo.CTMCCredit(h=gd["h"], level_a=list(gd["a"]), model=cm, symmetric_grid=gd["sym"])
    else:
        g = grid_from_desc(None, gd)
    for _ in range(d["k"]):
        g.refine()
    return cm, g


def copula_probe(ctx, d, corr=True):
    cls = dict(stream="copula", copula=d["copula"], dimension=2, grid=d["grid"]["kind"])
    guarded(ctx, d, cls, _copula_probe, ctx, d, cls, corr)


def _copula_probe(ctx, d, cls, corr):
    try:
        cm, g = build_copula(d)
    except Exception as e:
        ctx.branches[f"c04.ctor_raises:copula:{d['grid']['kind']}:{type(e).__name__}"] += 1
        return
    axes = zoo.axis_list(g)
    o = int(list(g.origin_coordinate)[0])
    if not all(axis_ok(ax, o) for ax in axes) or len({len(ax) for ax in axes}) != 1:
        ctx.branches[f"c04.skipped_not_wellformed:copula:{d['grid']['kind']}"] += 1
        return
    if not cm.jump_of_finite_variation():
        ctx.branches["c04.copula_skipped_infinite_variation"] += 1   # the constructor's nquad pool: variance_matrix_probe's subject
        return
    prod = the_product()
    h = float(g.h)
    n = len(axes[0])
    mc = MarkovChainLevyCopula(cm, g, SamplingMethod.BINARYSEARCHTREEADAPTED)
    recs = [Recorder(m.levy_triplet.nu, "integrate") for m in mc.model.models]
    for r in recs:
        r.__enter__()
    try:
        mc.initialisation(prod)
    finally:
        for r in recs:
            r.__exit__()
    drift = [float(x) for x in np.ravel(mc.process_drift())]
    states = list(itertools.product(range(n), repeat=2))
    origin = (o, o)
    rate = {}
    for cs in states:
        if cs == origin:
            rate[cs] = 0.0
            continue
        pt = Coordinates(cs)
        a = tuple(float(x) for x in g.middle(g.left_point(pt), g[pt]))
        b = tuple(float(x) for x in g.middle(g[pt], g.right_point(pt)))
        rate[cs] = float(mc.model.mass(a, b))
    lam = float(mc.intensity_of_jumps)
    ctx.count("c04.copula", d, nontrivial=n >= 5, branch=f"{d['copula']}:{d['grid']['kind']}:k{d['k']}")
    for f, p in d["margins"]:
        if f == "user":
            ctx.branches[f"c04.copula:user_margin:{p['rep_declared']}:{d['copula']}"] += 1
    margin_drift = {}                                   # margin -> (oracle mean - jump mean, scale) where the margin's mean holds
    for k in range(2):
        dk = dict(d, margin=k)
        ax = axes[k]
        caller = cm.models[k]                          # declared representation: as built
        nu0 = caller.levy_triplet.nu
        rep = caller.levy_triplet.representation
        fv = bool(cm.jump_of_finite_variation())       # V of the copula chain: max Blumenthal-Getoor index over the margins
        a_decl = float(caller.levy_triplet.a)
        mdrift = float(np.ravel(caller.drift())[0]) if np.ndim(caller.drift()) else float(caller.drift())
        cols = [math.fsum(rate[cs] for cs in states if cs[k] == i) for i in range(n)]
        jump_mean = math.fsum(x * c for x, c in zip(ax, cols))
        abs_jump = math.fsum(abs(x) * c for x, c in zip(ax, cols))
        margin_mean = drift[k] + jump_mean
        bad = nonfinite(process_drift=drift[k], rates_of_the_coordinate=cols, jump_mean=jump_mean, intervals_walked=recs[k].calls)
        if bad:
            ctx.fail("oracle", "c04.chain.nonfinite", dk, {"what": "the copula chain hands out non-finite numbers where the statement needs numbers",
                                                         "margin": k, "non_finite": bad, "process_drift": drift[k], "jump_mean": jump_mean}, cls=cls)
            return
        # S: the margin's mean against the truncated margin in its declared representation (tilde cut-off V of the copula)
        I, S = truncated_mean(nu0, ax[0], ax[-1], rep, bool(caller.jump_of_finite_variation()))
        expected = mdrift + a_decl + I
        scale = abs(mdrift) + abs(a_decl) + S + abs_jump
        dev = abs(margin_mean - expected) / max(scale, 1e-300)
        # S: compute_mu_h walks the cells of the axis it is given
        unequal = axes[0] != ax
        walked = recs[k].calls
        lo = [0.5 * (ax[max(0, i - 1)] + ax[i]) for i in range(n)]
        hi = [0.5 * (ax[i] + ax[min(n - 1, i + 1)]) for i in range(n)]
        own_cells = [(lo[i], hi[i]) for i in range(n) if i != o]
        kcls = dict(cls, copula_dependent=d["copula"] != "independent", unequal_axes=unequal, margin_ge_1=k >= 1)
        # C: the model's margin (since /repo fix of compute_mu_h the neighbours are those of the walked axis itself: the
        #    model's neighbour axis ax0 is the axis), then with the column sums
        mirrors, cells_mirror = None, None
        if corr:
            nu_t = mc.model.models[k].levy_triplet.nu
            a_tilde = float(mc.model.models[k].levy_triplet.a)
            sigma = float(caller.diffusion_coefficient())
            bad = nonfinite(axis=ax, h=h, a_tilde=a_tilde, sigma=sigma, model_drift=mdrift)
            if bad:
                ctx.fail("oracle", "c04.chain.nonfinite", dk, {"what": "the copula chain / the margin hands out non-finite numbers where the statement "
                                                             "needs numbers", "margin": k, "non_finite": bad}, cls=cls)
                return
            out = ask(ctx, dk, cls, ["muhcells", wl(ax), wl(ax), str(o), "[]"], [rdll])
            if out is None:
                return
            m_walked = out[0]
            span = fr(max(abs(ax[0]), abs(ax[-1])))
            cells_mirror = len(m_walked) == len(walked) and all(close(a, x, scale=span) and close(b, y, scale=span)
                                                                for (a, b), (x, y) in zip(walked, m_walked))
            if not cells_mirror:
                ctx.fail("corr", "c04.muhcells.model", dk, {"name": "Drivers/C04 muHCells(axis, axis) vs the intervals compute_mu_h integrates over (margin)",
                                                          "impl": walked[:4], "model": [[str(x) for x in r] for r in m_walked[:4]]}, cls=cls)
                return
            head = [wl(ax), str(o), w(h), "[]", "1" if fv else "0"]
            qs = ask(ctx, dk, cls, ["queries"] + head, [rdll, rdll])
            if qs is None:
                return
            qm, q1 = qs
            mv = [float(nu0.integrate(float(a), float(b))) for a, b in qm]
            m1v = [float(nu0.integrate_against_x(float(a), float(b))) for a, b in q1]
            vals = [float(nu_t.integrate(float(a), float(b))) for a, b in m_walked]
            if nonfinite(masses=vals):
                # the masses of the truncated margin on the cells compute_mu_h walks are the rates the drift compensates
                ctx.fail("oracle", "c04.chain.nonfinite", dk, {"what": "the truncated margin's measure gives a non-finite mass to a cell of the axis "
                                                             "(the rates compute_mu_h weights the states with)", "margin": k,
                                                             "cells": [[float(a), float(b)] for a, b in m_walked][:6], "masses": [repr(v) for v in vals][:6]}, cls=cls)
                return
            tie = not nonfinite(mv=mv, m1v=m1v)
            if not tie:
                ctx.branches["c04.corr_skipped_nonfinite_integral"] += 1
            if tie:
                out = ask(ctx, dk, cls, ["chain"] + head + [sigma, mdrift, a_tilde, wl(mv), wl(m1v), "[0]", "[]"], [rd, rd])
                if out is None:
                    return
                m_mut = out[1]
                out = ask(ctx, dk, cls, ["muh2", wl(ax), wl(ax), str(o), "[]", wl(vals)], [rd])
                if out is None:
                    return
                m_muh = out[0]
                m_drift = fr(mdrift) + fr(a_tilde) + m_mut - m_muh
                m_colmean = m_drift + sum((fr(x) * fr(c) for x, c in zip(ax, cols)), Fraction(0))
                sc = max(fr(abs(mdrift) + abs(a_tilde) + sum(abs(v) for v in m1v) + abs_jump), Fraction(1, 2 ** 200))
                if not close(drift[k], m_drift, scale=sc):
                    ctx.fail("corr", "c04.process_drift.model", dk, {"name": "Drivers/C04 modelDrift + aTilde + muTilde - muH(axis, axis) vs "
                                                                           "MarkovChainLevyCopula.process_drift()[k]", "impl": drift[k], "model": str(m_drift)}, cls=cls)
                    return
                mirrors = close(margin_mean, m_colmean, scale=sc)
                if not mirrors:
                    ctx.fail("corr", "c04.margin_mean.model", dk, {"name": "Drivers/C04 processDrift + sum x_k col_k vs the implementation",
                                                                 "impl": margin_mean, "model": str(m_colmean)}, cls=cls)
                    return
                if unequal:
                    ctx.branches["c04.copula:unequal_axes_margin"] += 1
        if walked != own_cells:
            bad = next((i for i, (a, b) in enumerate(zip(walked, own_cells)) if a != b), min(len(walked), len(own_cells)))
            ctx.fail("oracle", "c04.muh_uses_cells", dk, {"margin": k, "position": bad, "walked": walked[bad:bad + 2], "cells_of_the_axis": own_cells[bad:bad + 2],
                                                        "axes": axes}, cls=kcls, mirrors_model=cells_mirror)
        if d["copula"] == "independent" and not (unequal and k >= 1):
            MAXDEV["margin_indep"] = max(MAXDEV["margin_indep"], dev)
        if not dev <= MEAN_REL:
            ctx.fail("oracle", "c04.margin_mean", dk, {"margin": k, "process_drift": drift[k], "jump_mean_of_coordinate": jump_mean,
                                                     "margin_mean": margin_mean, "expected_mean_of_truncated_margin": expected,
                                                     "relative_deviation": dev, "lambda": lam},
                     cls=kcls, mirrors_model=mirrors)
            ctx.branches[f"c04.margin_mean_fails:{d['copula']}"] += 1
        else:
            ctx.branches[f"c04.margin_mean_holds:{d['copula']}"] += 1
            margin_drift[k] = (expected - jump_mean, scale)
    # S: what each simulation scheme of the live copula chain applies.  Finite variation (this stream): nothing is added, the
    # covariance per unit time of the simulated diffusion component is diag(sigma_k²); drift of margin k per unit time as above
    sig = [float(m.diffusion_coefficient()) for m in cm.models]
    scls = dict(cls, infinite_variation=False)
    runs = schemes_matrix(ctx, d, scls, mc, 2, np.diag([x * x for x in sig]), "diag(sigma_k²) (finite variation: nothing is added)",
                          full=True, rel=1e-9)
    for name, r in runs.items():
        for k, (want, scale) in margin_drift.items():
            dev = abs(r["slope"][k] - want)
            if not dev <= MEAN_REL * scale + r["slope_slack"][k]:
                ctx.fail("oracle", "c04.scheme_margin_drift", dict(d, margin=k), {"scheme": name, "simulation": r["simulation"], "margin": k,
                         "drift_applied_per_unit_time": r["slope"][k], "expected_(mean_of_truncated_margin_minus_jump_mean)": want,
                         "deviation": dev, "scale": scale}, cls=dict(scls, scheme=name))
            else:
                MAXDEV["scheme_drift"] = max(MAXDEV["scheme_drift"], dev / max(scale, 1e-300))


# ------------------------------------------------------------------------------------------------- copula variance matrix (#27)
class SqrtmRecorder:
    """records every square matrix the constructor hands to a matrix factorisation (scipy.linalg.sqrtm / cholesky / eigh,
    numpy.linalg.eigh / cholesky / svd — module attributes patched for the duration): which factorisation the code uses to
    take the square root of its variance matrix is its own business, the property only speaks about the matrix"""
    TARGETS = [(scipy.linalg, "sqrtm"), (scipy.linalg, "cholesky"), (scipy.linalg, "eigh"), (np.linalg, "eigh"),
               (np.linalg, "cholesky"), (np.linalg, "svd")]

    def __enter__(self):
        self.args, self.orig = [], []
        for mod, name in self.TARGETS:
            orig = getattr(mod, name)
            self.orig.append((mod, name, orig))

            def rec(a, *r, _orig=orig, **k):
                try:
                    m = np.array(a, dtype=float, copy=True)
                    if m.ndim == 2 and m.shape[0] == m.shape[1]:
                        self.args.append(m)
                except Exception:
                    pass
                return _orig(a, *r, **k)
            setattr(mod, name, rec)
        return self

    def __exit__(self, *exc):
        for mod, name, orig in self.orig:
            setattr(mod, name, orig)
        return False


class PoolRecorder:
    """the constructor's own process pool (pathos), unchanged, with the results of `apply_async(...).get()` recorded together
    with the (i, j) they were computed for"""

    def __enter__(self):
        self.results, self.orig = [], mclc_mod.mp.Pool
        outer = self

        class Res:
            def __init__(self, r, args):
                self.r, self.args = r, args

            def get(self, *a, **k):
                v = self.r.get(*a, **k)
                outer.results.append(((int(self.args[0]), int(self.args[1])), float(v)))
                return v

        class Pool:
            def __init__(self, *a, **k):
                self.p = outer.orig(*a, **k)

            def __enter__(self):
                self.p.__enter__()
                return self

            def __exit__(self, *e):
                return self.p.__exit__(*e)

            def apply_async(self, f, args=(), **k):
                return Res(self.p.apply_async(f, args=args, **k), args)
        mclc_mod.mp.Pool = Pool
        return self

    def __exit__(self, *exc):
        mclc_mod.mp.Pool = self.orig
        return False


class ScriptedVolAdj:
    """stands for vol_adjustment_ij in the scripted stream: prescribed (dyadic) results, picklable for the pool"""

    def __init__(self, table):
        self.table = dict(table)

    def __call__(self, i, j, h, levy_model):
        return self.table[(int(i), int(j))]


def matrix_checks(ctx, d, cls, dim, fv, outs_ij, sig, Vs, D, exact, corr=True):
    """C: the matrices handed to sqrtm against M's assembly of the same results; S: what `variance_matrix_as_built` and
    `symm_sqrt_cov` state, on the implementation: symmetric, positive semi-definite, diagonal >= sigma², and the factor the
    simulation uses reproduces it (D·Dᵀ = variance matrix, whichever factorisation is called)"""
    order = [(i, j) for i in range(dim) for j in range(i, dim)]
    if not fv and [ij for ij, _ in outs_ij] != order:
        ctx.fail("oracle", "c04.variance_matrix.order", d, {"what": "vol_adjustment_ij is not evaluated once per pair i <= j in the "
                 "order the assembly loop consumes", "pairs_evaluated": [list(ij) for ij, _ in outs_ij]}, cls=cls)
        return None
    if fv and outs_ij:
        ctx.fail("oracle", "c04.variance_matrix.order", d, {"what": "finite variation: vol_adjustment_ij evaluated although no small-jump "
                 "term is added", "pairs_evaluated": [list(ij) for ij, _ in outs_ij]}, cls=cls)
        return None
    outs = [v for _, v in outs_ij]
    if nonfinite(results=outs, sigma=sig):
        ctx.fail("oracle", "c04.variance_matrix.nonfinite", d, {"what": "a small-jump covariance (vol_adjustment_ij) or a diffusion coefficient of a "
                 "margin is not a finite number", "results": [repr(v) for v in outs], "sigma": [repr(v) for v in sig]}, cls=cls)
        return None
    Dc0 = np.asarray(D)
    Vs = [W for W in Vs if W.shape == (dim, dim)]
    if not Vs:
        # no recognised factorisation call: take the covariance per unit time the simulation actually uses, D·Dᵀ, as the
        # variance matrix (then compared with M's assembly at 2^-40, not bit for bit)
        if not np.all(np.isfinite(Dc0.real)):
            ctx.fail("oracle", "c04.diffusion_factor", d, {"what": "diffusion matrix has non-finite entries", "diffusion_matrix": str(Dc0.tolist())[:400]}, cls=cls)
            return None
        Dr0 = np.asarray(Dc0.real, dtype=float)
        Vs, exact = [Dr0 @ Dr0.T], False
    V = Vs[-1]
    if not np.all(np.isfinite(V)):
        ctx.fail("oracle", "c04.variance_matrix.nonfinite", d, {"what": "the variance matrix handed to the factorisation has non-finite entries",
                                                              "variance_matrix": str(V.tolist())[:400]}, cls=cls)
        return None
    if any(not np.array_equal(V, W) for W in Vs):
        ctx.fail("oracle", "c04.variance_matrix.deterministic", d, {"what": "two constructions of the simulation object of the same chain "
                 "hand different matrices to the factorisation", "first": Vs[0].tolist(), "last": V.tolist()}, cls=cls)
        return None
    mirrors = None
    if corr:
        x = [Fraction(ctx.rng.randint(-8, 8), 4) for _ in range(dim)]
        out = ask(ctx, d, cls, ["assemble", str(dim), "1" if fv else "0", wl(outs), wl(sig), wl(x)], [rdll, rdll, rdll, str, rd])
        if out is None:
            return None
        adj, coded, spec, symm, qf = out
        if symm != "1" or qf < 0:
            ctx.fail("proof", "c04.variance_matrix.theorem", d, {"name": "variance_matrix_as_built contradicted by the driver", "symm": symm,
                                                                  "quadratic_form": str(qf)}, cls=cls)
            return None
        mirrors = True
        for i in range(dim):
            for j in range(dim):
                sc = sum((abs(adj[i][k] * adj[j][k]) for k in range(dim)), Fraction(0)) + (fr(sig[i]) ** 2 if i == j else 0)
                ok = (fr(float(V[i][j])) == coded[i][j]) if exact else close(float(V[i][j]), coded[i][j], scale=max(sc, Fraction(1, 2 ** 200)))
                if not ok and mirrors:
                    mirrors = False
                    ctx.fail("corr", "c04.variance_matrix.model", d, {"name": "Drivers/C04 assemble (adj from the results in loop order, adj·adjᵀ + diag σ²) "
                             "vs the matrix handed to sqrtm", "entry": [i, j], "impl": float(V[i][j]), "model": str(coded[i][j]),
                             "results": outs}, cls=cls)
    top = max(float(np.max(np.abs(V))), 1e-300)
    asym = float(np.max(np.abs(V - V.T)))
    if asym > 1e-12 * top:
        ctx.fail("oracle", "c04.variance_matrix.symmetric", d, {"variance_matrix": V.tolist(), "max_asymmetry": asym}, cls=cls, mirrors_model=mirrors)
        return mirrors
    ev = np.linalg.eigvalsh((V + V.T) / 2)
    if float(ev[0]) < -1e-10 * top:
        ctx.fail("oracle", "c04.variance_matrix.psd", d, {"variance_matrix": V.tolist(), "smallest_eigenvalue": float(ev[0])}, cls=cls, mirrors_model=mirrors)
        return mirrors
    bad = [k for k in range(dim) if not V[k][k] >= sig[k] ** 2 * (1 - 1e-12)]
    if bad:
        ctx.fail("oracle", "c04.variance_matrix.diag", d, {"margin": bad[0], "diag": [float(V[k][k]) for k in range(dim)], "sigma": sig}, cls=cls, mirrors_model=mirrors)
        return mirrors
    Dc = np.asarray(D)
    if np.iscomplexobj(Dc) and float(np.max(np.abs(Dc.imag))) > 1e-8 * math.sqrt(top):
        ctx.fail("oracle", "c04.diffusion_factor", d, {"what": "diffusion matrix is not real", "diffusion_matrix": str(Dc.tolist())[:400]}, cls=cls, mirrors_model=mirrors)
        return mirrors
    Dr = np.asarray(Dc.real, dtype=float)
    dev = float(np.max(np.abs(Dr @ Dr.T - V)))
    if not dev <= 1e-7 * top:
        ctx.fail("oracle", "c04.diffusion_factor", d, {"what": "covariance per unit time of the simulated diffusion part, D·Dᵀ, is not the variance "
                 "matrix the constructor computed", "D_Dt": (Dr @ Dr.T).tolist(), "variance_matrix": V.tolist(), "max_deviation": dev},
                 cls=cls, mirrors_model=mirrors)
        return mirrors
    ctx.branches[f"c04.variance_matrix_checked:d{dim}:{'fv' if fv else 'iv'}"] += 1
    return mirrors


def variance_matrix_probe(ctx, d, corr=True):
    """the real constructor (process pool + nquad).  C/S of `matrix_checks`; independent copula with infinite-variation margins in
    addition: the k-th diagonal entry of diffusion_matrix @ diffusion_matrix.T must be the variance the 1-d chain of margin k adds
    (sigma_k² + ∫ x² ν_k on the central cell)"""
    dim = d.get("dim", 2)
    margins = [make_margin(f, p) for f, p in d["margins"]]
    cm = zoo.make_copula_model(margins, zoo.make_copula(d["copula"], **d.get("copula_kw", {})))
    fv = bool(cm.jump_of_finite_variation())
    cls = dict(stream="variance_matrix", copula=d["copula"], dimension=dim, infinite_variation=not fv)
    g, _ = zoo.make_grid("fixed", None, d["h"], nb_of_points=5, dimension=dim)
    prod = the_product()
    with SqrtmRecorder() as sq, PoolRecorder() as pr:
        mc = MarkovChainLevyCopula(cm, g, SamplingMethod.BINARYSEARCHTREEADAPTED)
        n_first = len(pr.results)
        pre = []
        if d.get("init", True):
            mc.initialisation(prod)
            D = np.asarray(mc._path_simulation.diffusion_matrix)
            # every scheme of the live chain (each initialisation runs the constructor's pool + nquad again)
            pre = collect_schemes(mc, dim, full=False, first=prod)
        else:
            D = np.asarray(mc._path_simulation.diffusion_matrix)
    ctx.count("c04.variance_matrix", d, nontrivial=True, branch=f"{d['copula']}:d{dim}:{'fv' if fv else 'iv'}")
    sig = [float(m.diffusion_coefficient()) for m in margins]
    mirrors = matrix_checks(ctx, d, cls, dim, fv, pr.results[:n_first], sig, sq.args, D, exact=False, corr=corr)
    Dr = np.asarray(D.real, dtype=float)
    Vs = [W for W in sq.args if W.shape == (dim, dim)]
    runs = {}
    if pre and np.all(np.isfinite(Dr)):
        runs = schemes_matrix(ctx, d, cls, mc, dim, Vs[-1] if Vs else Dr @ Dr.T, "the variance matrix the constructor computed", pre=pre)
    if d["copula"] != "independent" or fv:
        return
    want = []
    for k, m in enumerate(margins):
        g1, _ = zoo.make_grid("fixed", None, d["h"], nb_of_points=5, dimension=1)
        want.append(float(MarkovChainProcess(m, SamplingMethod.INVERSION, g1).equivalent_diffusion_coefficient) ** 2)
    for where, M in [("diffusion_matrix", Dr)] + [(f"scheme {name}", r["A"]) for name, r in runs.items()]:
        V = M @ M.T
        bad = [k for k in range(dim) if not abs(V[k][k] - want[k]) <= 2e-2 * want[k] + 2e-3]      # nquad runs with epsabs = 1e-3
        if bad:
            ctx.fail("oracle", "c04.copula_variance", d, {"margin": bad[0], "matrix": where, "diag_of_D_Dt": [float(V[k][k]) for k in range(dim)],
                                                        "variance_of_the_1d_chain_of_the_margin": want, "diffusion_matrix": M.tolist()},
                     cls=cls, mirrors_model=mirrors)


SCRIPT_MARGINS = {True: [("hem", dict(sigma=0.0)), ("merton", dict(sigma=0.125)), ("hem", dict(sigma=0.25)), ("merton", dict(sigma=0.5)),
                         ("user", dict(parts=[("vg", {})], sigma=0.25)), ("user", dict(parts=[("cgmy", dict(c=0.5, g=10.0, m=12.0, y=0.5))], sigma=0.5))],
                  False: [("cgmy", dict(c=0.5, g=10.0, m=12.0, y=1.5)), ("hem", dict(sigma=0.25)), ("cgmy", dict(c=0.3, g=8.0, m=9.0, y=1.25)),
                          ("merton", dict(sigma=0.5)),
                          # user-defined margins: diffusion AND infinite-variation jumps in the same margin (no shipped family has both)
                          ("user", dict(parts=[("cgmy", dict(c=0.5, g=10.0, m=12.0, y=1.5))], sigma=0.25)),
                          ("user", dict(parts=[("cgmy", dict(c=0.3, g=8.0, m=9.0, y=1.25)), ("merton", {})], sigma=0.5))]}


def scripted_matrix_case(rng):
    dim = rng.choice([2, 3, 3, 4])
    fv = rng.random() < 0.25
    pool = SCRIPT_MARGINS[fv]
    margins = [pool[0]] + [rng.choice(pool) for _ in range(dim - 1)]       # pool[0] fixes the variation class of the copula
    table = [[i, j, rng.randint(-16, 16) / 16 if i != j else rng.randint(0, 16) / 16] for i in range(dim) for j in range(i, dim)]
    return dict(stream="variance_matrix_scripted", dim=dim, margins=margins, table=table, h=rng.choice([0.25, 0.125]))


def scripted_matrix_probe(ctx, d, corr=True):
    """the assembly / symmetrisation / adj·adjᵀ + σ² / sqrtm logic of `MCLevyCopulaSimulation.__init__` in d = 2, 3, 4 on prescribed
    dyadic results: the real class is constructed (real margins and copula model, the real process pool) with `vol_adjustment_ij`
    replaced by a table; finite variation: no result may be asked for"""
    import types
    dim = d["dim"]
    margins = [make_margin(f, p) for f, p in d["margins"]]
    cm = zoo.make_copula_model(margins, zoo.make_copula("independent"))
    fv = bool(cm.jump_of_finite_variation())
    cls = dict(stream="variance_matrix_scripted", dimension=dim, infinite_variation=not fv)
    table = {(int(i), int(j)): float(v) for i, j, v in d["table"]}
    stub = types.SimpleNamespace(model=cm, grid=types.SimpleNamespace(h=d["h"]))
    orig = mclc_mod.vol_adjustment_ij
    mclc_mod.vol_adjustment_ij = ScriptedVolAdj(table)
    try:
        with SqrtmRecorder() as sq, PoolRecorder() as pr:
            sim = mclc_mod.MCLevyCopulaSimulation(process=stub)
    finally:
        mclc_mod.vol_adjustment_ij = orig
    ctx.count("c04.variance_matrix_scripted", d, nontrivial=True, branch=f"d{dim}:{'fv' if fv else 'iv'}")
    sig = [float(m.diffusion_coefficient()) for m in margins]
    # the live chain (real grid, sampler, initialisation) with the same prescribed results, every simulation scheme
    pre, more = [], []
    if dim <= 3:
        g, _ = zoo.make_grid("fixed", None, d["h"], nb_of_points=5, dimension=dim)
        mclc_mod.vol_adjustment_ij = ScriptedVolAdj(table)
        try:
            with SqrtmRecorder() as sq2:
                mc = MarkovChainLevyCopula(cm, g, SamplingMethod.BINARYSEARCHTREEADAPTED)
                pre = collect_schemes(mc, dim, full=dim == 2)
            more = sq2.args
        finally:
            mclc_mod.vol_adjustment_ij = orig
    matrix_checks(ctx, d, cls, dim, fv, pr.results, sig, sq.args + more, sim.diffusion_matrix, exact=True, corr=corr)
    Dr = np.asarray(np.asarray(sim.diffusion_matrix).real, dtype=float)
    Vs = [W for W in sq.args if W.shape == (dim, dim)]
    if pre and np.all(np.isfinite(Dr)):
        schemes_matrix(ctx, d, cls, mc, dim, Vs[-1] if Vs else Dr @ Dr.T, "the variance matrix assembled from the prescribed results "
                       "(adj·adjᵀ + diag sigma² as built; finite variation: diag sigma²)", pre=pre)


# ------------------------------------------------------------------------------------------------------------ entry points
def run(ctx, corr=True):
    rng = ctx.rng
    run_1d(ctx, nmodels=ctx.n(40, 700), corr=corr)
    for _ in range(ctx.n(60, 1500)):
        synthetic_probe(ctx, synthetic_case(rng), corr=corr)
    for _ in range(ctx.n(16, 200)):
        copula_probe(ctx, copula_case(rng), corr=corr)
    c15, c13, c12 = ("cgmy", dict(c=0.5, g=10.0, m=12.0, y=1.5)), ("cgmy", dict(c=0.3, g=8.0, m=9.0, y=1.3)), ("cgmy", dict(c=0.4, g=6.0, m=7.0, y=1.2))
    vm = [dict(stream="variance_matrix", copula="independent", h=0.1, margins=[c15, c13]),
          dict(stream="variance_matrix", copula="clayton", copula_kw=dict(theta=0.7, eta=0.3), h=0.1, margins=[c15, c13]),
          dict(stream="variance_matrix", copula="independent", h=0.1, margins=[("hem", dict(sigma=0.25)), ("merton", {})])]
    if ctx.thorough:
        vm += [dict(stream="variance_matrix", copula="independent", h=rng.choice([0.2, 0.05]),
                    margins=[("cgmy", zoo.draw_params(rng, "cgmy", 1.5)), ("cgmy", zoo.draw_params(rng, "cgmy", 1.5))]) for _ in range(4)]
        vm += [dict(stream="variance_matrix", copula="clayton", copula_kw=dict(theta=rng.choice([0.3, 1.0, 2.5]), eta=rng.choice([0.1, 0.5, 0.9])),
                    h=rng.choice([0.2, 0.1]), margins=[("cgmy", zoo.draw_params(rng, "cgmy", 1.5)), ("hem", zoo.draw_params(rng, "hem"))])
               for _ in range(2)]
        vm += [dict(stream="variance_matrix", copula="independent", h=0.1, dim=3, init=False, margins=[c15, c13, c12])]
    for d in vm:
        guarded(ctx, d, dict(stream="variance_matrix", dimension=d.get("dim", 2)), variance_matrix_probe, ctx, d, corr=corr)
    for _ in range(ctx.n(12, 120)):
        d = scripted_matrix_case(rng)
        guarded(ctx, d, dict(stream="variance_matrix_scripted", dimension=d["dim"]), scripted_matrix_probe, ctx, d, corr=corr)
    run_user(ctx, ctx.n(24, 400), corr=corr)
    run_degenerate(ctx, ctx.n(60, 900), corr=corr)
    ctx.notes.append(f"largest deviations: mean oracle {MAXDEV['mean']:.2e} (tolerance {MEAN_REL}), eqDiff² vs quadrature {MAXDEV['eqdiff']:.2e} "
                     f"(1e-8), variance gap / bound {MAXDEV['var_ratio']:.3f} (<= 1), independent-copula margin mean {MAXDEV['margin_indep']:.2e}; simulation schemes: coefficient² applied vs oracle "
                     f"{MAXDEV['scheme_coef']:.2e} (1e-8), drift applied vs oracle {MAXDEV['scheme_drift']:.2e} ({MEAN_REL})")


def search(ctx):
    run_1d(ctx, nmodels=ctx.n(60, 400), corr=False)
    for _ in range(ctx.n(200, 1000)):
        synthetic_probe(ctx, synthetic_case(ctx.rng), corr=False)
    for _ in range(ctx.n(20, 100)):
        copula_probe(ctx, copula_case(ctx.rng), corr=False)
    for _ in range(ctx.n(40, 200)):
        d = scripted_matrix_case(ctx.rng)
        guarded(ctx, d, dict(stream="variance_matrix_scripted", dimension=d["dim"]), scripted_matrix_probe, ctx, d, corr=False)
    run_user(ctx, ctx.n(40, 300), corr=False)
    run_degenerate(ctx, ctx.n(120, 600), corr=False)


def replay(ctx, rec):
    d = rec["input"]
    s = d.get("stream")
    if s == "synthetic":
        synthetic_probe(ctx, d)
    elif s == "1d":
        model = zoo.make_exp(d["family"], d["params"]) if d.get("exp") else zoo.make_levy(d["family"], d["params"])
        rep = None
        if d["rep"] != "AS_BUILT":
            rep = REPS[d["rep"]]
            model.levy_triplet.set_representation(rep)
        g = grid_from_desc(model, d["grid"])
        for _ in range(d["k"]):
            g.refine()
        cls = rec.get("cls") or dict(stream="1d", kind=d["grid"]["kind"], family=d["family"], dimension=1)
        guarded(ctx, d, cls, chain_probe, ctx, d, cls, model, rep, g, d["method"])
    elif s == "onesided":
        degenerate_probe(ctx, d)
    elif s == "user":
        user_probe(ctx, dict(d, parts=[tuple(m) for m in d["parts"]]))
    elif s == "copula":
        d = {k: v for k, v in d.items() if k != "margin"}
        copula_probe(ctx, dict(d, margins=[tuple(m) for m in d["margins"]]))
    elif s == "variance_matrix":
        variance_matrix_probe(ctx, dict(d, margins=[tuple(m) for m in d["margins"]]))
    elif s == "variance_matrix_scripted":
        scripted_matrix_probe(ctx, dict(d, margins=[tuple(m) for m in d["margins"]]))
    else:
        raise Infra(f"unknown replay record stream {s!r}")
