"""C01 — CTMC jump rates are the Lévy-measure masses of the grid cells, 1-d and copula (DESIGN.md §4 C01).

C (correspondence): the real chain (MarkovChainProcess / MarkovChainLevyCopula / samplingfactory) against the Lean
model RpylibModel/Model/Cells.lean run by Drivers/C01.lean.  The model is fed a mass table that the harness measures
on the *original, untruncated* `nu.integrate` / `model.mass` at exactly the intervals / boxes the model asks for
(`queries1d`, `queriesNd`); truncation, clamping, cell structure, blocks, sums are the model's own.
S (oracle, independent of the model): Σ rates = intensity, rates >= -1e-15, every state inside its own cell, cells
tile the truncated support, truncation does not change a rate, each rate = scipy quadrature of the density on the cell.
The density / mass is always that of the model the caller PASSED IN: for a model whose measure had been restricted before
(truncate_levy_measure, TruncatedLevyMeasure, `.model` of another chain) the cells are cut with the intersection of the
earlier intervals and integrated against the family's un-restricted density (streams 1d_pre, synthetic_pre).
"""
from __future__ import annotations

import copy
import itertools
import math
from fractions import Fraction

import traceback
import warnings

import numpy as np
import scipy.linalg
from scipy.integrate import quad, dblquad

from .. import zoo
from ..common import w, wl, wll, rd, rdl, rdll, close, fr, Infra

from rpylib.distribution.sampling import SamplingMethod
from rpylib.distribution.samplingfactory import (create_q_vector, compute_intensity_of_jumps,
                                                 create_sampling_inversion_method)
from rpylib.distribution.variate.binarysearchtreeadapted import BinarySearchTreeAdapted
from rpylib.grid.grid import Coordinates
from rpylib.model.levymodel.levymodel import LevyRepresentation, TruncatedLevyMeasure
from rpylib.process.markovchain.markovchain import MarkovChainProcess
from rpylib.process.markovchain.markovchainlevycopula import MarkovChainLevyCopula

RULE = ("structured 1-d: model families (HEM, Merton, VG, CGMY in all five activity branches) x parameter draws x the six "
        "grid constructors x h in {0.2,0.1,0.05,0.02} x 0..3 refinements, chain built by MarkovChainProcess with INVERSION or "
        "BINARYSEARCHTREEADAPTED1D; synthetic exact: random dyadic axes x piecewise-constant dyadic densities (zoo.TableMeasure), "
        "masses computed by the model itself and compared exactly; copula: margins drawn from the families x Clayton/independent/"
        "dependent x fixed-size, geometric-with-bounds and credit grids of 5..9 points per axis, and raw CTMCGrids whose axes have pairwise different lengths, x d in {2,3} x 0..1 refinements. "
        "models restricted before (1d_pre / synthetic_pre): a model of the families (or the exact table) whose Levy measure was restricted 1..3 times "
        "before it is handed to the chain -- public LevyModel.truncate_levy_measure, the TruncatedLevyMeasure class, or because it is the "
        "`.model` of an earlier chain on another (fixed-size / geometric-with-bounds) grid, in any order -- with every end placed relative to the "
        "grid (inside between states, exactly on a state / a cell boundary / the grid bound, 1.25..5x wider, one side inside the origin's cell), "
        "x fixed-size, geometric-with-bounds, uniform, geometric and credit grids (built from the un-restricted model) x 0..2 refinements; the "
        "rates are judged against the measure of the model PASSED IN: the family's un-restricted density / closed-form mass (table: exact mass) "
        "on each cell cut with the intersection of the earlier intervals. "
        "non-trivial = the grid was built, is well formed (C13) and has >= 5 points per axis; distinct = distinct "
        "(model, parameters, constructor arguments, refinements, method)")
NOT_PROVED = [
    "additivity / non-negativity of the concrete families' integrate() and of LevyCopulaModel.mass (hypotheses IsMass, "
    "IsBoxMass2/3 of the theorems) are C09 / C11 / C12's subject; here they are oracle-checked (sum = intensity, strip sums, quadrature)",
    "general dimension d > 3 (the code's generic _mass_nd path): theorems are written out for d = 1, 2, 3",
    "the probability-median middle() of CTMCGridProbabilityStep (a brentq root search) is only checked on the implementation; "
    "where the float mass of an outer gap underflows to 0 it returns the gap's left end, i.e. hypothesis Between fails for that "
    "gap (degenerate first cell, still tiling): such chains are covered by the oracle only; root-searched truncation bounds are C13's subject",
    "float rounding of the summation of rates (compared at 1e-12*n relative)",
]
ASSUMPTIONS = [
    "cell boundaries 0.5*(a+b) are compared with the exact rational midpoint at 2^-40 relative; masses evaluated by the real "
    "integrate()/mass() at the model's boundaries are compared at 2^-40 relative to the mass",
    "quadrature oracle: scipy.integrate.quad(epsabs=0, epsrel=1e-11) of the untruncated density on the cell, tolerance 1e-7 "
    "relative + 1e-13*intensity absolute",
    "a model whose measure was restricted to intervals I1..Im before (truncate_levy_measure / TruncatedLevyMeasure / `.model` of a chain) "
    "is read as the Levy model whose measure is the family's measure restricted to the intersection of I1..Im (C09's statement on the "
    "truncated measure); its cell masses are computed by the harness from the family's un-restricted measure on (cell cut with the "
    "intersection): quadrature of the density at the tolerance above, and the family's own integrate() at 1e-10 relative + 1e-13*intensity "
    "(probes c01.rate_is_input_measure_cell_mass, c01.intensity_is_input_measure_mass); grids of these streams are built from the "
    "un-restricted model (what a model-driven grid constructor makes of a restricted model is C13's subject)",
]
TRUSTED = ["scipy.integrate.quad (oracle only)", "scipy.special functions inside the families' integrate() (C09)"]

warnings.filterwarnings("ignore", category=scipy.linalg.LinAlgWarning)   # sqrtm of a zero variance matrix in the copula chain ctor

ORACLE_SUM_REL = 1e-12
NEG_TOL = -1e-15
METHODS = {"INVERSION": SamplingMethod.INVERSION, "BINARYSEARCHTREEADAPTED1D": SamplingMethod.BINARYSEARCHTREEADAPTED1D}


# ------------------------------------------------------------------------------------------------------------ helpers
def axis_ok(ax, o):
    return 0 < o < len(ax) - 1 and ax[o] == 0.0 and all(a < b for a, b in zip(ax, ax[1:]))


def relclose(py, lean, floor=Fraction(0)):
    """2^-40 relative to the value itself (a handful of float operations on exactly transmitted inputs)"""
    return close(py, lean, scale=max(abs(fr(lean)), fr(floor)))


def grid_from_desc(model, gd):
    kw = {}
    for src, dst in (("tp", "truncation_probability"), ("nb", "nb_of_points" if gd["kind"] == "fixed" else "nb"),
                     ("tr", "truncations"), ("mps", "minimum_probability_step"), ("a", "level_a"), ("sym", "symmetric_grid")):
        if src in gd:
            kw[dst] = tuple(gd[src]) if src == "tr" else gd[src]
    g, _ = zoo.make_grid(gd["kind"], model, gd["h"], dimension=gd.get("dim", 1), **kw)
    return g


def impl_cells_1d(g):
    ax = g.axes[0]
    lo = [float(g.middle(g.left_point(k), ax[k])) for k in range(len(ax))]
    hi = [float(g.middle(ax[k], g.right_point(k))) for k in range(len(ax))]
    return lo, hi


def mid_table(g, ax, o):
    """measured table of the grid's own middle() for the probability-step grid ([] = arithmetic mean)"""
    if not isinstance(g, zoo.CTMCGridProbabilityStep):
        return "[]"
    rows, seen = [], set()
    n = len(ax)
    for k in range(n):
        for a, b in ((ax[max(0, k - 1)], ax[k]), (ax[k], ax[min(n - 1, k + 1)])):
            if (a, b) not in seen:
                seen.add((a, b))
                rows.append([a, b, float(g.middle(a, b))])
    return wll(rows)


# ------------------------------------------------------------------------------------------------- S: 1-d oracles
def clip_to(support, a, b):
    """[a, b] cut with the interval the caller's measure was restricted to before (None when nothing is left)"""
    if support is None:
        return a, b
    a, b = max(a, support[0]), min(b, support[1])
    return (a, b) if a < b else None


def oracle_1d(ctx, d, cls, g, ax, o, q, q_untruncated, intensity, lo, hi, density, nquad, exact_mass=None, support=None):
    """the property on the implementation; returns False after the first failure.  `density` / `exact_mass` describe the
    measure of the model the caller passed in; when that measure had been restricted before (`support` = intersection of the
    earlier restrictions) they are the un-restricted density / mass and every cell is cut with `support` here"""
    n = len(ax)
    # cells tile the truncated support, no gap / no overlap
    for k in range(n - 1):
        if hi[k] != lo[k + 1]:
            ctx.fail("oracle", "c01.cells.tile", d, {"k": k, "cellHi": hi[k], "next_cellLo": lo[k + 1]}, cls=cls)
            return False
    if lo[0] != ax[0] or hi[-1] != ax[-1]:
        ctx.fail("oracle", "c01.cells.tile", d, {"what": "ends", "cellLo0": lo[0], "axis0": ax[0], "cellHi_last": hi[-1],
                                               "axis_last": ax[-1]}, cls=cls)
        return False
    # each state inside its own cell (the property does not ask for strictness: the probability median of a gap whose
    # float mass underflows to 0 is the gap's left end, CTMCGridProbabilityStep.middle)
    for k in range(n):
        ok = lo[k] <= ax[k] <= hi[k]
        if not ok:
            ctx.fail("oracle", "c01.state_in_cell", d, {"k": k, "cellLo": lo[k], "x": ax[k], "cellHi": hi[k]}, cls=cls)
            return False
    # rates: sign, origin, sum
    if q[o] != 0.0:
        ctx.fail("oracle", "c01.rates.origin", d, {"q_origin": float(q[o])}, cls=cls)
        return False
    bad = [(k, float(x)) for k, x in enumerate(q) if not (x >= NEG_TOL)]
    if bad:
        ctx.fail("oracle", "c01.rates.nonneg", d, {"negative": bad[:5]}, cls=cls)
        return False
    s = math.fsum(float(x) for x in q)
    if not abs(s - intensity) <= ORACLE_SUM_REL * n * max(abs(intensity), 1e-300):
        ctx.fail("oracle", "c01.sum_rates_eq_intensity", d, {"sum_rates": s, "intensity": float(intensity), "n": n}, cls=cls)
        return False
    # "(truncated) mass": the truncation to [axis[0], axis[-1]] does not change the mass of any cell
    for k in range(n):
        if k != o and q[k] != q_untruncated[k]:
            ctx.fail("oracle", "c01.rates.truncation", d, {"k": k, "truncated": float(q[k]), "untruncated": float(q_untruncated[k])},
                     cls=cls)
            return False
    # each rate is the mass of its cell: exact for the synthetic measure, independent quadrature otherwise
    ks = [k for k in range(n) if k != o]
    if exact_mass is not None:
        for k in ks:
            cut = clip_to(support, lo[k], hi[k])
            e = exact_mass(*cut) if cut else Fraction(0)
            if fr(q[k]) != e:
                ctx.fail("oracle", "c01.rate_is_cell_mass", d, {"k": k, "rate": float(q[k]), "exact": str(e)}, cls=cls)
                return False
    elif density is not None and nquad:
        pick = ks if nquad >= len(ks) else sorted(set([0, o - 1, o + 1, n - 1] + ctx.rng.sample(ks, min(nquad, len(ks)))) - {o})
        for k in pick:
            cut = clip_to(support, lo[k], hi[k])
            v = 0.0
            if cut:
                v, _err = quad(density, cut[0], cut[1], epsabs=0.0, epsrel=1e-11, limit=200,
                               points=[ax[k]] if cut[0] < ax[k] < cut[1] else None)
            if not abs(float(q[k]) - v) <= 1e-7 * abs(v) + 1e-13 * abs(intensity):
                ctx.fail("oracle", "c01.rate_is_cell_mass", d, {"k": k, "cell": [lo[k], hi[k]], "rate": float(q[k]), "quadrature": v,
                                                              **({"input_measure_restricted_to": list(support)} if support else {})},
                         cls=cls)
                return False
        ctx.branches["c01.quadrature_cells"] += len(pick)
    return True


# ------------------------------------------------------------------------------------------------- C + S: one 1-d chain
def input_measure_oracle(ctx, d, cls, base, support, ax, o, lo, hi, hl, hr, q, intensity):
    """S for a model whose measure had been restricted before it was handed to the chain: the Levy measure of THAT model is the
    family's measure restricted to `support` (the intersection of all earlier restrictions), so the rate of a state is the
    family's mass of (its cell cut with `support`) -- 0 for a cell outside -- and the intensity is the mass of `support` cut with
    the grid, minus the central cell.  `base` is the family's own un-restricted measure (closed forms: C09's subject); the
    quadrature of its density on the cut cells is done in oracle_1d"""
    n = len(ax)
    tol = lambda e: 1e-10 * abs(e) + 1e-13 * abs(intensity)
    for k in range(n):
        if k == o:
            continue
        cut = clip_to(support, lo[k], hi[k])
        e = float(base.integrate(cut[0], cut[1])) if cut else 0.0
        if not abs(float(q[k]) - e) <= tol(e):
            ctx.fail("oracle", "c01.rate_is_input_measure_cell_mass", d,
                     {"k": k, "x": ax[k], "cell": [lo[k], hi[k]], "input_measure_restricted_to": list(support), "rate": float(q[k]),
                      "mass_of_cell_under_input_measure": e}, cls=cls)
            return False
    tot = 0.0
    for a, b in ((ax[0], hl), (hr, ax[-1])):
        cut = clip_to(support, a, b)
        tot += float(base.integrate(cut[0], cut[1])) if cut else 0.0
    if not abs(float(intensity) - tot) <= 1e-10 * abs(tot) + 1e-300:
        ctx.fail("oracle", "c01.intensity_is_input_measure_mass", d,
                 {"intensity_of_jumps": float(intensity), "mass_outside_central_cell_under_input_measure": tot,
                  "input_measure_restricted_to": list(support), "grid_bounds": [ax[0], ax[-1]]}, cls=cls)
        return False
    return True


def chain1d_probe(ctx, d, cls, model, g, method_name, nquad, corr=True, synthetic=None, base=None, support=None):
    """`base` / `support`: the caller's model carries `base` restricted to `support` (earlier truncations, see pretruncated_probe)"""
    ax = [float(x) for x in g.axes[0]]
    o = int(g.origin_coordinate.value)
    n = len(ax)
    arithmetic = not isinstance(g, zoo.CTMCGridProbabilityStep)
    nu0 = model.levy_triplet.nu              # the caller's measure
    try:
        mc = MarkovChainProcess(model, METHODS[method_name], g)
        nu_t = mc.model.levy_triplet.nu      # what the chain uses: truncated to grid.truncations[0]
        q = create_q_vector(nu_t, g)
        q0 = create_q_vector(nu0, g)
        intensity = mc.intensity_of_jumps
        lo, hi = impl_cells_1d(g)
        hl = float(g.middle(g.left_point(g.origin_coordinate), g.origin))
        hr = float(g.middle(g.origin, g.right_point(g.origin_coordinate)))
    except Infra:
        raise
    except Exception as e:                   # a supported model on a well-formed grid: the chain must exist
        ctx.count("c01.chain1d", d, nontrivial=False, branch="raises")
        ctx.fail("oracle", "c01.chain.raises", d, {"exception": repr(e)[:500]}, cls=cls)
        return
    ctx.count("c01.chain1d", d, nontrivial=n >= 5, branch=f"{cls.get('kind')}:{cls.get('family')}")
    ctx.branches[f"c01.chain1d:method:{method_name}"] += 1
    exact_mass = None
    if synthetic is not None:
        tm = synthetic
        exact_mass = lambda a, b: tm._exact(a, b, 0)
    ok = oracle_1d(ctx, d, cls, g, ax, o, q, q0, intensity, lo, hi,
                   None if synthetic is not None else (base if support is not None else nu0), nquad,
                   exact_mass=exact_mass, support=support)
    if ok and support is not None:
        ok = input_measure_oracle(ctx, d, cls, base, support, ax, o, lo, hi, hl, hr, q, intensity)
    if ok and method_name == "INVERSION" and intensity > 0:
        # the inversion sampler's per-state probability is rate / intensity (S: against create_q_vector, itself checked above)
        prob = mc.sampling.probability_to_jump_to_state
        for k in range(n):
            if k != o:
                p = prob(k - o)
                if not abs(p * intensity - max(float(q[k]), 0.0)) <= 1e-13 * intensity + 1e-12 * abs(float(q[k])):
                    ctx.fail("oracle", "c01.jumpprob_is_rate", d, {"k": k, "probability_to_jump_to_state": float(p),
                                                                 "rate_over_intensity": float(q[k]) / intensity}, cls=cls)
                    ok = False
                    break
    if (ok and method_name == "BINARYSEARCHTREEADAPTED1D" and intensity > 0 and arithmetic and 0 < o < n - 1
            and math.isclose(ax[o - 1], -g.h, rel_tol=1e-12) and math.isclose(ax[o + 1], g.h, rel_tol=1e-12)):
        # S: the adapted sampler first chooses the side of the origin; the probability of the left side must be the summed
        # rate of the states left of the origin over the intensity (rates themselves were checked against the density above)
        left = sum(max(float(x), 0.0) for x in q[:o])
        pl = float(mc.sampling._proba_left_axis)
        if not abs(pl * intensity - left) <= 1e-12 * intensity:
            ctx.fail("oracle", "c01.adapted_left_block_is_rate_sum", d,
                     {"proba_left_axis": pl, "left_rates_over_intensity": left / intensity, "intensity": float(intensity)}, cls=cls)
            ok = False
    if not ok or not corr:
        return
    # ---- C: cell structure
    tbl = mid_table(g, ax, o)
    out = ctx.lean(f"cells1d {wl(ax)} {tbl}").split(" ")
    m_lo, m_hi = rdl(out[0]), rdl(out[1])
    sc = [max(abs(fr(ax[max(0, k - 1)])), abs(fr(ax[min(n - 1, k + 1)])), fr(g.h)) for k in range(n)]
    if not (len(m_lo) == n and len(m_hi) == n and all(close(lo[k], m_lo[k], scale=sc[k]) and close(hi[k], m_hi[k], scale=sc[k])
                                                      for k in range(n))):
        ctx.fail("corr", "c01.cells.model", d, {"name": "Drivers/C01 cells1d vs grid.middle(left_point/right_point)",
                                              "impl_lo": lo[:8], "impl_hi": hi[:8], "model": [str(x) for x in m_lo[:8]]}, cls=cls)
        return
    out = ctx.lean(f"origin1d {wl(ax)} {o} {tbl}").split(" ")
    if not (close(hl, rd(out[0]), scale=fr(g.h)) and close(hr, rd(out[1]), scale=fr(g.h))):
        ctx.fail("corr", "c01.origin.model", d, {"name": "Drivers/C01 origin1d vs h_left/h_right", "impl": [hl, hr], "model": out}, cls=cls)
        return
    # ---- C: rates / intensity / per-state probabilities on the mass table M asks for
    if synthetic is not None:
        out = ctx.lean(f"step1d {wl(ax)} {o} {wl(synthetic.knots)} {wl(synthetic.heights)}").split(" ")
    else:
        qs = rdll(ctx.lean(f"queries1d {wl(ax)} {o} {tbl}"))
        if len(qs) != n + 1:
            ctx.fail("corr", "c01.queries.model", d, {"name": "Drivers/C01 queries1d", "len": len(qs)}, cls=cls)
            return
        vals = [nu0.integrate(float(a), float(b)) for a, b in qs]
        out = ctx.lean(f"chain1d {wl(ax)} {o} {tbl} {wl(vals)}").split(" ")
    m_q, m_i, m_p = rdl(out[0]), rd(out[1]), rdl(out[2])
    exact = synthetic is not None
    same = (lambda a, b: fr(a) == b) if exact else relclose
    badk = [k for k in range(n) if not same(q[k], m_q[k])]
    if badk:
        k = badk[0]
        ctx.fail("corr", "c01.rates.model", d, {"name": "Drivers/C01 rate vs create_q_vector", "k": k, "impl": float(q[k]),
                                              "model": str(m_q[k]), "count": len(badk)}, cls=cls)
        return
    if not (same(intensity, m_i) if exact else close(intensity, m_i, scale=abs(m_i))):
        ctx.fail("corr", "c01.intensity.model", d, {"name": "Drivers/C01 intensity1d vs MarkovChainProcess.intensity_of_jumps",
                                                  "impl": float(intensity), "model": str(m_i)}, cls=cls)
        return
    if method_name == "INVERSION" and intensity > 0:
        prob = mc.sampling.probability_to_jump_to_state
        for k in range(n):
            if k == o:
                continue
            p = prob(k - o)
            if not close(p, m_p[k], scale=max(abs(m_p[k]), Fraction(1, 2 ** 200))):
                ctx.fail("corr", "c01.jumpprob.model", d, {"name": "Drivers/C01 jumpProb vs probability_to_jump_to_state", "k": k,
                                                         "impl": float(p), "model": str(m_p[k])}, cls=cls)
                return
    elif method_name == "BINARYSEARCHTREEADAPTED1D" and intensity > 0 and not (
            math.isclose(ax[o - 1], -g.h, rel_tol=1e-12) and math.isclose(ax[o + 1], g.h, rel_tol=1e-12)):
        # neighbours of 0 are not -h / +h (C13's known finding on the constructor): the adapted-1d sampler hard-codes -h/2
        ctx.branches["c01.leftprob_skipped_neighbours_not_h"] += 1
    elif method_name == "BINARYSEARCHTREEADAPTED1D" and intensity > 0:
        left = sum(m_q[:o], Fraction(0)) / m_i          # = mass of the left block / intensity (theorem sum_rates…)
        if not close(mc.sampling._proba_left_axis, left, scale=Fraction(1)):
            ctx.fail("corr", "c01.leftprob.model", d, {"name": "Drivers/C01 left block / intensity vs BinarySearchTreeAdapted1D._proba_left_axis",
                                                     "impl": float(mc.sampling._proba_left_axis), "model": str(left)}, cls=cls)


def refine_cells_probe(ctx, d, cls, base_axis, o, k, g):
    """cells of the k-times refined grid: model refines by itself (C13's refineN) and recomputes the cells"""
    out = ctx.lean(f"refcells {wl(base_axis)} {o} {k}").split(" ")
    m_ax, m_o, m_lo, m_hi = rdl(out[0]), int(out[1]), rdl(out[2]), rdl(out[3])
    ax = [float(x) for x in g.axes[0]]
    lo, hi = impl_cells_1d(g)
    sc = max(abs(fr(ax[0])), abs(fr(ax[-1])))
    ok = (len(m_ax) == len(ax) and m_o == int(g.origin_coordinate.value)
          and all(close(a, b, scale=sc) for a, b in zip(ax, m_ax))
          and all(close(a, b, scale=sc) for a, b in zip(lo, m_lo)) and all(close(a, b, scale=sc) for a, b in zip(hi, m_hi)))
    ctx.branches["c01.refcells"] += 1
    if not ok:
        ctx.fail("corr", "c01.refine.model", dict(d, k=k), {"name": "Drivers/C01 refcells vs CTMCGrid.refine + cells",
                                                          "impl_axis": ax[:9], "model_axis": [str(x) for x in m_ax[:9]]}, cls=cls)


def draw_grid_kw(rng, kind):
    """spatial step and constructor arguments of one of the six grid constructors"""
    h = rng.choice([0.2, 0.1, 0.05, 0.02])
    kw = {}
    if kind in ("uniform", "geometric"):
        kw["truncation_probability"] = rng.choice([0.99, 0.999, 0.99999])
    if kind in ("geometric", "geometric_bounds"):
        kw["nb"] = rng.choice([2, 3, 5, 8])
    if kind == "geometric_bounds":
        kw["truncations"] = (-rng.choice([0.5, 1.0, 2.0]), rng.choice([0.75, 1.5, 3.0]))
    if kind == "fixed":
        kw["nb_of_points"] = rng.choice([3, 5, 8, 9, 21])
    if kind == "probstep":
        kw["minimum_probability_step"] = rng.choice([0.05, 0.1, 0.2])
        h = max(h, 0.05)
    if kind == "credit":
        kw["level_a"] = -rng.choice([0.25, 0.3, 0.5])
    return h, kw


def run_1d(ctx, nmodels, kmax, nquad, corr=True):
    rng = ctx.rng
    for fam, params in zoo.model_stream(rng, nmodels):
        model = zoo.make_levy(fam, params)
        for kind in zoo.GRID_KINDS:
            h, kw = draw_grid_kw(rng, kind)
            try:
                g, gd = zoo.make_grid(kind, model, h, **kw)
            except Exception as e:          # constructor rejected these arguments (C13's subject)
                ctx.branches[f"c01.ctor_raises:{kind}:{type(e).__name__}"] += 1
                continue
            ax0 = [float(x) for x in g.axes[0]]
            o0 = int(g.origin_coordinate.value)
            if not axis_ok(ax0, o0):         # not a well-formed grid: C13's known findings, not C01's subject
                ctx.branches[f"c01.skipped_not_wellformed:{kind}"] += 1
                continue
            k = rng.randint(0, kmax if kind != "probstep" else min(kmax, 2))
            while k > 0 and (len(ax0) - 1) * 2 ** k + 1 > 700:
                k -= 1
            for _ in range(k):
                g.refine()
            if not axis_ok([float(x) for x in g.axes[0]], int(g.origin_coordinate.value)):
                # probability-step grid whose outer gaps have float mass 0: middle() returns the left end and refine()
                # duplicates it (C13's subject: refinement nests grids)
                ctx.branches[f"c01.skipped_not_wellformed_after_refine:{kind}"] += 1
                continue
            method = "INVERSION" if rng.random() < 0.7 else "BINARYSEARCHTREEADAPTED1D"
            d = dict(stream="1d", family=fam, params=params, grid=gd, k=k, method=method)
            cls = dict(stream="1d", kind=kind, family=fam, k=k)
            guarded(ctx, d, cls, chain1d_probe, ctx, d, cls, model, g, method, nquad, corr=corr)
            if corr and k > 0 and kind != "probstep":
                refine_cells_probe(ctx, d, cls, ax0, o0, k, g)


# ------------------------------------------------------------------------------------------------- synthetic exact stream
def synthetic_case(rng):
    n_left, n_right = rng.randint(1, 6), rng.randint(1, 6)
    h = rng.choice([1.0, 0.5, 0.25])
    steps = lambda m: list(np.cumsum([h] + [rng.randint(1, 32) / 32 for _ in range(m - 1)]))
    left = [-x for x in steps(n_left)][::-1]
    right = steps(n_right)
    axis = [float(x) for x in left] + [0.0] + [float(x) for x in right]
    # knots: dyadic, sometimes wider and sometimes narrower than the axis (truncation active in both directions)
    span = max(-axis[0], axis[-1])
    kn = sorted({rng.randint(-64, 64) / 16 * (span / 4 if rng.random() < 0.5 else span / 2) for _ in range(rng.randint(2, 9))})
    kn = sorted({round(x * 64) / 64 for x in kn})
    if len(kn) < 2:
        kn = [-span, span]
    heights = [rng.choice([0, 1, 2, 3, 5, 8]) / 4 for _ in range(len(kn) - 1)]
    return dict(stream="synthetic", axis=axis, o=n_left, h=h, knots=[float(x) for x in kn], heights=heights,
                k=rng.randint(0, 2), method=rng.choice(["INVERSION", "BINARYSEARCHTREEADAPTED1D"]))


def synthetic_probe(ctx, d, corr=True):
    tm = zoo.TableMeasure(d["knots"], d["heights"])
    model = zoo.make_levy("hem", {})
    model.levy_triplet.nu = tm
    g = zoo.CTMCGrid(h=d["h"], origin_coordinate=d["o"], axes=[np.array(d["axis"])])
    for _ in range(d["k"]):
        g.refine()
    cls = dict(stream="synthetic", kind="synthetic", family="table", k=d["k"])
    if d.get("pre"):
        # the model's measure was restricted before (1-3 times, API or wrapper class): the measure of the model handed to the chain
        # is the table cut with the intersection, which the harness computes by itself -- oracle and Lean model get that table
        for how, l, r in d["pre"]:
            restrict(model, how, l, r)
        support = (max(Fraction(l) for _, l, _r in d["pre"]), min(Fraction(r) for _, _l, r in d["pre"]))
        tm = zoo.TableMeasure(*restricted_table(tm.knots, tm.heights, support))
        cls = dict(cls, stream="synthetic_pre", history="t" * len(d["pre"]))
        ctx.branches[f"c01.synthetic_pre:{len(d['pre'])}"] += 1
    method = d["method"]
    half = Fraction(d["h"]) / 2 ** (d["k"] + 1)
    if tm._exact(d["axis"][0], -half, 0) + tm._exact(half, d["axis"][-1], 0) == 0:
        # no mass outside the origin's cell: a chain that never jumps; the inversion sampler's constructor divides by the
        # intensity, the adapted-1d sampler guards it -- degenerate, outside the property, kept as a crash test of the rest
        method = "BINARYSEARCHTREEADAPTED1D"
        ctx.branches["c01.synthetic:zero_intensity"] += 1
    guarded(ctx, d, cls, chain1d_probe, ctx, d, cls, model, g, method, 0, corr=corr, synthetic=tm)


# ------------------------------------------------------------------------- models whose measure was restricted before
# "every supported Levy model": a model whose Levy measure was restricted earlier -- by the public
# `LevyModel.truncate_levy_measure`, by wrapping it in a `TruncatedLevyMeasure`, or because it is the `.model` of another chain
# (MarkovChainProcess hands out a deep copy truncated to that chain's grid) -- is a Levy model whose measure is the family's
# measure restricted to the intersection of those intervals.  The chain built on it must give every state the mass of its
# cell under THAT measure, whatever the position of the earlier intervals relative to the grid (narrower, wider, overlapping
# on one side, cut exactly on a state / a cell boundary / the grid bound, no mass on one side of the origin).
def restrict(model, how, l, r):
    if how == "api":
        model.truncate_levy_measure((l, r))
    else:
        model.levy_triplet.nu = TruncatedLevyMeasure(model.levy_triplet.nu, (l, r))


def build_with_history(fam, params, history, method_name):
    """(model as handed to the chain, the family's un-restricted measure, intersection of the earlier restrictions)"""
    model = zoo.make_levy(fam, params)
    base = model.levy_triplet.nu
    L, R = -math.inf, math.inf
    for st in history:
        if st["how"] == "chain":              # the model of an earlier chain on another grid
            g1 = grid_from_desc(zoo.make_levy(fam, params), st["grid"])
            for _ in range(st.get("k", 0)):
                g1.refine()
            model = MarkovChainProcess(model, METHODS[method_name], g1).model
            l, r = float(g1.axes[0][0]), float(g1.axes[0][-1])
        else:
            l, r = float(st["l"]), float(st["r"])
            restrict(model, st["how"], l, r)
        L, R = max(L, l), min(R, r)
    return model, base, (L, R)


def draw_bound(rng, ax, o, h, side):
    """one end of an earlier restriction, placed relative to the grid: inside (between / on states, on a cell boundary), on the
    grid bound, beyond it; always further out than 0.7 h (so that the first cell on that side keeps some mass)"""
    pts = ax[o + 1:] if side > 0 else [-x for x in ax[:o][::-1]]          # distances of the states on that side, increasing
    E = pts[-1]
    u = rng.random()
    if u < 0.30:
        v = float(f"{rng.choice([0.35, 0.6, 0.85]) * E:.4g}")
    elif u < 0.45:
        v = rng.choice(pts)                                                  # exactly on a state (possibly the last one)
    elif u < 0.60 and len(pts) > 1:
        j = rng.randrange(len(pts) - 1)
        v = 0.5 * (pts[j] + pts[j + 1])                                      # exactly on a cell boundary
    elif u < 0.70:
        v = E                                                                # exactly the grid bound
    else:
        v = float(f"{rng.choice([1.25, 2.0, 5.0]) * E:.4g}")                 # wider than the grid
    return side * max(v, 0.7 * h)


def draw_restriction(rng, ax, o, h):
    l, r = draw_bound(rng, ax, o, h, -1), draw_bound(rng, ax, o, h, +1)
    u = rng.random()
    if u < 0.06:
        l = -h / 4                       # nothing left of the origin's cell
    elif u < 0.12:
        r = h / 4
    return dict(how=rng.choice(["api", "api", "class"]), l=l, r=r)


def draw_earlier_grid(rng, h):
    """explicit-extent grid of an earlier chain (its bounds become a restriction of the model it hands out)"""
    if rng.random() < 0.5:
        return dict(kind="fixed", h=rng.choice([h, h, 2 * h, h / 2]), nb=rng.choice([3, 5, 8]), dim=1)
    return dict(kind="geometric_bounds", h=h, nb=rng.choice([2, 3, 5]), dim=1,
                tr=[-rng.choice([0.3, 0.5, 1.0, 2.0]), rng.choice([0.4, 0.75, 1.5, 3.0])])


PRE_KINDS = ["fixed", "fixed", "geometric_bounds", "geometric_bounds", "uniform", "geometric", "credit"]
PRE_SHAPES = ["t", "t", "tt", "tt", "ttt", "c", "c", "ct", "tc"]


def run_pretruncated(ctx, ncases, kmax, nquad, corr=True):
    rng = ctx.rng
    done = tries = 0
    while done < ncases and tries < 4 * ncases:
        tries += 1
        fam = rng.choice(zoo.FAMILIES)
        params = zoo.draw_params(rng, fam) if rng.random() < 0.75 else {}
        kind = rng.choice(PRE_KINDS)
        h, kw = draw_grid_kw(rng, kind)
        if kind == "fixed":
            kw["nb_of_points"] = rng.choice([5, 8, 9, 21])
        try:
            g, gd = zoo.make_grid(kind, zoo.make_levy(fam, params), h, **kw)
        except Exception as e:              # constructor rejected these arguments (C13's subject)
            ctx.branches[f"c01.ctor_raises:{kind}:{type(e).__name__}"] += 1
            continue
        ax0, o0 = [float(x) for x in g.axes[0]], int(g.origin_coordinate.value)
        if not axis_ok(ax0, o0) or len(ax0) < 5:
            ctx.branches[f"c01.skipped_not_wellformed:{kind}"] += 1
            continue
        k = rng.randint(0, kmax)
        while k > 0 and (len(ax0) - 1) * 2 ** k + 1 > 300:
            k -= 1
        history = []
        for c in rng.choice(PRE_SHAPES):
            if c == "t":
                history.append(draw_restriction(rng, ax0, o0, h))
            else:
                history.append(dict(how="chain", grid=draw_earlier_grid(rng, h), k=rng.choice([0, 0, 1])))
        method = "INVERSION" if rng.random() < 0.7 else "BINARYSEARCHTREEADAPTED1D"
        d = dict(stream="1d_pre", family=fam, params=params, grid=gd, k=k, method=method, history=history)
        pretruncated_probe(ctx, d, nquad, corr=corr)
        done += 1


def pretruncated_probe(ctx, d, nquad, corr=True):
    cls = dict(stream="1d_pre", kind=d["grid"]["kind"], family=d["family"], k=d["k"],
               history="".join("c" if st["how"] == "chain" else "t" for st in d["history"]))
    guarded(ctx, d, cls, _pretruncated_probe, ctx, d, cls, nquad, corr)


def _pretruncated_probe(ctx, d, cls, nquad, corr):
    fam, params = d["family"], d["params"]
    g = grid_from_desc(zoo.make_levy(fam, params), d["grid"])
    ax0, o0 = [float(x) for x in g.axes[0]], int(g.origin_coordinate.value)
    for _ in range(d["k"]):
        g.refine()
    ax, o = [float(x) for x in g.axes[0]], int(g.origin_coordinate.value)
    model, base, support = build_with_history(fam, params, d["history"], d["method"])
    hl, hr = 0.5 * ax[o - 1], 0.5 * ax[o + 1]
    outside = [c for c in (clip_to(support, ax[0], hl), clip_to(support, hr, ax[-1])) if c]
    if not any(base.integrate(a, b) > 0 for a, b in outside):
        # the earlier restrictions leave nothing outside the origin's cell: a chain that never jumps (degenerate, see synthetic_probe)
        ctx.count("c01.chain1d.pretruncated", d, nontrivial=False, branch="zero_intensity")
        return
    rel = ("inside" if ax[0] < support[0] and support[1] < ax[-1] else "wider" if support[0] <= ax[0] and ax[-1] <= support[1]
           else "overlap")
    ctx.count("c01.chain1d.pretruncated", d, nontrivial=True, branch=f"{cls['history']}:{rel}")
    before = (type(model.levy_triplet.nu), getattr(model.levy_triplet.nu, "truncations", None))
    chain1d_probe(ctx, d, cls, model, g, d["method"], nquad, corr=corr, base=base, support=support)
    after = (type(model.levy_triplet.nu), getattr(model.levy_triplet.nu, "truncations", None))
    if before != after:                      # the caller's model must stay the caller's (the chain works on a copy)
        ctx.fail("oracle", "c01.rate_is_input_measure_cell_mass", d, {"what": "building the chain changed the measure of the model passed in",
                                                                      "before": repr(before), "after": repr(after)}, cls=cls)
    if corr and d["k"] > 0:
        refine_cells_probe(ctx, d, cls, ax0, o0, d["k"], g)


def restricted_table(knots, heights, support):
    """the piecewise-constant density cut with `support`, computed on the harness side (exact, dyadic)"""
    L, R = support
    ks, hs = [], []
    for k0, k1, h in zip(knots, knots[1:], heights):
        a, b = max(k0, L), min(k1, R)
        if a < b:
            if not ks:
                ks.append(a)
            elif ks[-1] != a:               # cannot happen (pieces are adjacent), kept as a guard
                hs.append(0); ks.append(a)
            hs.append(h); ks.append(b)
    if not ks:
        return [-1.0, 1.0], [0]
    return ks, hs


def synthetic_pre_case(rng):
    d = synthetic_case(rng)
    span = max(-d["axis"][0], d["axis"][-1])
    top = int(2 * span * 64)
    pre = []
    for _ in range(rng.choice([1, 1, 2, 2, 3])):
        l, r = -rng.randint(1, top) / 64, rng.randint(1, top) / 64
        if rng.random() < 0.15:             # exactly on a state
            l = rng.choice(d["axis"][:d["o"]])
        if rng.random() < 0.15:
            r = rng.choice(d["axis"][d["o"] + 1:])
        pre.append([rng.choice(["api", "class"]), l, r])
    return dict(d, stream="synthetic_pre", pre=pre)


# ------------------------------------------------------------------------------------------------- copula chains
def copula_case(rng, dim):
    margins = [(f, zoo.draw_params(rng, f) if rng.random() < 0.6 else {}) for f in (rng.choice(zoo.FAMILIES) for _ in range(dim))]
    cop = rng.choice(zoo.COPULAS)
    cop_kw = {}
    if cop == "clayton":
        cop_kw = dict(theta=rng.choice([0.3, 0.7, 1.0, 2.5]), eta=rng.choice([0.1, 0.3, 0.5, 0.9]))
    kind = rng.choice(["fixed", "fixed", "geometric_bounds", "credit_nd", "raw_unequal"])
    h = rng.choice([0.2, 0.1, 0.05])
    if kind == "raw_unequal":
        # raw CTMCGrid, common origin index, every axis its own length and its own (non-uniform) steps
        o = rng.randint(1, 3)
        side = lambda m: list(itertools.accumulate([h] + [h * rng.choice([1.0, 1.5, 2.0]) for _ in range(m - 1)]))
        mk = lambda nr: [-x for x in side(o)][::-1] + [0.0] + side(nr)
        nrs = rng.sample(range(1, 6 if dim == 2 else 4), dim)          # pairwise different right sides
        gd = dict(kind=kind, h=h, o=o, dim=dim, axes=[mk(nr) for nr in nrs])
    elif kind == "fixed":
        gd = dict(kind=kind, h=h, nb=rng.choice([5, 7, 9] if dim == 2 else [5, 7]), dim=dim)
    elif kind == "geometric_bounds":
        gd = dict(kind=kind, h=h, nb=rng.choice([2, 3, 4] if dim == 2 else [2, 3]), dim=dim,
                  tr=[-rng.choice([0.5, 1.0, 2.0]), rng.choice([0.75, 1.5, 3.0])])
    else:
        gd = dict(kind=kind, h=rng.choice([0.1, 0.05]), a=[-rng.choice([0.25, 0.3, 0.4]) for _ in range(dim)],
                  sym=(rng.random() < 0.5) if dim == 2 else False, dim=dim)
    k = rng.choice([0, 0, 1]) if dim == 2 else 0
    return dict(stream="copula", dim=dim, margins=margins, copula=cop, copula_kw=cop_kw, grid=gd, k=k)


def build_copula(d):
    margins = [zoo.make_levy(f, p) for f, p in d["margins"]]
    cm = zoo.make_copula_model(margins, zoo.make_copula(d["copula"], **d["copula_kw"]))
    gd = d["grid"]
    if gd["kind"] == "raw_unequal":
        g = zoo.CTMCGrid(h=gd["h"], origin_coordinate=gd["o"], axes=[np.array(a) for a in gd["axes"]])
    elif gd["kind"] == "credit_nd":
        g = zoo.CTMCCredit(h=gd["h"], level_a=list(gd["a"]), model=cm, symmetric_grid=gd["sym"])
    else:
        g = grid_from_desc(None, gd)
    for _ in range(d["k"]):
        g.refine()
    return cm, g


def copula_cell_oracle(ctx, d, cls, margins, cells, masses, intensity, o, ns, ncells):
    """independent computation of the joint mass of single cells of a 2-d copula chain (none of it goes through
    LevyCopulaModel.mass): independent components -> the margin's own integrate on axis cells, 0 elsewhere; complete
    dependence -> overlap of the margins' tail-integral intervals; Clayton -> dblquad of the Lévy density
    c(U1(x),U2(y)) nu1(x) nu2(y) on cells off the axes"""
    rng = ctx.rng
    nus = [m.levy_triplet.nu for m in margins]
    tail = lambda i, x: nus[i].integrate(x, np.inf) if x > 0 else nus[i].integrate(-np.inf, x)
    tol = lambda e: 1e-7 * abs(e) + 1e-11 * max(1.0, abs(intensity))
    cop = d["copula"]
    off = [(i, j) for i in range(ns[0]) for j in range(ns[1]) if i != o and j != o]
    on = [(i, o) for i in range(ns[0]) if i != o] + [(o, j) for j in range(ns[1]) if j != o]
    todo = []
    if cop == "independent":
        todo = [(cs, "axis") for cs in on] + [(cs, "zero") for cs in rng.sample(off, min(len(off), ncells))]
    elif cop == "dependent":
        todo = [(cs, "overlap") for cs in rng.sample(off, min(len(off), 4 * ncells))]
    elif cop == "clayton":
        big = sorted(off, key=lambda cs: -masses[cs])[:max(2, ncells // 2)]
        todo = [(cs, "density") for cs in set(big + rng.sample(off, min(len(off), ncells)))]
    for cs, how in todo:
        (a1, a2), (b1, b2) = cells[cs]
        if how == "axis":
            k = 0 if cs[1] == o else 1
            expected = nus[k].integrate(cells[cs][0][k], cells[cs][1][k])
        elif how == "zero":
            expected = 0.0
        elif how == "overlap":
            if (a1 > 0) != (a2 > 0):
                expected = 0.0
            elif a1 > 0:
                expected = max(0.0, min(tail(0, a1), tail(1, a2)) - max(tail(0, b1), tail(1, b2)))
            else:
                expected = max(0.0, min(tail(0, b1), tail(1, b2)) - max(tail(0, a1), tail(1, a2)))
        else:
            theta, eta = d["copula_kw"]["theta"], d["copula_kw"]["eta"]
            factor = eta if (a1 > 0) == (a2 > 0) else 1.0 - eta

            def dens(y, x):
                u, v = tail(0, x), tail(1, y)
                if u <= 0 or v <= 0:
                    return 0.0
                c = (1 + theta) * (u * v) ** (-theta - 1) * (u ** -theta + v ** -theta) ** (-1 / theta - 2)
                return factor * c * nus[0](x) * nus[1](y)
            expected, _ = dblquad(dens, a1, b1, a2, b2, epsabs=1e-13 * max(1.0, intensity), epsrel=1e-9)
        ctx.branches[f"c01.copula_cell_oracle:{how}"] += 1
        if not abs(masses[cs] - expected) <= tol(expected):
            ctx.fail("oracle", "c01.rate_is_cell_mass", d, {"state": list(cs), "cell": [list(cells[cs][0]), list(cells[cs][1])],
                                                          "rate": masses[cs], "independent_value": expected, "how": how}, cls=cls)
            return False
    return True


def copula_probe(ctx, d, corr=True):
    cls = dict(stream="copula", kind=d["grid"]["kind"], copula=d["copula"], dim=d["dim"], k=d["k"])
    guarded(ctx, d, cls, _copula_probe, ctx, d, cls, corr)


def _copula_probe(ctx, d, cls, corr=True):
    rng = ctx.rng
    dim = d["dim"]
    try:
        cm, g = build_copula(d)
    except Exception as e:
        ctx.branches[f"c01.ctor_raises:copula:{d['grid']['kind']}:{type(e).__name__}"] += 1
        return
    axes = zoo.axis_list(g)
    o = int(list(g.origin_coordinate)[0])
    if not all(axis_ok(ax, o) for ax in axes):
        ctx.branches[f"c01.skipped_not_wellformed:copula:{d['grid']['kind']}"] += 1
        return
    ns = [len(ax) for ax in axes]           # axes may have different lengths (right_point clamps per axis since 56f1018)
    if len(set(ns)) > 1:
        ctx.branches["c01.copula:unequal_axis_lengths"] += 1
    try:
        # the chain, through the public constructor when that is cheap (finite variation: no nquad pool in the ctor)
        if cm.jump_of_finite_variation():
            mc = MarkovChainLevyCopula(cm, g, SamplingMethod.BINARYSEARCHTREEADAPTED)
            model_t, intensity, bst = mc.model, mc.intensity_of_jumps, mc.sampling
            ctx.branches["c01.copula:via_MarkovChainLevyCopula"] += 1
        else:                               # same first lines as MarkovChainLevyCopula.__init__ (markovchainlevycopula.py:90-108)
            model_t = copy.deepcopy(cm)
            model_t.truncate_levy_measure(truncations=g.truncations)
            intensity = compute_intensity_of_jumps(model=model_t, grid=g)
            bst = BinarySearchTreeAdapted(model=model_t, grid=g)
            ctx.branches["c01.copula:via_samplingfactory"] += 1
        inv = create_sampling_inversion_method(g, model_t, intensity, True)
        states = list(itertools.product(*[range(m) for m in ns]))
        origin = tuple([o] * dim)
        cells, masses = {}, {}
        for cs in states:
            pt = Coordinates(cs)
            a = tuple(float(x) for x in g.middle(g.left_point(pt), g[pt]))
            b = tuple(float(x) for x in g.middle(g[pt], g.right_point(pt)))
            cells[cs] = (a, b)
            if cs != origin:
                masses[cs] = model_t.mass(a, b)
    except Infra:
        raise
    except Exception as e:
        ctx.count("c01.copula", d, nontrivial=False, branch="raises")
        ctx.fail("oracle", "c01.chain.raises", d, {"exception": repr(e)[:500]}, cls=cls)
        return
    ctx.count("c01.copula", d, nontrivial=min(ns) >= 5, branch=f"{d['copula']}:d{dim}:{d['grid']['kind']}")
    # ---- S
    for i in range(dim):
        n = ns[i]
        lo = [cells[tuple(c if j == i else o for j in range(dim))][0][i] for c in range(n)]
        hi = [cells[tuple(c if j == i else o for j in range(dim))][1][i] for c in range(n)]
        ax = axes[i]
        for c in range(n):
            if not (lo[c] <= ax[c] <= hi[c]):
                ctx.fail("oracle", "c01.state_in_cell", d, {"axis": i, "k": c, "cellLo": lo[c], "x": ax[c], "cellHi": hi[c]}, cls=cls)
                return
        if any(hi[c] != lo[c + 1] for c in range(n - 1)) or lo[0] != ax[0] or hi[-1] != ax[-1]:
            ctx.fail("oracle", "c01.cells.tile", d, {"axis": i, "lo": lo, "hi": hi, "axis_values": ax}, cls=cls)
            return
        # the cell of a state is the product of the per-axis cells (no dependence on the other coordinates)
        for cs in rng.sample(states, min(len(states), 40)):
            if cells[cs][0][i] != lo[cs[i]] or cells[cs][1][i] != hi[cs[i]]:
                ctx.fail("oracle", "c01.cells.tile", d, {"what": "cell is not a product of axis cells", "state": cs}, cls=cls)
                return
    neg = [(cs, v) for cs, v in masses.items() if not (v >= NEG_TOL * max(1.0, intensity))]
    if neg:
        ctx.fail("oracle", "c01.rates.nonneg", d, {"negative": [(list(c), v) for c, v in neg[:5]]}, cls=cls)
        return
    s = math.fsum(masses.values())
    if not abs(s - intensity) <= ORACLE_SUM_REL * len(states) * max(abs(intensity), 1e-300):
        ctx.fail("oracle", "c01.sum_rates_eq_intensity", d, {"sum_rates": s, "intensity": float(intensity), "n_states": len(states)}, cls=cls)
        return
    # two computations of the same sum of block masses: equal up to the rounding of the summation order (the statement says
    # "the sum of the rates is the intensity the process reports", not that two internal sums agree to the last bit)
    if not abs(float(bst.intensity_of_jumps) - float(intensity)) <= ORACLE_SUM_REL * len(states) * max(abs(intensity), 1e-300):
        ctx.fail("oracle", "c01.sum_rates_eq_intensity", d, {"what": "BinarySearchTreeAdapted.intensity_of_jumps != compute_intensity_of_jumps",
                                                           "bst": float(bst.intensity_of_jumps), "chain": float(intensity)}, cls=cls)
        return
    # a strip of cells away from the origin carries the joint mass of its hull (grid-sum on the implementation)
    if dim == 2:
        for i in range(ns[0]):
            if i == o:
                continue
            strip = math.fsum(masses[(i, j)] for j in range(ns[1]))
            a, b = cells[(i, 0)], cells[(i, ns[1] - 1)]
            hull = model_t.mass((a[0][0], a[0][1]), (a[1][0], b[1][1]))
            if not abs(strip - hull) <= 1e-10 * max(abs(intensity), 1e-300):
                ctx.fail("oracle", "c01.strip_mass", d, {"column": i, "sum_of_cells": strip, "mass_of_strip": hull}, cls=cls)
                return
    # the two samplers' tables: per-state probability = cell mass / intensity; bucket probability = sum of its cells' masses
    if intensity > 0:
        for cs in states:
            if cs != origin:
                p = inv.probability_to_jump_to_state(tuple(c - o for c in cs))
                if not abs(p * intensity - max(masses[cs], 0.0)) <= 1e-13 * intensity + 1e-12 * abs(masses[cs]):
                    ctx.fail("oracle", "c01.jumpprob_is_rate", d, {"state": list(cs), "probability_to_jump_to_state": float(p),
                                                                 "rate_over_intensity": masses[cs] / intensity}, cls=cls)
                    return
        for j, (bucket, p) in enumerate(zip(bst._buckets_coordinates, bst._buckets_probabilities)):
            tot = math.fsum(masses[cs] for cs in itertools.product(*[range(l, r + 1) for l, r in bucket]))
            if not abs(p * intensity - tot) <= 1e-10 * intensity:
                ctx.fail("oracle", "c01.bucket_mass", d, {"bucket": j, "index_ranges": [list(x) for x in bucket],
                                                        "bucket_probability_times_intensity": p * intensity, "sum_of_cell_masses": tot}, cls=cls)
                return
            if bst._is_axis[j]:
                cum = bst._precomputed_cum_p_for_axes[j]
                if not abs(float(cum[-1]) - p) <= 1e-10:
                    ctx.fail("oracle", "c01.bucket_mass", d, {"bucket": j, "what": "axis table does not add up to the bucket probability",
                                                            "table_total": float(cum[-1]), "bucket_probability": float(p)}, cls=cls)
                    return
    if dim == 2 and not copula_cell_oracle(ctx, d, cls, cm.models, cells, masses, intensity, o, ns, ctx.n(3, 12)):
        return
    if not corr:
        return
    # ---- C
    out = ctx.lean(f"cellsNd {wll(axes)} {o}").split(" ")
    m_lo, m_hi, m_hl, m_hr = rdll(out[0]), rdll(out[1]), rdl(out[2]), rdl(out[3])
    okc = True
    for cs in states:
        for i in range(dim):
            sc = max(abs(fr(axes[i][0])), abs(fr(axes[i][-1])))
            okc = okc and close(cells[cs][0][i], m_lo[i][cs[i]], scale=sc) and close(cells[cs][1][i], m_hi[i][cs[i]], scale=sc)
    hl = g.middle(g.left_point(g.origin_coordinate), g.origin)
    hr = g.middle(g.origin, g.right_point(g.origin_coordinate))
    okc = okc and all(close(hl[i], m_hl[i], scale=fr(g.h)) and close(hr[i], m_hr[i], scale=fr(g.h)) for i in range(dim))
    if not okc:
        ctx.fail("corr", "c01.cells.model", d, {"name": "Drivers/C01 cellsNd vs grid.middle(left_point/right_point)", "model": out[0][:300]}, cls=cls)
        return
    boxes = rdll(ctx.lean(f"queriesNd {wll(axes)} {o}"))
    vals = []
    for bx in boxes:
        a = tuple(float(x) for x in bx[0::2])
        b = tuple(float(x) for x in bx[1::2])
        vals.append(cm.mass(a, b))                # the caller's model: untruncated (so is the chain's joint mass, item 32)
    out = ctx.lean(f"chainNd {wll(axes)} {o} {wl(vals)}").split(" ")
    m_q, m_i, m_blocks, m_bidx, m_axp = rdl(out[0]), rd(out[1]), rdl(out[2]), rdll(out[3]), rdll(out[4])
    floor = abs(m_i) * Fraction(1, 2 ** 20)      # cell masses come from inclusion-exclusion of tail integrals
    for cs, mq in zip(states, m_q):
        if cs == origin:
            continue
        if not close(masses[cs], mq, scale=max(abs(mq), floor)):
            ctx.fail("corr", "c01.rates.model", d, {"name": "Drivers/C01 rateNd vs model.mass(cell)", "state": list(cs),
                                                  "impl": masses[cs], "model": str(mq)}, cls=cls)
            return
        p = inv.probability_to_jump_to_state(tuple(c - o for c in cs))
        want = max(mq, 0) / m_i if m_i != 0 else Fraction(0)
        if m_i != 0 and not close(p, want, scale=max(abs(want), Fraction(1, 2 ** 20))):
            ctx.fail("corr", "c01.jumpprob.model", d, {"name": "Drivers/C01 max(rateNd,0)/intensityNd vs probability_to_jump_to_state",
                                                     "state": list(cs), "impl": float(p), "model": str(want)}, cls=cls)
            return
    if not close(intensity, m_i, scale=abs(m_i)):
        ctx.fail("corr", "c01.intensity.model", d, {"name": "Drivers/C01 intensityNd vs intensity_of_jumps", "impl": float(intensity),
                                                  "model": str(m_i)}, cls=cls)
        return
    # BinarySearchTreeAdapted._pre_computation: bucket masses, bucket index ranges, per-axis tables
    impl_idx = [[int(x) for pr in bucket for x in pr] for bucket in bst._buckets_coordinates]
    if impl_idx != [[int(x) for x in row] for row in m_bidx]:
        ctx.fail("corr", "c01.buckets.model", d, {"name": "Drivers/C01 bucketIdx vs _buckets_coordinates", "impl": impl_idx[:4],
                                                "model": [[int(x) for x in r] for r in m_bidx[:4]]}, cls=cls)
        return
    for j, (p, mb) in enumerate(zip(bst._buckets_probabilities, m_blocks)):
        if m_i != 0 and not close(p, mb / m_i, scale=max(abs(mb / m_i), Fraction(1, 2 ** 20))):
            ctx.fail("corr", "c01.buckets.model", d, {"name": "Drivers/C01 block mass / intensity vs _buckets_probabilities", "bucket": j,
                                                    "impl": float(p), "model": str(mb / m_i)}, cls=cls)
            return
    for j, row in enumerate(m_axp):
        is_axis = bool(bst._is_axis[j])
        if is_axis != (len(row) > 0):
            ctx.fail("corr", "c01.buckets.model", d, {"name": "Drivers/C01 axisBucketProbs vs is_cached_axis", "bucket": j}, cls=cls)
            return
        if is_axis:
            cum = list(itertools.accumulate(row))
            impl = [float(x) for x in bst._precomputed_cum_p_for_axes[j]]
            if len(impl) != len(cum) or not all(close(a, b, scale=Fraction(1)) for a, b in zip(impl, cum)):
                ctx.fail("corr", "c01.buckets.model", d, {"name": "Drivers/C01 cumulated axisBucketProbs vs _precomputed_cum_p_for_axes",
                                                        "bucket": j, "impl": impl[:6], "model": [str(x) for x in cum[:6]]}, cls=cls)
                return


def guarded(ctx, d, cls, fn, *a, **k):
    """run one probe; an exception raised from inside rpylib on a supported model / well-formed grid is a failure of the
    property on that input (the chain, or one of its rates, does not exist); anything else is a harness problem"""
    try:
        return fn(*a, **k)
    except Infra:
        raise
    except Exception as e:
        frames = traceback.extract_tb(e.__traceback__)
        if not any("/rpylib/" in f.filename for f in frames):
            raise
        where = [f"{f.filename.split('/rpylib/')[-1]}:{f.lineno}" for f in frames if "/rpylib/" in f.filename][-3:]
        ctx.fail("oracle", "c01.chain.raises", d, {"exception": repr(e)[:500], "where": where}, cls=cls)


# ------------------------------------------------------------------------------------------------- raw grids, unequal axis lengths
def unequal_axes_probe(ctx, d):
    """raw CTMCGrid whose axes have different lengths (same origin index, either order, d = 2 or 3): every state must lie
    in its own cell and the cells of every axis must tile it (CoordinateND.right_point clamps each coordinate with the
    length of its own axis since /repo 56f1018; before, with len(axes[0]) -- Lean witness `unequal_axes_break_cells`);
    plus the correspondence with the model's per-axis `cellHi`"""
    cls = dict(stream="edge", unequal_axis_lengths=True)
    ctx.count("c01.nd.unequal_axes", d, nontrivial=True, branch=f"d{len(d['axes'])}")
    guarded(ctx, d, cls, _unequal_axes_probe, ctx, d, cls)


def _unequal_axes_probe(ctx, d, cls):
    axes = [np.array(a) for a in d["axes"]]
    o = d["o"]
    g = zoo.CTMCGrid(h=d["h"], origin_coordinate=o, axes=axes)
    out = ctx.lean(f"cellsNd {wll(d['axes'])} {o}").split(" ")
    m_lo, m_hi = rdll(out[0]), rdll(out[1])
    for i, ax in enumerate(d["axes"]):
        lo, hi = [], []
        for c in range(len(ax)):
            pt = Coordinates(tuple(c if j == i else o for j in range(len(axes))))
            lo.append(float(g.middle(g.left_point(pt), g[pt])[i]))
            hi.append(float(g.middle(g[pt], g.right_point(pt))[i]))
        for c in range(len(ax)):
            if not (lo[c] <= ax[c] <= hi[c]):
                ctx.fail("oracle", "c01.nd.unequal_axes", d, {"what": "state outside its own cell", "axis": i, "k": c,
                                                            "cellLo": lo[c], "x": ax[c], "cellHi": hi[c]}, cls=cls)
                return
        if any(hi[c] != lo[c + 1] for c in range(len(ax) - 1)) or lo[0] != ax[0] or hi[-1] != ax[-1]:
            ctx.fail("oracle", "c01.nd.unequal_axes", d, {"what": "cells do not tile the axis", "axis": i, "lo": lo, "hi": hi,
                                                        "axis_values": ax}, cls=cls)
            return
        if not (len(m_lo[i]) == len(ax) and all(fr(a) == b for a, b in zip(lo, m_lo[i])) and all(fr(a) == b for a, b in zip(hi, m_hi[i]))):
            ctx.fail("corr", "c01.cells.model", d, {"name": "Drivers/C01 cellsNd vs grid.middle(left_point/right_point), unequal axes",
                                                  "axis": i, "impl_hi": hi, "model_hi": [str(x) for x in m_hi[i]]}, cls=cls)
            return


def unequal_axes_case(rng):
    h = rng.choice([1.0, 0.5, 0.25])
    o = rng.randint(1, 3)
    dim = rng.choice([2, 2, 3])
    mk = lambda nr: [-h * (o - i) for i in range(o)] + [0.0] + [h * (i + 1) for i in range(nr)]
    nrs = rng.sample(range(1, 7), dim)                                  # pairwise different, in either order
    return dict(stream="edge_unequal", h=h, o=o, axes=[mk(nr) for nr in nrs])


# ------------------------------------------------------------------------------------------------------------ entry points
def run(ctx, corr=True):
    rng = ctx.rng
    run_1d(ctx, nmodels=ctx.n(50, 800), kmax=3, nquad=ctx.n(6, 10 ** 9), corr=corr)
    for _ in range(ctx.n(150, 3000)):
        synthetic_probe(ctx, synthetic_case(rng), corr=corr)
    for i in range(ctx.n(30, 300)):
        copula_probe(ctx, copula_case(rng, 2), corr=corr)
    for i in range(ctx.n(5, 80)):
        copula_probe(ctx, copula_case(rng, 3), corr=corr)
    if corr:
        unequal_axes_probe(ctx, dict(stream="edge_unequal", h=1.0, o=1, axes=[[-1.0, 0.0, 1.0], [-1.0, 0.0, 1.0, 2.0, 3.0]]))
        unequal_axes_probe(ctx, dict(stream="edge_unequal", h=1.0, o=1, axes=[[-1.0, 0.0, 1.0, 2.0, 3.0], [-1.0, 0.0, 1.0]]))
        for _ in range(ctx.n(6, 60)):
            unequal_axes_probe(ctx, unequal_axes_case(rng))
    # models whose measure was restricted before they reach the chain (kept last: the streams above draw the same cases as before)
    run_pretruncated(ctx, ctx.n(80, 1500), kmax=2, nquad=ctx.n(6, 10 ** 9), corr=corr)
    for _ in range(ctx.n(100, 2000)):
        synthetic_probe(ctx, synthetic_pre_case(rng), corr=corr)


def search(ctx):
    """the tie broke but no oracle failed yet: oracle-only pass with a larger budget (all cells by quadrature)"""
    run_1d(ctx, nmodels=ctx.n(40, 200), kmax=3, nquad=10 ** 9, corr=False)
    for _ in range(ctx.n(200, 1000)):
        synthetic_probe(ctx, synthetic_case(ctx.rng), corr=False)
    for _ in range(ctx.n(20, 60)):
        copula_probe(ctx, copula_case(ctx.rng, 2), corr=False)
    run_pretruncated(ctx, ctx.n(80, 400), kmax=2, nquad=10 ** 9, corr=False)
    for _ in range(ctx.n(100, 500)):
        synthetic_probe(ctx, synthetic_pre_case(ctx.rng), corr=False)


def replay(ctx, rec):
    d = rec["input"]
    cls = rec.get("cls", {})
    if d.get("stream") in ("synthetic", "synthetic_pre"):
        synthetic_probe(ctx, d)
    elif d.get("stream") == "1d_pre":
        pretruncated_probe(ctx, d, 10 ** 9)
    elif d.get("stream") == "copula":
        d = dict(d, margins=[tuple(m) for m in d["margins"]])
        copula_probe(ctx, d)
    elif d.get("stream") == "edge_unequal":
        unequal_axes_probe(ctx, d)
    elif d.get("stream") == "1d":
        model = zoo.make_levy(d["family"], d["params"])
        g = grid_from_desc(model, d["grid"])
        ax0 = [float(x) for x in g.axes[0]]
        o0 = int(g.origin_coordinate.value)
        for _ in range(d["k"]):
            g.refine()
        cls = cls or dict(kind=d["grid"]["kind"], family=d["family"])
        guarded(ctx, d, cls, chain1d_probe, ctx, d, cls, model, g, d["method"], 10 ** 9)
        if d["k"] > 0 and d["grid"]["kind"] != "probstep":
            refine_cells_probe(ctx, d, cls, ax0, o0, d["k"], g)
    else:
        raise Infra(f"unknown replay record stream {d.get('stream')!r}")
