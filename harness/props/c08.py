"""C08 — Randomness discipline: seeded runs repeat; no two samples share random variates (DESIGN.md §4 C08)."""
from __future__ import annotations

import copy
import os
import warnings
import numpy as np

from .. import fake_engine as fe
from .. import rngtrace, zoo
from ..common import rdl

RULE = ("real pricing runs traced from the harness (every numpy.random / random draw and seed call, every pre-drawn row popped, "
        "path boundaries; one log per process id): standard engine x {direct Levy process on BS/HEM/Merton, CTMC chain} x "
        "{fixed-date, jump-time} x {1, 2 processes} x {seed None, 0, 7}; multilevel engine with the real 1-d coupling on scripted "
        "oracle histories. non-trivial = at least 2 paths and at least one draw; distinct = distinct (engine, process, mode, "
        "processes, seed, sizes)")
NOT_PROVED = ["OS scheduling, pid*time seed collisions between workers and the statistical quality of MT19937 are not modelled",
              "multi-process runs: proved safe for every schedule in jump-time mode (tokens_disjoint_multiprocess_partial) under the assumption that "
              "workers are in distinct generator states; fixed-date mode is refuted by the copied-deques witness; the chunking of pathos is not modelled",
              "'consumed exactly once' is checked as 'at most once': pre-drawn batches that are replaced unused (engine initialisation, "
              "next_level) are wasted draws, not shared ones"]
ASSUMPTIONS = ["distinct worker processes receive pairwise distinct seeds from pid*time (checked on the trace: equal seeds would show as duplicates)"]
TRUSTED = ["numpy.random / random global generators are deterministic functions of their seed"]


class _StochasticDates:
    """payoff with stochastic payoff dates (forces the jump-time simulation mode); value = terminal spot"""


def make_product(mode):
    from rpylib.product.payoff import Payoff, PayoffDates, Vanilla, PayoffType
    from rpylib.product.product import Product
    from rpylib.product.underlying import Spot

    class JumpTimeCall(Payoff):
        def __init__(self):
            super().__init__(payoff_dates_type=PayoffDates.STOCHASTIC)

        def evaluate(self, underlying):
            return np.maximum(underlying - 100.0, 0.0)

    payoff = Vanilla(strike=100.0, payoff_type=PayoffType.CALL) if mode == "fixed" else JumpTimeCall()
    return Product(payoff_underlying=Spot(), payoff=payoff, maturity=1.0)


def make_process(kind, rng):
    from rpylib.process.levyprocess import LevyProcess
    from rpylib.process.markovchain.markovchain import MarkovChainProcess
    from rpylib.distribution.sampling import SamplingMethod
    if kind in ("bs", "hem", "merton"):
        params = {"sigma": 0.2} if kind == "bs" else {}
        return LevyProcess(zoo.make_exp(kind, params))
    model = zoo.make_exp("hem", {})
    grid = zoo.CTMCUniformGrid.create_from_fixed_nb_of_points(h=0.05, nb_of_points=9)
    return MarkovChainProcess(model, SamplingMethod.INVERSION, grid)


class HandedOutUniforms:
    """records every value the library's own uniform variate class hands out while a run is traced: a buffered, cached or
    copied variate shows up as the same 53-bit value handed out twice (a fresh draw repeats one with probability ~ n^2 / 2^53)"""

    def __enter__(self):
        from rpylib.distribution.univariate.uniform import Uniform
        self.cls, self.orig, self.values = Uniform, Uniform.sample, []
        rec = self.values
        orig = self.orig

        def sample(self_, size=1):
            out = orig(self_, size)
            rec.extend(float(x) for x in np.asarray(out, dtype=float).ravel())
            return out
        Uniform.sample = sample
        return self

    def __exit__(self, *a):
        self.cls.sample = self.orig

    def duplicate(self):
        seen = {}
        for i, v in enumerate(self.values):
            if v in seen:
                return {"value": v, "first_hand_out": seen[v], "second_hand_out": i, "handed_out": len(self.values)}
            seen[v] = i
        return None


def run_standard(ctx, kind, mode, n, seed, nproc, tag, reuse=None):
    from rpylib.montecarlo.configuration import ConfigurationStandard
    from rpylib.montecarlo.standard.engine import Engine
    d = ctx.work / f"trace_{tag}"
    if reuse is None:
        process = make_process(kind, ctx.rng)
        cfg = ConfigurationStandard(mc_paths=n, seed=seed, nb_of_processes=nproc)
        engine = Engine(configuration=cfg, process=process)
    else:
        engine = reuse                      # the SAME engine / process / sampler objects priced again
    with warnings.catch_warnings():
        warnings.simplefilter("ignore")
        with rngtrace.tracing(d), HandedOutUniforms() as hu:
            stats = engine.price(make_product(mode))
    an = rngtrace.analyse(rngtrace.read(d), os.getpid())
    an["uniform_duplicate"] = hu.duplicate() if nproc == 1 else None
    an["engine"] = engine
    return np.array(stats._payoff_statistics.stats, dtype=float).copy(), an


def run_mlmc(ctx, hist, L0, N0, level_max, mode, seed, tag):
    from rpylib.process.coupling.couplingmarkovchain import CouplingMarkovChain
    from rpylib.distribution.sampling import SamplingMethod
    d = ctx.work / f"trace_{tag}"
    model = zoo.make_exp("hem", {})
    grid = zoo.CTMCUniformGrid.create_from_fixed_nb_of_points(h=0.1, nb_of_points=7)
    coupling = CouplingMarkovChain(model=model, method=SamplingMethod.BINARYSEARCHTREEADAPTED1D, grid=grid)
    with warnings.catch_warnings():
        warnings.simplefilter("ignore")
        with np.errstate(all="ignore"):
            with rngtrace.tracing(d), HandedOutUniforms() as hu:
                r = fe.run_mlmc(hist, L0, N0, level_max, seed=seed, coupling=coupling, product=make_product(mode))
    rows = [a.copy() for a in (r["final"] or r["reads"][-1])["rows"]] if (r["final"] or r["reads"]) else []
    an = rngtrace.analyse(rngtrace.read(d), os.getpid())
    an["uniform_duplicate"] = hu.duplicate()
    return rows, an


def oracle(ctx, desc, an, seed, nproc, cls):
    """S on the trace"""
    for p in an["problems"]:
        ctx.fail("oracle", "c08.trace_problem", desc, p, cls=cls)
        return False
    seen = {}
    for i, path in enumerate(an["paths"]):
        for t in path["tokens"]:
            key = (t[0], tuple(t[1]) if isinstance(t[1], (list, tuple)) else t[1], t[2])
            if key in seen:
                ctx.fail("oracle", "c08.shared_variate", desc,
                         {"what": "two samples (or one sample twice) consumed the same random variate", "token": list(map(str, key)),
                          "sample_a": seen[key], "sample_b": i, "pids": sorted({p["pid"] for p in an["paths"]})}, cls=cls)
                return False
            seen[key] = i
    if an.get("uniform_duplicate"):
        ctx.fail("oracle", "c08.shared_variate", desc,
                 dict(an["uniform_duplicate"], what="the library's uniform variate class handed out the same value twice in one run "
                                                    "(a buffered, cached or copied variate is consumed more than once)"), cls=cls)
        return False
    if nproc == 1:
        for pid, lib, s, before in an["seeds"]:
            if before > 0:
                ctx.fail("oracle", "c08.reseed_after_draw", desc,
                         {"what": "the generators are (re-)seeded after variates of this run have been drawn", "lib": lib, "seed": s,
                          "draws_before": before}, cls=cls)
                return False
        if seed is not None:
            vals = {(lib, s) for _, lib, s, _ in an["seeds"]}
            if vals != {("np", seed), ("py", seed)}:
                ctx.fail("oracle", "c08.seed_not_applied", desc, {"what": "configured seed not applied to both generators exactly", "seeds": sorted(map(str, vals))}, cls=cls)
                return False
    return True


def correspondence(ctx, desc, an, seed, cls):
    """C: consumption tokens of a single-process numpy-only run vs the model (units = scalars: 1 date, 1 dimension)"""
    passes = an["passes"]
    if not passes or any(p.get("unit", (1, 1)) != (1, 1) for p in passes):
        return
    if any(t[0] != "np" for path in an["paths"] for t in path["tokens"]):
        return
    if seed is None:        # no configured seed: the engine seeds itself from pid*time; the model is parametric in that value
        nps = [sv for _, lib, sv, _ in an["seeds"] if lib == "np"]
        seed = nps[0] if nps else None
    enc = ";".join(f"{p['rows']}|{p['n']}|{1 if p['predraw'] else 0}|[{','.join(map(str, p['fly']))}]" for p in passes)
    out = ctx.lean(f"engine {'-' if seed is None else seed} 0 {enc}")
    model = sorted(out[1:-1].split(",")) if len(out) > 2 else []
    pid = os.getpid()
    impl = sorted(f"{'s' + str(t[1][1]) if t[1][0] == 's' else 'a0'}:{t[2]}" for path in an["paths"] if path["pid"] == pid for t in path["tokens"])
    if model != impl:
        ctx.fail("corr", "c08.tokens.model", desc, {"name": "Drivers/C08 engine tokens vs traced consumption", "passes": enc,
                                                   "impl": impl[:40], "model": model[:40]}, cls=cls)


def standard_case(ctx, kind, mode, n, seed, nproc):
    desc = dict(engine="standard", process=kind, mode=mode, n=n, seed=seed, nproc=nproc)
    cls = dict(engine="standard", mode=mode, multiprocess=nproc > 1)
    try:
        rows, an = run_standard(ctx, kind, mode, n, seed, nproc, "a")
    except Exception as e:
        ctx.fail("oracle", "c08.engine_raises", desc, {"what": f"{type(e).__name__}: {e}"}, cls=cls)
        return
    ctx.count("c08.run", desc, nontrivial=n >= 2, branch=f"std:{kind}:{mode}:p{nproc}:{'seed' if seed is not None else 'noseed'}")
    if not oracle(ctx, desc, an, seed, nproc, cls):
        return
    if nproc == 1:
        correspondence(ctx, desc, an, seed, cls)
        if seed is not None:
            np.random.seed(None)
            np.random.normal(size=ctx.rng.randint(1, 40))           # the ambient generator state differs between the runs
            rows2, _ = run_standard(ctx, kind, mode, n, seed, nproc, "b")
            if rows.tobytes() != rows2.tobytes():
                ctx.fail("oracle", "c08.seeded_repeat", desc, {"what": "two single-process runs with the same seed differ",
                                                               "first": rows.ravel()[:4].tolist(), "second": rows2.ravel()[:4].tolist()}, cls=cls)
                return
            # the same engine, process and sampler objects priced a second time with the same seed
            np.random.normal(size=ctx.rng.randint(1, 40))
            rows3, an3 = run_standard(ctx, kind, mode, n, seed, nproc, "c", reuse=an["engine"])
            ctx.branches["c08.run:same_objects_again"] += 1
            if rows.tobytes() != rows3.tobytes():
                ctx.fail("oracle", "c08.seeded_repeat", desc, {"what": "a second seeded run on the same engine and process objects differs from the first",
                                                               "first": rows.ravel()[:4].tolist(), "second": rows3.ravel()[:4].tolist()}, cls=cls)
                return
            oracle(ctx, desc, an3, seed, nproc, cls)


def mlmc_case(ctx, hist, L0, N0, level_max, mode, seed):
    desc = dict(engine="mlmc", mode=mode, L0=L0, N0=N0, level_max=level_max, seed=seed,
                history=[[list(a), bool(b), list(c)] for a, b, c in hist])
    cls = dict(engine="mlmc", mode=mode, multiprocess=False)
    try:
        rows, an = run_mlmc(ctx, hist, L0, N0, level_max, mode, seed, "a")
    except Exception as e:
        ctx.fail("oracle", "c08.engine_raises", desc, {"what": f"{type(e).__name__}: {e}"}, cls=cls)
        return
    ctx.count("c08.run", desc, nontrivial=True, branch=f"mlmc:{mode}:{'seed' if seed is not None else 'noseed'}")
    if not oracle(ctx, desc, an, seed, 1, cls):
        return
    correspondence(ctx, desc, an, seed, cls)
    if seed is not None:
        np.random.seed(None)
        np.random.normal(size=ctx.rng.randint(1, 40))
        rows2, _ = run_mlmc(ctx, hist, L0, N0, level_max, mode, seed, "b")
        if len(rows) != len(rows2) or any(a.tobytes() != b.tobytes() for a, b in zip(rows, rows2)):
            ctx.fail("oracle", "c08.seeded_repeat", desc, {"what": "two single-process multilevel runs with the same seed differ"}, cls=cls)


def run(ctx):
    rng = ctx.rng
    for kind in ("bs", "hem", "merton", "ctmc"):
        for mode in ("fixed", "jump"):
            for seed in (None, 0, 7):
                standard_case(ctx, kind, mode, rng.choice([2, 3, 5, 8]), seed, 1)
    for _ in range(ctx.n(10, 40)):
        standard_case(ctx, rng.choice(["hem", "merton", "ctmc", "ctmc", "bs"]), rng.choice(["fixed", "jump"]), rng.randint(2, 12), rng.choice([None, 3, 11]), 1)
    # multi-process
    for mode in ("fixed", "jump"):
        for nproc in ((2,) if not ctx.thorough else (2, 4)):
            standard_case(ctx, "hem", mode, 6, None, nproc)
    # multilevel engine, real coupling
    hists = [
        (0, 2, 2, [([2], False, [2, 2]), ([3, 2], False, [3, 2, 2]), ([0] * 8, True, [0] * 8)]),
        (1, 3, 3, [([5, 4], False, []), ([5, 4], False, [5, 4, 2]), ([0] * 8, True, [0] * 8)]),
        (1, 2, 1, [([2, 2], True, [])]),
        # three coupled levels from the start (each level's process is a deep copy of the previous one), a later level added,
        # and further passes on the copied levels
        (2, 3, 4, [([4, 4, 3], False, [4, 4, 3, 2]), ([5, 4, 4, 3], False, [5, 4, 4, 3, 2]), ([0] * 8, True, [0] * 8)]),
    ]
    for L0, N0, lm, h in hists:
        for mode in ("fixed", "jump"):
            for seed in (None, 5):
                mlmc_case(ctx, h, L0, N0, lm, mode, seed)


def replay(ctx, rec):
    d = rec["input"]
    if d["engine"] == "standard":
        standard_case(ctx, d["process"], d["mode"], d["n"], d["seed"], d["nproc"])
    else:
        mlmc_case(ctx, [(a, b, c) for a, b, c in d["history"]], d["L0"], d["N0"], d["level_max"], d["mode"], d["seed"])
