"""C08 — Randomness discipline: seeded runs repeat; no two samples share random variates (DESIGN.md §4 C08)."""
from __future__ import annotations

import math
import os
import warnings
import numpy as np

from .. import fake_engine as fe
from .. import rngtrace, zoo

RULE = ("real pricing runs traced from the harness through the public process API only (every numpy.random / random draw with its "
        "values, every seed call, pre-computation scopes, path boundaries and the returned path objects; one log per process id; "
        "the stores of pre-drawn variates are found by VALUE in the object graph whatever their type, name or holder - deque, "
        "list, ndarray, iterator - and, failing that, the consumption is read off the helper arguments / the returned paths): "
        "standard engine x {direct Levy process on BS/HEM/Merton, CTMC chain} x {fixed-date, jump-time} x {single date, 2-4 dates: "
        "spot observed on a date grid, the library's Asian} x {1, 2 processes} x {seed None, 0, 7, drawn}; pool runs with the configuration "
        "arguments at their documented default / None / omitted values next to explicit ones: nb_of_processes {None, not passed (one "
        "worker per core; 192 paths), 2, 3} x seed {None, not passed, 0, drawn positive} in jump-time mode (single- and multi-date) "
        "and CTMC fixed-date mode, judged inside one run only (worker-state oracle: no two simulating workers in the same seeded "
        "generator state; shared-variate and counting oracles); multilevel engine with the "
        "real 1-d coupling on scripted oracle histories, single- and multi-date; for every process/engine/mode one multi-date run "
        "of 250 paths with intensity*dt = 0.55 (interval-dependence oracle). non-trivial = at least 2 paths and at least one draw; "
        "distinct = distinct (engine, process, mode, dates, processes, seed, sizes)")
NOT_PROVED = ["the multilevel engine is driven single-process only (scripted histories): its pool branch (multilevel/engine.py:128-155) "
              "shares initialisation_seed with the standard engine but is not run",
              "OS scheduling, pid*time seed collisions between workers and the statistical quality of MT19937 are not modelled",
              "multi-process runs: proved safe for every schedule in jump-time mode (tokens_disjoint_multiprocess_partial) under the assumption that "
              "workers are in distinct generator states; fixed-date mode is refuted by the copied-deques witness; the chunking of pathos is not modelled",
              "'consumed exactly once' is checked as 'at most once': pre-drawn batches that are replaced unused (engine initialisation, "
              "next_level) are wasted draws, not shared ones",
              "the model tie (Drivers/C08 tokens) is compared on single-date, 1-d runs only and only when every pre-drawn variate could be "
              "located (otherwise the run is judged by the oracles alone and the evidence notes say which part was unobservable)",
              "that one pre-drawn jump count feeds one (path, date) only is judged (i) by position in the store when the store is "
              "observable, (ii) by counting: jump-count variates drawn so far >= (path, date) pairs simulated so far, Brownian variates "
              ">= paths x dimension x steps, (iii) statistically: over >= 250 paths some path must have a jump in exactly one of the dates 0 and j "
              "(false-alarm probability < 1e-18 per pair of dates, < 1e-15 per check run, computed from the intensity; seeds drawn from ctx.rng); "
              "a dependence between dates that keeps (ii) and (iii) - e.g. correlated but not identical counts behind an opaque store - is not seen"]
ASSUMPTIONS = ["distinct worker processes receive pairwise distinct seeds from pid*time (checked on the trace by c08.workers_same_state: two "
               "simulating workers whose last seed call carries the same value are a violation; a pid*time collision modulo 123456789 "
               "between workers of one pool would show there too)",
               "the size of a default pool (nb_of_processes None / omitted) is the core count of the host: on a one-core host those "
               "runs have a single worker and the worker-state oracle is vacuous (evidence branch c08.run:pool_workers_1)",
               "whenever numpy.random.poisson is used at all in a run, every jump count of that run is one scalar drawn by it (the counting "
               "oracle is not armed - and says so in the notes - when no such draw occurs)",
               "a single jump has a non-zero size (continuous jump sizes; chain states exclude the origin), used for the false-alarm bound only"]
TRUSTED = ["numpy.random / random global generators are deterministic functions of their seed",
           "the harness tracer (harness/rngtrace.py): value-based discovery of the stores, logging subclasses of deque/list/ndarray, "
           "matching of path values to normals up to one scale per date at relative tolerance 1e-11 with >= 3 paths"]

FALSE_ALARM_LOG = math.log(1e-18)       # per pair of dates; at most ~100 armed pairs per check run
BIG_N, BIG_X = 250, 0.55
POOL_N = 192                            # paths of a default-sized pool (one worker per core): several chunks per worker
OMITTED = "omitted"                     # a configuration argument that is not passed (its documented default applies)


def make_product(mode, dates=1, maturity=1.0, underlying="spot"):
    from rpylib.grid.time import TimeGrid
    from rpylib.product.payoff import Payoff, PayoffDates, Vanilla, PayoffType
    from rpylib.product.product import Product
    from rpylib.product.underlying import Spot, Asian, Discretisation

    class JumpTimeCall(Payoff):
        """payoff with stochastic payoff dates (forces the jump-time simulation mode)"""
        def __init__(self):
            super().__init__(payoff_dates_type=PayoffDates.STOCHASTIC)

        def evaluate(self, underlying):
            return np.maximum(underlying - 100.0, 0.0)

    class DatedSpot(Spot):
        """terminal spot of a product observed on a grid of `dates` intervals (public `compute_times_grid`)"""
        def compute_times_grid(self, maturity):  # noqa (the keyword the library calls it with)
            return TimeGrid(start=0.0, end=maturity, num=dates + 1)

    payoff = Vanilla(strike=100.0, payoff_type=PayoffType.CALL) if mode == "fixed" else JumpTimeCall()
    if underlying == "asian":        # the library's own multi-date underlying: monthly average, maturity/(1/12) + 1 dates
        und = Asian(Discretisation.MONTHLY)
    else:
        und = Spot() if dates == 1 else DatedSpot()
    return Product(payoff_underlying=und, payoff=payoff, maturity=maturity)


def make_process(kind, rng):
    from rpylib.process.levyprocess import LevyProcess
    from rpylib.process.markovchain.markovchain import MarkovChainProcess
    from rpylib.distribution.sampling import SamplingMethod
    if kind in ("bs", "hem", "merton"):
        params = {"sigma": 0.2} if kind == "bs" else {}
        return LevyProcess(zoo.make_exp(kind, params))
    model = zoo.make_exp("hem", {})
    grid = zoo.CTMCUniformGrid.create_from_fixed_nb_of_points(h=0.05, nb_of_points=9)
    return MarkovChainProcess(model, SamplingMethod.INVERSION, grid)


def make_coupling():
    from rpylib.process.coupling.couplingmarkovchain import CouplingMarkovChain
    from rpylib.distribution.sampling import SamplingMethod
    model = zoo.make_exp("hem", {})
    grid = zoo.CTMCUniformGrid.create_from_fixed_nb_of_points(h=0.1, nb_of_points=7)
    return CouplingMarkovChain(model=model, method=SamplingMethod.BINARYSEARCHTREEADAPTED1D, grid=grid)


class HandedOutUniforms:
    """records every value the library's own uniform variate class hands out while a run is traced: a buffered, cached or
    copied variate shows up as the same 53-bit value handed out twice (a fresh draw repeats one with probability ~ n^2 / 2^53)"""

    def __enter__(self):
        from rpylib.distribution.univariate.uniform import Uniform
        self.cls, self.orig, self.values = Uniform, Uniform.sample, []
        rec = self.values
        orig = self.orig

        def sample(self_, size=1):
            out = orig(self_, size)
            rec.extend(float(x) for x in np.asarray(out, dtype=float).ravel())
            return out
        Uniform.sample = sample
        return self

    def __exit__(self, *a):
        self.cls.sample = self.orig

    def duplicate(self):
        seen = {}
        for i, v in enumerate(self.values):
            if v in seen:
                return {"value": v, "first_hand_out": seen[v], "second_hand_out": i, "handed_out": len(self.values)}
            seen[v] = i
        return None


def run_standard(ctx, kind, mode, n, seed, nproc, tag, reuse=None, dates=1, maturity=1.0, underlying="spot"):
    from rpylib.montecarlo.configuration import ConfigurationStandard
    from rpylib.montecarlo.standard.engine import Engine
    d = ctx.work / f"trace_{tag}"
    if reuse is None:
        process = make_process(kind, ctx.rng)
        kw = {} if nproc == OMITTED else {"nb_of_processes": nproc}
        if seed != OMITTED:
            kw["seed"] = seed
        cfg = ConfigurationStandard(mc_paths=n, **kw)
        engine = Engine(configuration=cfg, process=process)
    else:
        engine = reuse                      # the SAME engine / process / sampler objects priced again
    with warnings.catch_warnings():
        warnings.simplefilter("ignore")
        with rngtrace.tracing(d), HandedOutUniforms() as hu:
            stats = engine.price(make_product(mode, dates, maturity, underlying))
    an = rngtrace.analyse(rngtrace.read(d), os.getpid())
    an["uniform_duplicate"] = hu.duplicate() if nproc == 1 else None
    an["engine"] = engine
    try:            # per-sample payoffs where the statistics object exposes them, else the public summary of the run
        rows = np.array(stats._payoff_statistics.stats, dtype=float).copy()
    except AttributeError:
        note(ctx, "per-sample payoffs not reachable on the statistics object: seeded repeats compared on price() only")
        rows = np.array(np.ravel(stats.price()), dtype=float).copy()
    return rows, an


def run_mlmc(ctx, hist, L0, N0, level_max, mode, seed, tag, dates=1, maturity=1.0):
    d = ctx.work / f"trace_{tag}"
    coupling = make_coupling()
    with warnings.catch_warnings():
        warnings.simplefilter("ignore")
        with np.errstate(all="ignore"):
            with rngtrace.tracing(d), HandedOutUniforms() as hu:
                r = fe.run_mlmc(hist, L0, N0, level_max, seed=seed, coupling=coupling, product=make_product(mode, dates, maturity))
    rows = [a.copy() for a in (r["final"] or r["reads"][-1])["rows"]] if (r["final"] or r["reads"]) else []
    an = rngtrace.analyse(rngtrace.read(d), os.getpid())
    an["uniform_duplicate"] = hu.duplicate()
    return rows, an


def note(ctx, text):
    seen = ctx.__dict__.setdefault("_c08_notes", {})
    seen[text] = seen.get(text, 0) + 1
    if seen[text] == 1:
        ctx.notes.append("C08 observation: " + text)


def count_oracle(ctx, an, nproc):
    """container-independent: every (path, date) pair needs its own jump-count variate and every (path, dimension, step) its own
    Brownian variate, and a variate cannot be consumed before it is drawn -> on every prefix of a single-process run (on the totals
    of a multi-process run) #count variates drawn >= #pairs simulated, #normal variates drawn >= #steps simulated.  -> detail | None"""
    paths, batches = an["paths"], an["batches"]
    diffusion = any(p.get("dh") for p in paths)
    count_fn_used = an["totals"]["count"] > 0

    def need(p):
        b = batches.get(p.get("batch")) or {}
        c = b["nb"] if (b.get("lam") or 0) > 0 and b.get("nb") else 0
        m = (p.get("steps") or 0) * (b.get("dim") or 0) if diffusion else 0
        return c, m

    if any((batches.get(p.get("batch")) or {}).get("lam") for p in paths) and not count_fn_used:
        note(ctx, "no variate drawn by a jump-count function (numpy.random.poisson) in a run with jumps: counting oracle for jump counts not armed")
    if nproc == 1:
        cnt = nrm = need_c = need_n = done = 0
        for ev in an["timeline"]:
            if ev[0] == "draw":
                cnt += ev[2] if ev[1] in rngtrace._COUNT_FNS else 0
                nrm += ev[2] if ev[1] in rngtrace._NORMAL_FNS else 0
            else:
                c, m = need(paths[ev[1]])
                need_c, need_n, done = need_c + c, need_n + m, done + 1
                if count_fn_used and need_c > cnt:
                    return {"what": "fewer jump-count variates have been drawn than (path, date) pairs simulated: some drawn count feeds "
                                    "more than one (path, date)", "paths_so_far": done, "pairs_so_far": need_c, "count_variates_drawn_so_far": cnt}
                if need_n > nrm:
                    return {"what": "fewer normal variates have been drawn than (path, dimension, step) triples simulated: some Brownian "
                                    "variate feeds more than one", "paths_so_far": done, "steps_so_far": need_n, "normal_variates_drawn_so_far": nrm}
        return None
    need_c = sum(need(p)[0] for p in paths)
    need_n = sum(need(p)[1] for p in paths)
    if count_fn_used and need_c > an["totals"]["count"]:
        return {"what": "fewer jump-count variates drawn in all processes than (path, date) pairs simulated", "pairs": need_c,
                "count_variates_drawn": an["totals"]["count"]}
    if need_n > an["totals"]["normal"]:
        return {"what": "fewer normal variates drawn in all processes than (path, dimension, step) triples simulated", "steps": need_n,
                "normal_variates_drawn": an["totals"]["normal"]}
    return None


def log_binom_cdf(n, q, d):
    """log P(Bin(n, q) <= d), exact sum in log space"""
    terms = [math.lgamma(n + 1) - math.lgamma(k + 1) - math.lgamma(n - k + 1) + k * math.log(q) + (n - k) * math.log1p(-q) for k in range(d + 1)]
    m = max(terms)
    return m + math.log(sum(math.exp(t - m) for t in terms))


def interval_oracle(ctx, an):
    """value-level, multi-date runs: whether a path jumps in date j must not be a function of whether it jumps in date 0.  With
    independent Poisson counts P(no jump in date 0 and exactly one in date j) = q = e^{-x0} xj e^{-xj} (x = intensity * dt), and
    that event shows as activity (0, 1) in the path handed to the path manager; so the number D of paths (out of n) whose activity
    differs between the dates 0 and j dominates a Binomial(n, min q).  Exact one-sided test at level 1e-18: a failure iff
    P(Bin(n, q) <= D observed) < 1e-18; armed (counted) iff D = 0 would fail, i.e. (1 - q)^n < 1e-18."""
    acc = {}
    for p in an["paths"]:
        b = an["batches"].get(p.get("batch")) or {}
        act, lam, grid = p.get("act"), b.get("lam") or 0.0, b.get("grid")
        if not act or lam <= 0 or not grid or len(grid) != len(act) + 1:
            continue
        dts = np.diff(grid)
        for j in range(1, len(act)):
            x0, xj = lam * dts[0], lam * dts[j]
            a = acc.setdefault((len(act), j), {"q": 1.0, "n": 0, "differ": 0})
            a["q"] = min(a["q"], math.exp(-x0) * xj * math.exp(-xj))
            a["n"] += 1
            a["differ"] += int(act[0] != act[j])
    armed = 0
    for (nb, j), a in sorted(acc.items()):
        if not 0.0 < a["q"] < 1.0 or a["n"] * math.log1p(-a["q"]) >= FALSE_ALARM_LOG:
            continue
        armed += 1
        lp = log_binom_cdf(a["n"], a["q"], a["differ"])
        if lp < FALSE_ALARM_LOG:
            return armed, {"what": "the jump activity of date j is (nearly) a function of that of date 0: the paths with a jump in exactly one "
                                   "of the two dates are fewer than independent jump counts allow (one drawn count feeds several dates)",
                           "dates": nb, "j": j, "paths": a["n"], "paths_with_different_activity": a["differ"],
                           "probability_of_so_few_under_independence_at_most": math.exp(lp), "q": a["q"]}
    return armed, None


def worker_state_oracle(ctx, desc, an, cls):
    """pool runs: two worker processes that draw variates on the fly must not have been put in the same generator state (the same
    seed value applied to the same generator in two processes that both go on to simulate paths: every variate of the one is a
    variate of the other).  Judged on the seed calls and the on-the-fly draws of the trace, independently of where the pre-drawn
    stores live - hence also in fixed-date mode, whose copied stores are a separate, recorded finding."""
    drawing = {p["pid"] for p in an["paths"] if p.get("fly")}
    last = {}
    for pid, lib, s, _before in an["seeds"]:
        last[(pid, lib)] = s             # the state a process simulates from is the one of its last seed call
    by_state = {}
    for (pid, lib), s in last.items():
        if pid in drawing and s is not None:
            by_state.setdefault((lib, s), set()).add(pid)
    workers = sorted({p["pid"] for p in an["paths"]})
    ctx.branches["c08.run:pool_workers_" + ("1" if len(workers) == 1 else "2-4" if len(workers) <= 4 else "5+")] += 1
    for (lib, s), pids in sorted(by_state.items(), key=str):
        if len(pids) > 1:
            ctx.fail("oracle", "c08.workers_same_state", desc,
                     {"what": "several worker processes of one run were seeded to the same generator state and each went on to draw "
                              "variates for its samples: their samples are built from the same variates", "lib": lib, "seed": s,
                      "workers_in_that_state": len(pids), "workers_simulating": len(workers), "paths": len(an["paths"])}, cls=cls)
            return False
    return True


def oracle(ctx, desc, an, seed, nproc, cls):
    """S on the trace"""
    for t in an["notes"]:
        note(ctx, t)
    for p in an["problems"]:
        ctx.fail("oracle", "c08.trace_problem", desc, p, cls=cls)
        return False
    if nproc != 1 and not worker_state_oracle(ctx, desc, an, cls):
        return False
    seen, seen_dh = {}, {}
    for i, path in enumerate(an["paths"]):
        fly = path["tokens"][:path["fly"]]
        keys = [(t[0], tuple(t[1]) if isinstance(t[1], (list, tuple)) else t[1], t[2]) for t in path["tokens"]]
        # a variate met twice inside one path through two observation channels is one consumption; two on-the-fly draws of one
        # path are two
        for key in keys[:len(fly)] + sorted(set(keys[len(fly):]), key=str):
            if key in seen:
                ctx.fail("oracle", "c08.shared_variate", desc,
                         {"what": "two samples (or one sample twice) consumed the same random variate", "token": list(map(str, key)),
                          "sample_a": seen[key], "sample_b": i, "pids": sorted({p["pid"] for p in an["paths"]})}, cls=cls)
                return False
            seen[key] = i
        dh = path.get("dh")
        if dh is not None:
            if dh in seen_dh:
                ctx.fail("oracle", "c08.shared_variate", desc,
                         {"what": "two samples of one run have bit-identical non-zero diffusion components: they were built from the same "
                                  "Brownian variates", "sample_a": seen_dh[dh], "sample_b": i, "pids": sorted({p["pid"] for p in an["paths"]})}, cls=cls)
                return False
            seen_dh[dh] = i
    if an.get("uniform_duplicate"):
        ctx.fail("oracle", "c08.shared_variate", desc,
                 dict(an["uniform_duplicate"], what="the library's uniform variate class handed out the same value twice in one run "
                                                    "(a buffered, cached or copied variate is consumed more than once)"), cls=cls)
        return False
    bad_count = count_oracle(ctx, an, nproc)            # two independent oracles: both are evaluated and reported
    if bad_count:
        ctx.fail("oracle", "c08.variate_count", desc, bad_count, cls=cls)
    armed, bad = interval_oracle(ctx, an)
    if armed:
        ctx.branches["c08.run:interval_oracle_armed"] += 1
    if bad:
        ctx.fail("oracle", "c08.interval_dependence", desc, bad, cls=cls)
    if bad_count or bad:
        return False
    if nproc == 1:
        for pid, lib, s, before in an["seeds"]:
            if before > 0:
                ctx.fail("oracle", "c08.reseed_after_draw", desc,
                         {"what": "the generators are (re-)seeded after variates of this run have been drawn", "lib": lib, "seed": s,
                          "draws_before": before}, cls=cls)
                return False
        if seed is not None:
            vals = {(lib, s) for _, lib, s, _ in an["seeds"]}
            if vals != {("np", seed), ("py", seed)}:
                ctx.fail("oracle", "c08.seed_not_applied", desc, {"what": "configured seed not applied to both generators exactly", "seeds": sorted(map(str, vals))}, cls=cls)
                return False
    for ch, k in an["channels"].items():
        if k:
            ctx.branches[f"c08.run:observed_via_{ch}"] += 1
    return True


def correspondence(ctx, desc, an, seed, cls):
    """C: consumption tokens of a single-process numpy-only run vs the model (units = scalars: 1 date, 1 dimension)"""
    passes = an["passes"]
    if not passes or any(p.get("unit", (1, 1)) != (1, 1) for p in passes):
        return
    if not an["exact"] or an["outside"]:
        note(ctx, "model tie skipped for a run whose pre-drawn variates could not all be located")
        return
    if any(t[0] != "np" for path in an["paths"] for t in path["tokens"]):
        return
    if seed is None:        # no configured seed: the engine seeds itself from pid*time; the model is parametric in that value
        nps = [sv for _, lib, sv, _ in an["seeds"] if lib == "np"]
        seed = nps[0] if nps else None
    enc = ";".join(f"{p['rows']}|{p['n']}|{1 if p['predraw'] else 0}|[{','.join(map(str, p['fly']))}]" for p in passes)
    out = ctx.lean(f"engine {'-' if seed is None else seed} 0 {enc}")
    model = sorted(out[1:-1].split(",")) if len(out) > 2 else []
    pid = os.getpid()
    impl = sorted(f"{'s' + str(t[1][1]) if t[1][0] == 's' else 'a0'}:{t[2]}" for path in an["paths"] if path["pid"] == pid for t in path["tokens"])
    if model != impl:
        ctx.fail("corr", "c08.tokens.model", desc, {"name": "Drivers/C08 engine tokens vs traced consumption", "passes": enc,
                                                   "impl": impl[:40], "model": model[:40]}, cls=cls)


def standard_case(ctx, kind, mode, n, seed, nproc, dates=1, maturity=1.0, underlying="spot", repeats=2):
    desc = dict(engine="standard", process=kind, mode=mode, n=n, seed=seed, nproc=nproc)
    if dates != 1 or underlying != "spot" or maturity != 1.0:
        desc.update(dates=dates, maturity=maturity, underlying=underlying)
    # nproc: 1 = the single-process loop; 2, 4, ... = a pool of that many workers; None = the documented default (a pool with one
    # worker per core); OMITTED = the argument is not passed at all.  Everything but 1 takes the pool code path.
    cls = dict(engine="standard", mode=mode, multiprocess=nproc != 1, multidate=dates > 1 or underlying != "spot")
    kw = dict(dates=dates, maturity=maturity, underlying=underlying)
    try:
        rows, an = run_standard(ctx, kind, mode, n, seed, nproc, "a", **kw)
    except Exception as e:
        ctx.fail("oracle", "c08.engine_raises", desc, {"what": f"{type(e).__name__}: {e}"}, cls=cls)
        return
    multi = "multi" if (dates > 1 or underlying != "spot") else "single"
    if seed == OMITTED:
        seed = None                      # from here on: the value the documented default stands for
    ctx.count("c08.run", desc, nontrivial=n >= 2, branch=f"std:{kind}:{mode}:{multi}:p{nproc}:{'seed' if seed is not None else 'noseed'}")
    if not oracle(ctx, desc, an, seed, nproc, cls):
        return
    if nproc == 1:
        correspondence(ctx, desc, an, seed, cls)
        if seed is not None and repeats >= 1:
            np.random.seed(None)
            np.random.normal(size=ctx.rng.randint(1, 40))           # the ambient generator state differs between the runs
            rows2, _ = run_standard(ctx, kind, mode, n, seed, nproc, "b", **kw)
            if rows.tobytes() != rows2.tobytes():
                ctx.fail("oracle", "c08.seeded_repeat", desc, {"what": "two single-process runs with the same seed differ",
                                                               "first": rows.ravel()[:4].tolist(), "second": rows2.ravel()[:4].tolist()}, cls=cls)
                return
            if repeats < 2:
                return
            # the same engine, process and sampler objects priced a second time with the same seed
            np.random.normal(size=ctx.rng.randint(1, 40))
            rows3, an3 = run_standard(ctx, kind, mode, n, seed, nproc, "c", reuse=an["engine"], **kw)
            ctx.branches["c08.run:same_objects_again"] += 1
            if rows.tobytes() != rows3.tobytes():
                ctx.fail("oracle", "c08.seeded_repeat", desc, {"what": "a second seeded run on the same engine and process objects differs from the first",
                                                               "first": rows.ravel()[:4].tolist(), "second": rows3.ravel()[:4].tolist()}, cls=cls)
                return
            oracle(ctx, desc, an3, seed, nproc, cls)


def mlmc_case(ctx, hist, L0, N0, level_max, mode, seed, dates=1, maturity=1.0, repeat=True):
    desc = dict(engine="mlmc", mode=mode, L0=L0, N0=N0, level_max=level_max, seed=seed,
                history=[[list(a), bool(b), list(c)] for a, b, c in hist])
    if dates != 1 or maturity != 1.0:
        desc.update(dates=dates, maturity=maturity)
    cls = dict(engine="mlmc", mode=mode, multiprocess=False, multidate=dates > 1)
    try:
        rows, an = run_mlmc(ctx, hist, L0, N0, level_max, mode, seed, "a", dates, maturity)
    except Exception as e:
        ctx.fail("oracle", "c08.engine_raises", desc, {"what": f"{type(e).__name__}: {e}"}, cls=cls)
        return
    ctx.count("c08.run", desc, nontrivial=True, branch=f"mlmc:{mode}:{'multi' if dates > 1 else 'single'}:{'seed' if seed is not None else 'noseed'}")
    if not oracle(ctx, desc, an, seed, 1, cls):
        return
    correspondence(ctx, desc, an, seed, cls)
    if seed is not None and repeat:
        np.random.seed(None)
        np.random.normal(size=ctx.rng.randint(1, 40))
        rows2, _ = run_mlmc(ctx, hist, L0, N0, level_max, mode, seed, "b", dates, maturity)
        if len(rows) != len(rows2) or any(a.tobytes() != b.tobytes() for a, b in zip(rows, rows2)):
            ctx.fail("oracle", "c08.seeded_repeat", desc, {"what": "two single-process multilevel runs with the same seed differ"}, cls=cls)


def dated_maturity(intensity, dates, x=BIG_X):
    """maturity such that intensity * dt = x on a uniform grid of `dates` intervals"""
    return round(dates * x / intensity, 6)


def run(ctx):
    rng = ctx.rng
    for kind in ("bs", "hem", "merton", "ctmc"):
        for mode in ("fixed", "jump"):
            for seed in (None, 0, 7):
                standard_case(ctx, kind, mode, rng.choice([2, 3, 5, 8]), seed, 1)
    for _ in range(ctx.n(10, 40)):
        standard_case(ctx, rng.choice(["hem", "merton", "ctmc", "ctmc", "bs"]), rng.choice(["fixed", "jump"]), rng.randint(2, 12), rng.choice([None, 3, 11]), 1)
    # multi-date products (several pre-drawn variates per path and per store row), every process x mode
    intensity = {k: float(make_process(k, rng).intensity()) for k in ("hem", "merton", "ctmc")}
    for kind in ("bs", "hem", "merton", "ctmc"):
        for mode in ("fixed", "jump"):
            dates = rng.choice([2, 3, 4])
            standard_case(ctx, kind, mode, rng.randint(3, 9), rng.choice([None, rng.randrange(1, 10 ** 6)]), 1, dates=dates,
                          maturity=rng.choice([0.5, 1.0, 2.0]), repeats=1)
    for kind in rng.sample(["bs", "hem", "merton", "ctmc"], ctx.n(2, 4)):
        standard_case(ctx, kind, "fixed", rng.randint(3, 6), rng.randrange(1, 10 ** 6), 1, maturity=0.26, underlying="asian", repeats=1)
    # ... with enough paths and intensity * dt = 0.55 for the interval-dependence oracle (seeds from ctx.rng)
    for kind in ("hem", "merton", "ctmc"):
        for mode in ("fixed", "jump"):
            dates = rng.choice([2, 3])
            standard_case(ctx, kind, mode, BIG_N, rng.randrange(1, 10 ** 6), 1, dates=dates, maturity=dated_maturity(intensity[kind], dates),
                          repeats=1 if ctx.thorough else 0)
    # multi-process
    for mode in ("fixed", "jump"):
        for nproc in ((2,) if not ctx.thorough else (2, 4)):
            standard_case(ctx, "hem", mode, 6, None, nproc)
            standard_case(ctx, "hem", mode, 6, None, nproc, dates=3, maturity=1.0)
    # ... the configuration arguments at their documented default / None / omitted values next to explicit ones: nb_of_processes
    # None or not passed (a pool with one worker per core), seed None / not passed / 0 / positive.  Jump-time mode draws every variate
    # inside the workers and is judged by all oracles; fixed-date mode additionally by the worker-state oracle.  Samples of pool
    # runs are compared with each other inside ONE run only (per-worker seeds are random by design: no run-to-run equality).
    pools = [(None, rng.randrange(1, 10 ** 6)), (OMITTED, 0), (rng.choice([None, OMITTED]), rng.choice([None, OMITTED])),
             (2, rng.randrange(1, 10 ** 6)), (rng.choice([2, 3]), 0)]
    for nproc, seed in pools:
        wide = nproc in (None, OMITTED)
        standard_case(ctx, rng.choice(["hem", "merton", "ctmc"]), "jump", POOL_N if wide else rng.randint(6, 24), seed, nproc)
    standard_case(ctx, rng.choice(["hem", "merton", "ctmc"]), "jump", POOL_N, rng.randrange(1, 10 ** 6), rng.choice([None, OMITTED]),
                  dates=rng.choice([2, 3]), maturity=1.0)
    for nproc, seed in (pools[0], pools[3]):
        standard_case(ctx, "ctmc", "fixed", 48 if nproc is None else 8, seed, nproc)
    # multilevel engine, real coupling
    hists = [
        (0, 2, 2, [([2], False, [2, 2]), ([3, 2], False, [3, 2, 2]), ([0] * 8, True, [0] * 8)]),
        (1, 3, 3, [([5, 4], False, []), ([5, 4], False, [5, 4, 2]), ([0] * 8, True, [0] * 8)]),
        (1, 2, 1, [([2, 2], True, [])]),
        # three coupled levels from the start (each level's process is a deep copy of the previous one), a later level added,
        # and further passes on the copied levels
        (2, 3, 4, [([4, 4, 3], False, [4, 4, 3, 2]), ([5, 4, 4, 3], False, [5, 4, 4, 3, 2]), ([0] * 8, True, [0] * 8)]),
    ]
    for L0, N0, lm, h in hists:
        for mode in ("fixed", "jump"):
            for seed in (None, 5):
                mlmc_case(ctx, h, L0, N0, lm, mode, seed)
    lam0 = float(make_coupling().fine_process.intensity())
    for L0, N0, lm, h in (hists[1], hists[3]):
        for mode in ("fixed", "jump"):
            mlmc_case(ctx, h, L0, N0, lm, mode, rng.choice([None, rng.randrange(1, 10 ** 6)]), dates=rng.choice([2, 3]), maturity=1.0)
    for mode in ("fixed", "jump"):
        dates = rng.choice([2, 3])
        mlmc_case(ctx, [([BIG_N, BIG_N], True, [])], 1, BIG_N, 1, mode, rng.randrange(1, 10 ** 6), dates=dates, maturity=dated_maturity(lam0, dates),
                  repeat=ctx.thorough)


def replay(ctx, rec):
    d = rec["input"]
    if d["engine"] == "standard":
        standard_case(ctx, d["process"], d["mode"], d["n"], d["seed"], d["nproc"], dates=d.get("dates", 1), maturity=d.get("maturity", 1.0),
                      underlying=d.get("underlying", "spot"), repeats=0 if d["n"] >= BIG_N else 2)
    else:
        mlmc_case(ctx, [(a, b, c) for a, b, c in d["history"]], d["L0"], d["N0"], d["level_max"], d["mode"], d["seed"],
                  dates=d.get("dates", 1), maturity=d.get("maturity", 1.0))
