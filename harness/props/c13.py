"""C13 — State grids are well formed and refinement nests them (DESIGN.md §4 C13)."""
from __future__ import annotations

import copy
import math
import random
from fractions import Fraction
from unittest import mock

import numpy as np
import rpylib.grid.spatial as spatial
from rpylib.distribution.sampling import SamplingMethod
from rpylib.model.levydrivensde.levydrivensde import LevyDrivenSDEModel
from rpylib.model.utils import create_levy_forward_market_model
from rpylib.process.markovchain.markovchain import MarkovChainProcess

from .. import zoo
from ..common import w, wl, wll, rd, rdl, rdll, close, fr

RULE = ("structured: 4 model families x parameter draws (all CGMY branches) x 6 grid constructors x h x 0..k refinements "
        "(+ dims 1..3 for the model-free constructors); synthetic: random dyadic axes refined by M and by CTMCGrid.refine. "
        "uniform constructor with explicit bounds (the real __init__ with only compute_truncation replaced): every pair of point counts "
        "0..3 on/off the lattice of h, random dyadic (all float operations exact -> compared exactly) and decimal (2^-40) bounds, the two "
        "raising classes (> 1e8 points, negative count), dims 1..3; the un-patched constructor is tied to M by repeating its root search; "
        "np.linspace itself vs M (n = 0, 1, 2, ..., 33, increasing and decreasing). "
        "object histories: two objects from equal arguments, refine / deepcopy / refine the copy / refine the original again. "
        "edge arguments in every run: fixed nb_of_points 0..4 x dim 1..3, bounds inside or on [-h, h], h = 1, 2, 5 for every family, "
        "dimension 3 with three different thresholds, per-axis sizes containing 1. "
        "constructor histories (c13.history): several grids (uniform / geometric / credit / probability-step) built one after the other in one "
        "process on ONE live model object - the Levy model itself, its exponential model, a Levy-driven SDE / forward market model on it as "
        "driver, a copula model on 2..3 margins - between the constructions the object's Parameters are edited in place (all / one / two "
        "attributes assigned, then initialisation(); CGMY across activity branches), the model is truncated in place or replaced by the "
        "truncated copy a MarkovChainProcess keeps, the same arguments go to another model object, or h / probability / constructor change; "
        "every grid is judged by the well-formedness, tail-probability and per-step-probability oracles against the object's CURRENT measure, "
        "compared with the grid built from a freshly constructed model at the current values, and refined once; in every run every family x "
        "{uniform, geometric, credit} as build / edit / build / partial edit / build, plus random histories. "
        "non-trivial = grid built successfully with >= 5 points per axis (history: and not the first step); distinct = distinct (constructor, args, model, k)")
NOT_PROVED = ["root-searched truncation bounds and probability-step axes (brentq) are compared/oracle-checked only",
              "np.linspace is proved in exact arithmetic (linspace_closed_form, uniformCtor_*): the float rounding of start + k*step and of "
              "int(|l|/h) is compared (exactly where every float operation is exact, 2^-40 otherwise), not proved",
              "np.geomspace (log10 / 10**) is not modelled: the geometric axes are compared with h (r/h)^(k/(n-1)) at 1e-12 in Python only",
              "the probability-step constructor is not run with h beyond the support of the jump mass (Merton defaults, h = 1: the "
              "normalising mass is 0.0, p_left is NaN and compute_right_axis does not terminate); in the histories a probability-step grid is "
              "only built while both one-sided masses outside (-h/2, h/2) of the current (possibly truncated) measure are positive",
              "independence of a grid from the construction history of its model object is oracle-checked / compared with a freshly constructed "
              "model (c13.history.fresh, 1e-8 relative on the states: far above the root-search tolerance), not proved; the per-step promise of "
              "the probability-step axes is oracle-checked only (c13.step_probability: the first k gaps from +-h outwards carry "
              "minimum_probability_step of the mass outside (-h/2, h/2) to 1e-7 and less than one step's share lies beyond the k-th state)"]
ASSUMPTIONS = ["float midpoints 0.5*(a+b) are compared with the exact rational midpoint to 2^-40 relative",
               "int(abs(l)/h), int(r/h) are modelled as truncations of the exact quotients of the doubles l, r, h; inputs whose rounded "
               "float quotient lands on the other side of an integer are don't-care points of the correspondence (counted, not compared)",
               "l < 0 in uniformCtor_wellFormed_partial / _iff: what the root search over [-100, -h/2] returns for h > 0",
               "histories: the Levy measure objects of all four families read the Parameters object live (mass, density, moments of an edited + "
               "initialisation()-ed object equal those of a freshly constructed one exactly - measured on the unchanged tree, also across CGMY "
               "activity branches and under TruncatedLevyMeasure); the triplet's sigma / drift of HEM and Merton are captured at construction and "
               "are NOT refreshed by an in-place edit, which no grid constructor reads"]
TRUSTED = ["scipy.optimize.root_scalar, numpy.geomspace/insert/concatenate; numpy.linspace is compared with M on every run (c13.linspace.model)",
           "unittest.mock.patch.object on rpylib.grid.spatial.compute_truncation (explicit-bounds probes only): the rest of "
           "CTMCUniformGrid.__init__ runs unchanged",
           "the models' own LevyMeasure.integrate is the measure the tail / per-step oracles integrate (closed-form integrals vs the density: C09)"]


def snapshot(g):
    return dict(axes=zoo.axis_list(g), h=float(g.h), origin=[int(c) for c in g.origin_coordinate],
                trunc=[(float(a), float(b)) for a, b in g.truncations])


def wellformed_oracle(ctx, probe, desc, g, cls, mirrors_model=None):
    """the property on the implementation: strictly increasing, 0 at origin with -h / +h neighbours, ends = truncations"""
    s = snapshot(g)
    for k, ax in enumerate(s["axes"]):
        o = s["origin"][k]
        bad = None
        if not all(a < b for a, b in zip(ax, ax[1:])):
            bad = "not strictly increasing"
        elif not (0 < o < len(ax) - 1) or ax[o] != 0.0:
            bad = "origin index does not hold 0 strictly inside the axis"
        elif not (math.isclose(ax[o - 1], -s["h"], rel_tol=1e-12) and math.isclose(ax[o + 1], s["h"], rel_tol=1e-12)):
            bad = f"neighbours of 0 are {ax[o-1]}, {ax[o+1]}, expected -h, +h with h={s['h']}"
        elif (ax[0], ax[-1]) != s["trunc"][k]:
            bad = f"end points {ax[0]}, {ax[-1]} differ from reported truncations {s['trunc'][k]}"
        if bad:
            ctx.fail("oracle", probe, desc, {"axis": k, "what": bad, "axis_values": ax[:12]}, cls=cls,
                     mirrors_model=mirrors_model)
            return False
    return True


def refine_probe(ctx, desc, g, kmax, cls, check_wf=True):
    """C + S for refine(): k successive refinements of an already built grid"""
    arithmetic = not isinstance(g, zoo.CTMCGridProbabilityStep)
    before = snapshot(g)
    base = before
    for k in range(1, kmax + 1):
        # expected inserted points from the grid's own cell-boundary function, *before* refine() mutates h
        mids = [[g.middle(float(a), float(b)) for a, b in zip(ax, ax[1:])] for ax in before["axes"]]
        if not arithmetic:      # classification of the grid about to be refined (a gap without mass may appear only after a refinement)
            cls = dict(cls, zero_mass_gap=zero_mass_gap(g, g.levy_measure))
        g.refine()
        after = snapshot(g)
        d = dict(desc, k=k)
        ctx.count("c13.refine", d, nontrivial=min(len(a) for a in before["axes"]) >= 5,
                  branch="arith" if arithmetic else "probstep")
        # ---- S: nesting on the implementation
        for i, (a0, a1) in enumerate(zip(before["axes"], after["axes"])):
            what = None
            if len(a1) != 2 * len(a0) - 1:
                what = f"length {len(a1)} != 2*{len(a0)}-1"
            elif a1[0::2] != a0:
                what = "an old state is not kept at twice its old index"
            elif any(not (lo < m < hi) for lo, m, hi in zip(a0, a1[1::2], a0[1:])):
                what = "an inserted state is not strictly inside its old gap"
            elif any(m != mm for m, mm in zip(a1[1::2], mids[i])):
                what = "an inserted state is not the grid's own cell boundary middle(x_k, x_k+1)"
            if what:
                ctx.fail("oracle", "c13.refine.nesting", d, {"axis": i, "what": what, "before": a0[:9], "after": a1[:17]}, cls=cls)
                return
        if after["h"] != before["h"] / 2 or after["origin"] != [2 * o for o in before["origin"]] \
                or after["trunc"] != before["trunc"]:
            ctx.fail("oracle", "c13.refine.nesting", d, {"what": "h/origin/truncations", "before": {x: before[x] for x in ("h", "origin", "trunc")},
                                                      "after": {x: after[x] for x in ("h", "origin", "trunc")}}, cls=cls)
            return
        if check_wf and not wellformed_oracle(ctx, "c13.refine.wellformed", d, g, cls):
            return
        # ---- C: against M (arithmetic cell boundary only; the probability median is a root search)
        if arithmetic:
            out = ctx.lean(f"grid {wll(base['axes'])} {w(base['h'])} {base['origin'][0]} {k}").split(" ")
            m_axes, m_h, m_o = rdll(out[0]), rd(out[1]), int(out[2])
            m_lo, m_hi = rdl(out[3]), rdl(out[4])
            ok = (len(m_axes) == len(after["axes"]) and all(len(x) == len(y) for x, y in zip(m_axes, after["axes"]))
                  and all(close(p, l, scale=max(abs(fr(p)), abs(l), fr(after["h"]))) for x, y in zip(after["axes"], m_axes) for p, l in zip(x, y))
                  and fr(after["h"]) == m_h and after["origin"] == [m_o] * len(after["origin"])
                  and all(fr(t[0]) == a and fr(t[1]) == b for t, a, b in zip(after["trunc"], m_lo, m_hi)))
            if not ok:
                ctx.fail("corr", "c13.refine.model", d, {"name": "Drivers/C13 grid vs CTMCGrid.refine", "impl": after,
                                                        "model": out}, cls=cls)
                return
        before = after


def build(ctx, kind, model, h, cls, desc, **kw):
    try:
        g, gd = zoo.make_grid(kind, model, h, **kw)
    except Exception as e:  # constructor rejected / failed on these arguments
        ctx.branches[f"c13.ctor_raises:{kind}:{type(e).__name__}"] += 1
        return None, None
    return g, dict(desc, **gd)


def tail_probability_oracle(ctx, d, g, model, tp, cls):
    """promised tail probability of the root-searched truncation bounds (uniform / geometric)"""
    nu = model.levy_triplet.nu
    h = d["h"]
    l, r = g.truncations[0]
    right = nu.integrate(h / 2, r) / nu.integrate(h / 2, np.inf)
    left = nu.integrate(l, -h / 2) / nu.integrate(-np.inf, -h / 2)
    if abs(right - tp) > 1e-8 or abs(left - tp) > 1e-8:
        ctx.fail("oracle", "c13.tail_probability", d, {"left": left, "right": right, "promised": tp, "l": l, "r": r}, cls=cls)


def nd_tail_probability_oracle(ctx, d, g, margins, h, tp, cls):
    """multi-dimensional grids share one pair of bounds = (smallest left, largest right) root-searched bound over the
    margins: every margin keeps at least the promised share of its tail mass, and on each side one margin attains it"""
    l, r = g.truncations[0]
    rights, lefts = [], []
    for m in margins:
        nu = m.levy_triplet.nu
        rights.append(nu.integrate(h / 2, r) / nu.integrate(h / 2, np.inf))
        lefts.append(nu.integrate(l, -h / 2) / nu.integrate(-np.inf, -h / 2))
    bad = (min(rights) < tp - 1e-8 or min(lefts) < tp - 1e-8 or abs(min(rights) - tp) > 1e-8 or abs(min(lefts) - tp) > 1e-8)
    if bad:
        ctx.fail("oracle", "c13.tail_probability", d, {"what": "shared truncation bounds do not keep the promised tail probability for every margin",
                                                      "left": lefts, "right": rights, "promised": tp, "l": l, "r": r}, cls=cls)


def nd_grid_probe(ctx, rng, kmax):
    """uniform / geometric grids built from copula models with unequal margins (dimension 2, 3)"""
    pool = [("hem", {}), ("hem", dict(sigma=0.05, p=0.6, eta1=30.0, eta2=35.0, intensity=3.0)), ("merton", {}),
            ("vg", {}), ("cgmy", {}), ("hem", dict(sigma=0.1, p=0.4, eta1=12.0, eta2=14.0, intensity=2.0))]
    dim = rng.choice([2, 2, 3])
    picks = [rng.choice(pool) for _ in range(dim)]
    margins = [zoo.make_levy(f, p) for f, p in picks]
    cm_ = zoo.make_copula_model(margins, zoo.make_copula(rng.choice(zoo.COPULAS)))
    kind = rng.choice(["uniform", "geometric"])
    h = rng.choice([0.05, 0.02])
    tp = rng.choice([0.999, 0.99999])
    d = dict(kind=kind + "_nd", dim=dim, h=h, tp=tp, margins=[[f, p] for f, p in picks])
    cls = dict(kind=kind + "_nd")
    try:
        g, _ = zoo.make_grid(kind, cm_, h, truncation_probability=tp, nb=rng.choice([3, 5]))
    except Exception as e:
        ctx.branches[f"c13.ctor_raises:{kind}_nd:{type(e).__name__}"] += 1
        return
    ctx.count("c13.constructor", d, branch=kind + "_nd")
    l0, r0 = g.truncations[0]
    o0 = int(list(g.origin_coordinate)[0])
    cls["side_points_le_1"] = bool(min(o0, len(g.axes[0]) - 1 - o0) <= 1)
    cls["trunc_inside_h"] = bool(abs(l0) <= h or r0 <= h)
    cls["kind"] = kind                      # the 1-d known findings of these constructors apply to the shared axis as well
    if kind == "uniform":
        uniform_rootsearched_tie(ctx, d, g, cm_, h, tp, dim, cls)
    nd_tail_probability_oracle(ctx, d, g, margins, h, tp, cls)
    if wellformed_oracle(ctx, "c13.constructor.wellformed", d, g, cls) and len(g.axes[0]) <= 400:
        refine_probe(ctx, d, g, 1, cls)


# ------------------------------------------------------------------------------------------ np.linspace / uniform ctor
def _rep(q):
    """is the rational q exactly a double?"""
    try:
        return Fraction(float(q)) == q
    except OverflowError:
        return False


def exact_linspace(a, b, n):
    """True when every float operation of np.linspace(a, b, n) is exact (delta, step, k*step, k*step+start)"""
    if n < 2:
        return True
    A, B = Fraction(a), Fraction(b)
    step = (B - A) / (n - 1)
    return _rep(B - A) and _rep(step) and all(_rep(k * step) and _rep(A + k * step) for k in range(n))


def points_agree(py_axis, m_axis, exact, scale):
    if len(py_axis) != len(m_axis):
        return False
    if exact:
        return all(fr(p) == q for p, q in zip(py_axis, m_axis))
    return all(close(p, q, scale=max(abs(q), scale)) for p, q in zip(py_axis, m_axis))


def linspace_case(ctx, d):
    """C: np.linspace itself against M's closed form (exact when every float operation is exact)"""
    a, b, n = d["a"], d["b"], d["n"]
    out = rdl(ctx.lean(f"linspace {w(a)} {w(b)} {n}"))
    py = [float(x) for x in np.linspace(a, b, n)]
    exact = exact_linspace(a, b, n)
    ctx.count("c13.linspace.model", d, nontrivial=n >= 3, branch=("exact" if exact else "rounded") + (f":n{n}" if n < 3 else ""))
    if not points_agree(py, out, exact, max(abs(fr(a)), abs(fr(b)))):
        ctx.fail("corr", "c13.linspace.model", d, {"name": "Drivers/C13 linspace vs numpy.linspace", "impl": py,
                                                  "model": [str(x) for x in out], "exact": exact}, cls=dict(kind="linspace"))


class _DimModel:
    """stands in for the model argument of CTMCUniformGrid once compute_truncation is replaced: only the dimension is read"""
    def __init__(self, d):
        self.d = d

    def dimension_model(self):
        return self.d


def uniform_with_bounds(l, r, h, dim):
    """the real CTMCUniformGrid.__init__ (spatial.py:148-164) run with explicit truncation bounds: only the root search
    `compute_truncation` is replaced (module attribute patched for the duration of the call; /repo is not touched)"""
    with mock.patch.object(spatial, "compute_truncation", lambda model, h, truncation_probability=0.99999: (l, r)):
        return spatial.CTMCUniformGrid(h=h, model=_DimModel(dim), truncation_probability=0.5)


def quotient_is_dont_care(l, r, h):
    """M takes int(|l|/h) as the floor of the exact quotient; when the rounded float quotient lands on the other side
    of an integer the two differ by one point: a don't-care input for the correspondence"""
    return (int(abs(l) / h), int(r / h)) != (math.trunc(Fraction(abs(l)) / Fraction(h)), math.trunc(Fraction(r) / Fraction(h)))


def uniform_model_compare(ctx, d, g_or_exc, l, r, h, dim, cls, branch):
    """C: the constructor's result (grid or exception) against `Drivers/C13 uniform`; returns (same, nL, nR)"""
    out = ctx.lean(f"uniform {w(l)} {w(r)} {w(h)} {dim}").split(" ")
    raised = isinstance(g_or_exc, Exception)
    if out[0] == "raises":
        nL, nR = int(out[1]), int(out[2])
        ctx.count("c13.uniform.model", d, nontrivial=False, branch=branch + ":raises")
        if not (raised and isinstance(g_or_exc, ValueError)):
            ctx.fail("corr", "c13.uniform.model", d, {"name": "Drivers/C13 uniform", "what": "M: the constructor raises ValueError",
                                                     "impl": repr(g_or_exc) if raised else snapshot(g_or_exc)}, cls=cls)
            return False, nL, nR
        return True, nL, nR
    m_axes, m_o, nL, nR = rdll(out[0]), int(out[1]), int(out[2]), int(out[3])
    ctx.count("c13.uniform.model", d, nontrivial=nL + nR >= 4, branch=f"{branch}:L{min(nL, 2)}R{min(nR, 2)}")
    if raised:
        ctx.fail("corr", "c13.uniform.model", d, {"name": "Drivers/C13 uniform", "what": "the constructor raises, M returns a grid",
                                                 "impl": repr(g_or_exc), "model": out[1:]}, cls=cls)
        return False, nL, nR
    sn = snapshot(g_or_exc)
    exact = exact_linspace(l, -h, nL) and exact_linspace(h, r, nR)
    same = (len(sn["axes"]) == dim == len(m_axes) and sn["origin"] == [m_o] * dim and fr(sn["h"]) == fr(h)
            and all(points_agree(a, b, exact, fr(h)) for a, b in zip(sn["axes"], m_axes)))
    if not same:
        ctx.fail("corr", "c13.uniform.model", d, {"name": "Drivers/C13 uniform vs CTMCUniformGrid.__init__", "exact": exact,
                                                 "impl": {"axis": sn["axes"][0][:14], "origin": sn["origin"], "n": len(sn["axes"][0])},
                                                 "model": {"axis": [str(x) for x in m_axes[0][:14]], "origin": m_o, "n": len(m_axes[0])}}, cls=cls)
    return same, nL, nR


def uniform_explicit_case(ctx, d, refine_k=0):
    """C + S for the uniform constructor with explicit bounds (l, r): axis / origin / exceptions against M; the regular
    case theorem (`uniformCtor_wellFormed_partial`) and the exact characterisation (`uniformCtor_wellFormed_iff`,
    `uniformCtor_truncation`) checked on the implementation"""
    l, r, h, dim = d["l"], d["r"], d["h"], d["dim"]
    if quotient_is_dont_care(l, r, h):
        ctx.branches["c13.uniform.model:dont_care_quotient"] += 1
        return
    try:
        g = uniform_with_bounds(l, r, h, dim)
    except Exception as e:  # noqa
        g = e
    cls = dict(kind="uniform", explicit=True)
    same, nL, nR = uniform_model_compare(ctx, d, g, l, r, h, dim, cls, "explicit")
    if isinstance(g, Exception):
        return
    cls["side_points_le_1"] = bool(min(nL, nR) <= 1)
    cls["trunc_inside_h"] = bool(abs(l) <= h or r <= h)
    ok = wellformed_oracle(ctx, "c13.constructor.wellformed", d, g, cls, mirrors_model=same)
    sn = snapshot(g)
    if nL >= 2 and nR >= 2:
        # regular case: in addition to being well formed the axis starts at l, ends at r, has nL + 1 + nR points, pivot nL
        bad = [k for k, ax in enumerate(sn["axes"]) if not (ax[0] == l and ax[-1] == r and len(ax) == nL + 1 + nR and sn["origin"][k] == nL)]
        if ok and bad:
            ctx.fail("oracle", "c13.uniform.regular", d, {"what": "end points / length / origin index of the regular uniform axis",
                                                         "axis": sn["axes"][bad[0]][:14], "origin": sn["origin"], "nL": nL, "nR": nR}, cls=cls)
            return
    else:
        # the recorded one-point-side region, characterised exactly by M's theorems
        predicted = (nL >= 2 or (nL == 1 and l == -h)) and nR >= 1
        ends = ((0.0 if nL == 0 else l), (0.0 if nR == 0 else h if nR == 1 else r))
        if ok != predicted or any((ax[0], ax[-1]) != ends for ax in sn["axes"]):
            ctx.fail("corr", "c13.uniform.one_point_side", d, {"name": "uniformCtor_wellFormed_iff / uniformCtor_truncation",
                                                               "well_formed": ok, "predicted": predicted, "ends_predicted": list(ends),
                                                               "axis": sn["axes"][0][:10], "nL": nL, "nR": nR}, cls=cls)
            return
    if ok and refine_k and len(sn["axes"][0]) <= 400:
        refine_probe(ctx, d, g, refine_k, cls)


def uniform_rootsearched_tie(ctx, d, g, model, h, tp, dim, cls):
    """C for the un-patched constructor: repeat the (deterministic) root search, feed its (l, r) to M"""
    l, r = spatial.compute_truncation(model=model, h=h, truncation_probability=tp)
    l, r = float(l), float(r)
    if not (math.isfinite(l) and math.isfinite(r)) or quotient_is_dont_care(l, r, h):
        ctx.branches["c13.uniform.model:dont_care_quotient"] += 1
        return
    uniform_model_compare(ctx, dict(d, l=l, r=r), g, l, r, h, dim, cls, "rootsearched")


def draw_uniform_explicit(rng):
    """(l, r, h, dim): dyadic (every float operation exact or not), decimal, and the raising classes; the point counts
    0, 1, 2 on each side are drawn as often as the regular ones"""
    dim = rng.choice([1, 1, 2, 3])
    style = rng.choice(["dyadic", "dyadic", "dyadic", "decimal", "decimal", "raise_many", "raise_negative"])
    if style == "raise_many":
        return dict(kind="uniform_explicit", l=-float(2 ** rng.randint(19, 22)), r=float(rng.randint(1, 9)), h=2.0 ** -rng.randint(8, 10), dim=dim)
    if style == "raise_negative":
        return dict(kind="uniform_explicit", l=-rng.randint(1, 40) / 8, r=-rng.randint(1, 40) / 8, h=rng.choice([0.25, 0.5, 1.0]), dim=dim)

    def side(h):
        n = rng.choice([0, 1, 1, 2, 2, 3, 4, 5, 8, 13])
        if style == "dyadic":
            frac = rng.choice([0, 0, 1, 3, 5, 7]) / 8            # bound = (n + frac) h: n points; frac = 0: bound on the lattice
            return (n + frac) * h if n + frac > 0 else h / 2
        return max((n + rng.random()) * h, 0.51 * h)
    h = 2.0 ** -rng.randint(0, 5) if style == "dyadic" else rng.choice([0.1, 0.2, 0.05, 0.3, 0.02])
    return dict(kind="uniform_explicit", l=-side(h), r=side(h), h=h, dim=dim)


WITNESSES = [   # (l, r, h) of Proofs/C13.lean: uniformCtor_one_left_point, uniformCtor_no_left_point, uniformCtor_one_right_point
    ((-1.5, 2.5, 1.0), [-1.5, 0.0, 1.0, 2.5], 1, False),
    ((-0.75, 2.5, 1.0), [0.0, 1.0, 2.5], 0, False),
    ((-2.5, 1.5, 1.0), [-2.5, -1.0, 0.0, 1.0], 2, True),
]


def witness_probe(ctx):
    """the negation witnesses of the full-strength statement, reproduced on the real constructor (exactly)"""
    for (l, r, h), axis, origin, wf in WITNESSES:
        d = dict(kind="uniform_explicit", l=l, r=r, h=h, dim=1, witness=True)
        g = uniform_with_bounds(l, r, h, 1)
        sn = snapshot(g)
        ctx.count("c13.uniform.witness", d, nontrivial=True)
        if sn["axes"] != [axis] or sn["origin"] != [origin]:
            ctx.fail("corr", "c13.uniform.witness", d, {"name": "uniformCtor_one_left_point / no_left_point / one_right_point",
                                                       "impl": sn, "theorem": {"axis": axis, "origin": origin}}, cls=dict(kind="uniform"))
            continue
        uniform_explicit_case(ctx, d)        # -> known finding C13-uniform-one-point-side where not well formed
        if wf and (sn["axes"][0][-1] == r):
            ctx.fail("corr", "c13.uniform.witness", d, {"name": "uniformCtor_truncation_full_false", "impl": sn}, cls=dict(kind="uniform"))


def geometric_closed_form(ctx, d, g, h, nb, cls):
    """np.geomspace is compared only (not modelled in Lean): x_k = h (r/h)^(k/(n-1)), ends exact; left half mirrored"""
    for k, ax in enumerate(zoo.axis_list(g)):
        o = int(list(g.origin_coordinate)[k]) if hasattr(g.origin_coordinate, "__iter__") else int(g.origin_coordinate)
        left, right = ax[:o], ax[o + 1:]
        l, r = ax[0], ax[-1]
        exp_r = [h * (r / h) ** (i / (nb - 1)) for i in range(nb)]
        exp_l = [-(abs(l) * (h / abs(l)) ** (i / (nb - 1))) for i in range(nb)]
        ok = (len(left) == nb == len(right) and right[0] == h and left[-1] == -h
              and all(math.isclose(a, b, rel_tol=1e-12) for a, b in zip(right, exp_r))
              and all(math.isclose(a, b, rel_tol=1e-12) for a, b in zip(left, exp_l)))
        if not ok:
            ctx.fail("corr", "c13.geometric.closed_form", d, {"name": "geometric progression h (r/h)^(k/(n-1))", "axis": ax,
                                                             "expected_right": exp_r, "expected_left": exp_l}, cls=cls)
            return


# ------------------------------------------------------------------------------------------ object reuse, edge arguments
def _origins(g):
    oc = g.origin_coordinate
    return [int(c) for c in oc] if hasattr(oc, "__iter__") else [int(oc)]


def reuse_case(ctx, d, make, cls, k1, k2):
    """histories over grid objects: two objects from the same arguments, one refined, deep-copied, copy refined,
    original refined again; no object may see another one's refinement and equal histories must give equal grids"""
    def bad(what, **kw):
        ctx.fail("oracle", "c13.reuse", d, dict(what=what, **kw), cls=cls)
    try:
        gA, gB = make(), make()
    except Exception as e:      # constructor rejects these arguments
        ctx.branches[f"c13.ctor_raises:{d['kind']}:{type(e).__name__}"] += 1
        return
    s0 = snapshot(gA)
    ctx.count("c13.reuse", d, nontrivial=min(len(a) for a in s0["axes"]) >= 3, branch=d["kind"])
    if snapshot(gB) != s0:
        return bad("two constructions from equal arguments differ", a=s0, b=snapshot(gB))
    refine_probe(ctx, dict(d, obj="A"), gA, k1, cls)
    if snapshot(gB) != s0:
        return bad("refining one grid object changed another one built from the same arguments", before=s0, after=snapshot(gB))
    s1 = snapshot(gA)
    gC = copy.deepcopy(gA)
    if snapshot(gC) != s1:
        return bad("deep copy differs from the original", orig=s1, copy=snapshot(gC))
    refine_probe(ctx, dict(d, obj="copy"), gC, k2, cls)
    if snapshot(gA) != s1:
        return bad("refining the deep copy changed the original", before=s1, after=snapshot(gA))
    refine_probe(ctx, dict(d, obj="B"), gB, k1, cls)
    if snapshot(gB) != s1:
        return bad("equal histories (same arguments, same number of refinements) give different grids", a=s1, b=snapshot(gB))
    refine_probe(ctx, dict(d, obj="A-again"), gA, k2, cls)
    if snapshot(gA) != snapshot(gC):
        return bad("original refined after the copy differs from the copy refined the same number of times",
                   orig=snapshot(gA), copy=snapshot(gC))


def draw_reuse(rng):
    """(description, factory, cls) for the reuse probe - cheap constructors of every kind"""
    kind = rng.choice(["fixed", "geometric_bounds", "uniform_explicit", "credit", "synthetic", "probstep", "uniform"])
    if kind == "fixed":
        d = dict(kind="fixed", h=rng.choice([0.5, 0.1, 0.25]), nb=rng.choice([3, 4, 5, 9]), dim=rng.choice([1, 2, 3]))
        return d, (lambda: zoo.make_grid("fixed", None, d["h"], nb_of_points=d["nb"], dimension=d["dim"])[0]), dict(kind="fixed")
    if kind == "geometric_bounds":
        d = dict(kind="geometric_bounds", h=rng.choice([0.1, 0.125]), nb=rng.choice([2, 3, 5]), dim=rng.choice([1, 2, 3]),
                 tr=[-rng.choice([0.5, 1.0]), rng.choice([0.75, 3.0])])
        return d, (lambda: zoo.make_grid("geometric_bounds", None, d["h"], nb=d["nb"], truncations=tuple(d["tr"]), dimension=d["dim"])[0]), \
            dict(kind="geometric_bounds", trunc_inside_h=False)
    if kind == "uniform_explicit":
        h = rng.choice([0.25, 0.5, 0.1])
        d = dict(kind="uniform_explicit", h=h, l=-(rng.randint(2, 6) + rng.choice([0, 0.5])) * h, r=(rng.randint(2, 6) + rng.choice([0, 0.25])) * h,
                 dim=rng.choice([1, 2, 3]))
        return d, (lambda: uniform_with_bounds(d["l"], d["r"], d["h"], d["dim"])), dict(kind="uniform", side_points_le_1=False)
    if kind == "synthetic":
        nl, nr = rng.randint(1, 4), rng.randint(1, 4)
        h = rng.choice([1.0, 0.5])
        ax = [-(h + i * 0.75) for i in range(nl)][::-1] + [0.0] + [h + i * 1.25 for i in range(nr)]
        d = dict(kind="synthetic", axis=ax, h=h, origin=nl, dim=rng.choice([1, 2]), shared=rng.random() < 0.5)

        def mk():
            a = np.array(d["axis"])
            return zoo.CTMCGrid(h=d["h"], origin_coordinate=d["origin"], axes=[a] * d["dim"] if d["shared"] else [a.copy() for _ in range(d["dim"])])
        return d, mk, dict(kind="synthetic")
    fam = rng.choice(["hem", "vg", "cgmy"])
    model = zoo.make_levy(fam, {})
    if kind == "credit":
        d = dict(kind="credit", family=fam, params={}, h=0.1, a=-rng.choice([0.25, 0.3, 0.5]), sym=True)
        return d, (lambda: zoo.make_grid("credit", model, d["h"], level_a=d["a"])[0]), dict(kind="credit", family=fam)
    if kind == "probstep":
        d = dict(kind="probstep", family=fam, params={}, h=0.1, mps=rng.choice([0.1, 0.2]))
        return d, (lambda: zoo.make_grid("probstep", model, d["h"], minimum_probability_step=d["mps"])[0]), dict(kind="probstep", family=fam)
    d = dict(kind="uniform", family=fam, params={}, h=0.05, tp=0.99999)
    return d, (lambda: zoo.make_grid("uniform", model, d["h"], truncation_probability=d["tp"])[0]), dict(kind="uniform", family=fam, side_points_le_1=False)


def edge_probe(ctx, rng):
    """edge arguments, the same list in every run: tiny fixed grids, bounds inside [-h, h], h larger than the truncation
    range, dimension 3 with three different thresholds, per-axis sizes containing 1"""
    # fixed: nb_of_points 0..4 (0, 1 -> the one-point grid [0]; 2, 3 -> [-h, 0, h]), every dimension
    for nb in (0, 1, 2, 3, 4):
        for dim in (1, 2, 3):
            h = rng.choice([0.5, 0.1, 0.25])
            g, d = zoo.make_grid("fixed", None, h, nb_of_points=nb, dimension=dim)
            cls = dict(kind="fixed", edge=True)
            ctx.count("c13.constructor", d, nontrivial=nb >= 2, branch=f"fixed:nb{nb}")
            out = ctx.lean(f"fixed {w(h)} {nb} {dim}").split(" ")
            m_axes, m_o = rdll(out[0]), int(out[1])
            sn = snapshot(g)
            if not (sn["origin"] == [m_o] * dim and len(m_axes) == dim and all(points_agree(a, b, False, fr(h)) for a, b in zip(sn["axes"], m_axes))):
                ctx.fail("corr", "c13.fixed.model", d, {"name": "Drivers/C13 fixed", "impl": sn, "model": out}, cls=cls)
                continue
            if nb >= 2:        # a one-point grid has no neighbours of 0: outside the property's reach, compared with M only
                if wellformed_oracle(ctx, "c13.constructor.wellformed", d, g, cls):
                    refine_probe(ctx, d, g, 2, cls)
            else:
                refine_probe(ctx, d, g, 2, cls, check_wf=False)
    # user-supplied bounds inside / on [-h, h]
    for h, tr in ((2.0, (-0.5, 0.75)), (0.5, (-0.5, 0.75)), (0.5, (-1.0, 0.5)), (0.5, (-1.0, 0.75))):
        for dim in (1, 3):
            nb = rng.choice([2, 3, 5])
            g, d = zoo.make_grid("geometric_bounds", None, h, nb=nb, truncations=tr, dimension=dim)
            cls = dict(kind="geometric_bounds", edge=True, trunc_inside_h=bool(abs(tr[0]) <= h or tr[1] <= h))
            ctx.count("c13.constructor", d, nontrivial=True, branch="geometric_bounds:inside_h" if cls["trunc_inside_h"] else "geometric_bounds")
            if wellformed_oracle(ctx, "c13.constructor.wellformed", d, g, cls):
                geometric_closed_form(ctx, d, g, h, nb, cls)
                refine_probe(ctx, d, g, 1, cls)
    # h larger than the root-searched truncation range (every family; not the probability-step grid: see NOT_PROVED)
    for fam in zoo.FAMILIES:
        model = zoo.make_levy(fam, {})
        for kind in ("uniform", "geometric", "credit"):
            h = rng.choice([1.0, 2.0, 5.0])
            kw = dict(truncation_probability=0.999) if kind != "credit" else dict(level_a=-0.3)
            if kind == "geometric":
                kw["nb"] = 3
            desc = dict(family=fam, params={})
            cls = dict(kind=kind, family=fam, edge=True)
            with np.errstate(all="ignore"):
                g, d = build(ctx, kind, model, h, cls, desc, **kw)
            if g is None:
                continue
            o0 = _origins(g)[0]
            l0, r0 = (float(x) for x in g.truncations[0])
            cls["side_points_le_1"] = bool(min(o0, len(g.axes[0]) - 1 - o0) <= 1)
            cls["trunc_inside_h"] = bool(abs(l0) <= h or r0 <= h)
            if kind == "credit":
                cls["threshold_inside_h"] = bool(kw["level_a"] >= -h)
            ctx.count("c13.constructor", d, nontrivial=len(g.axes[0]) >= 5, branch=kind + ":large_h")
            if kind == "uniform":
                with np.errstate(all="ignore"):
                    uniform_rootsearched_tie(ctx, d, g, model, h, kw["truncation_probability"], 1, cls)
            if wellformed_oracle(ctx, "c13.constructor.wellformed", d, g, cls) and len(g.axes[0]) <= 400:
                refine_probe(ctx, d, g, 1, cls)
    # dimension 3, three different thresholds, both variants
    margins = [zoo.make_levy(f, {}) for f in ("hem", "vg", "cgmy")]
    for sym in (True, False):
        a = [-0.25, -0.3, -0.4]
        rng.shuffle(a)
        credit_nd_case(ctx, dict(kind="credit_nd", dim=3, h=0.05, a=a, sym=sym, margins=[type(m).__name__ for m in margins]),
                       margins, rng.choice(zoo.COPULAS), 2)
    # per-axis sizes containing 1 (origin index 0 on every axis: right-only axes and the one-point axis [0])
    for sizes in ((1,), (1, 1), (4, 1), (1, 3, 1), (2, 1, 5)):
        h = rng.choice([1.0, 0.5])
        axes = [np.array([0.0] + list(np.cumsum([h] + [rng.randint(1, 64) / 64 for _ in range(n - 2)]))[: n - 1]) for n in sizes]
        d = dict(kind="synthetic_sizes", axes=[[float(x) for x in a] for a in axes], h=h, origin=0, sizes=list(sizes))
        g = zoo.CTMCGrid(h=h, origin_coordinate=0, axes=axes)
        refine_probe(ctx, d, g, 3, dict(kind="synthetic"), check_wf=False)


def credit_nd_case(ctx, d, margins, copula, kref):
    dim, h, a, sym = d["dim"], d["h"], list(d["a"]), d["sym"]
    cls = dict(kind="credit_nd", sym=sym)
    cm_ = zoo.make_copula_model(margins, zoo.make_copula(copula))
    try:
        g = zoo.CTMCCredit(h=h, level_a=a, model=cm_, symmetric_grid=sym)
    except Exception as e:
        ctx.branches[f"c13.ctor_raises:credit_nd:{type(e).__name__}"] += 1
        return
    ctx.count("c13.constructor", d, branch="credit_nd" + (":3thresholds" if len(set(a)) == 3 else ""))
    l_, r_ = g.truncations[0]
    cls["mirror_exceeds_r"] = bool(sym and any(-ai + min(abs(l_ - ai) / 2, abs(ai + h) / 2) >= r_ for ai in a))
    nd_tail_probability_oracle(ctx, d, g, margins, h, 0.99999, cls)
    if wellformed_oracle(ctx, "c13.constructor.wellformed", d, g, cls):
        s = snapshot(g)
        for i, ax in enumerate(s["axes"]):
            out = rdl(ctx.lean(f"credit {w(s['trunc'][i][0])} {w(a[i])} {w(h)} {w(s['trunc'][i][1])} {1 if sym else 0}"))
            if not (len(out) == len(ax) and all(close(p, q) for p, q in zip(ax, out))):
                ctx.fail("corr", "c13.credit.model", d, {"name": "Drivers/C13 credit", "impl": ax, "model": [str(x) for x in out]}, cls=cls)
        refine_probe(ctx, d, g, kref, cls)


# ------------------------------------------------------------------------------------------ constructor histories
HIST_WRAPS = ["levy", "exp", "sde", "fwd", "copula"]
_PNAMES = {f: sorted(zoo.draw_params(random.Random(0), f)) for f in zoo.FAMILIES}


class _Subject:
    """one live model object taken through a history, and the recipe to construct it afresh at its current values:
    wrap = levy (the Lévy model itself) | exp (exponential-of-Lévy model) | sde / fwd (Lévy-driven SDE / forward market model
    on the Lévy model as driver) | copula (Lévy copula model on several margins)"""

    def __init__(self, wrap, fams, params, copula=None):
        self.wrap, self.fams, self.copula = wrap, list(fams), copula
        self.truncs = [[] for _ in self.fams]           # truncations applied so far, per margin, in order
        self.model = self._assemble([self._margin(f, p) for f, p in zip(self.fams, params)])

    def _margin(self, fam, p):
        return zoo.make_exp(fam, p) if self.wrap == "exp" else zoo.make_levy(fam, p)

    def _assemble(self, margins):
        if self.wrap == "copula":
            return zoo.make_copula_model(margins, zoo.make_copula(self.copula))
        if self.wrap == "sde":
            return LevyDrivenSDEModel(driver=margins[0], x0=0.0)
        if self.wrap == "fwd":
            return create_levy_forward_market_model(margins[0])
        return margins[0]

    def margins(self):
        m = self.model
        return list(m.models) if self.wrap == "copula" else [m.driver] if self.wrap in ("sde", "fwd") else [m]

    def pobj(self, i):
        m = self.margins()[i]
        return m.levy_model.parameters if self.wrap == "exp" else m.parameters

    def current(self, i):
        return {n: getattr(self.pobj(i), n) for n in _PNAMES[self.fams[i]]}

    def edit(self, i, new):
        """what rpylib.model.utils does after a calibration: attribute assignment on the live parameter object, then
        `initialisation()` (re-derives the dependent members)"""
        p = self.pobj(i)
        for k, v in new.items():
            setattr(p, k, v)
        p.initialisation()

    def truncate(self, bounds):
        """in place, the call a chain construction applies to its copy of the model"""
        for i, b in enumerate(bounds):
            self.truncs[i].append((float(b[0]), float(b[1])))
        self.model.truncate_levy_measure(bounds if self.wrap == "copula" else bounds[0])

    def through_chain(self, grid):
        """continue with the (deep-copied, truncated, re-represented) model a Markov chain construction keeps"""
        self.truncs[0].append(tuple(float(x) for x in grid.truncations[0]))
        self.model = MarkovChainProcess(self.model, SamplingMethod.INVERSION, grid).model

    def fresh(self):
        ms = []
        for i, f in enumerate(self.fams):
            m = self._margin(f, self.current(i))
            for tr in self.truncs[i]:
                m.truncate_levy_measure(tr)
            ms.append(m)
        return self._assemble(ms)


def zero_mass_gap(g, nu):
    """does the axis of a probability-step grid have a gap (other than the two next to 0) that carries no jump mass at all
    (states beyond the support of a truncated measure, or where the mass underflows to 0.0)?"""
    ax, o = zoo.axis_list(g)[0], _origins(g)[0]
    with np.errstate(all="ignore"):
        return bool(any(not nu.integrate(x, y) > 0 for k, (x, y) in enumerate(zip(ax, ax[1:])) if k not in (o - 1, o)))


def per_step_probability_oracle(ctx, d, g, nu, h, mps, cls):
    """promised per-step probability of the probability-step axes: walking outwards from +-h every gap between two
    states carries the share `minimum_probability_step` of the jump mass outside (-h/2, h/2) for as long as the mass left
    on that side suffices, i.e. the first k gaps carry it and less than one step's share lies beyond the k-th state"""
    ax = zoo.axis_list(g)[0]
    o = _origins(g)[0]
    tot = nu.integrate(-np.inf, -h / 2) + nu.integrate(h / 2, np.inf)
    for side, pts in (("right", ax[o + 1:]), ("left", ax[:o][::-1])):
        mass = (lambda a, b: nu.integrate(a, b)) if side == "right" else (lambda a, b: nu.integrate(b, a))
        end = np.inf if side == "right" else -np.inf
        shares = [mass(a, b) / tot for a, b in zip(pts, pts[1:])]
        k = 0
        while k < len(shares) and abs(shares[k] - mps) <= 1e-7:
            k += 1
        beyond = mass(pts[k], end) / tot
        if not beyond < mps + 1e-7:
            ctx.fail("oracle", "c13.step_probability", d, {"side": side, "what": "a gap does not carry the promised per-step probability although the "
                                                           "mass beyond it suffices", "shares": shares[:12], "full_steps": k, "beyond": beyond,
                                                           "promised": mps, "states": pts[:12]}, cls=cls)
            return False
    return True


def grids_agree(sa, sb):
    """two snapshots describe the same grid (root searches repeated on equal inputs: far inside their tolerance)"""
    if sa["h"] != sb["h"] or sa["origin"] != sb["origin"] or [len(a) for a in sa["axes"]] != [len(a) for a in sb["axes"]]:
        return False
    tol = lambda x, y: abs(x - y) <= 1e-8 * max(abs(x), abs(y), sa["h"])
    return (all(tol(x, y) for a, b in zip(sa["axes"], sb["axes"]) for x, y in zip(a, b))
            and all(tol(x, y) for a, b in zip(sa["trunc"], sb["trunc"]) for x, y in zip(a, b)))


def _grid_kwargs(gk, a):
    kw = {}
    if gk in ("uniform", "geometric"):
        kw["truncation_probability"] = a["tp"]
    if gk == "geometric":
        kw["nb"] = a["nb"]
    if gk == "credit":
        kw["level_a"] = a["a"]
        kw["symmetric_grid"] = a.get("sym", True)
    if gk == "probstep":
        kw["minimum_probability_step"] = a["mps"]
    return kw


def judge_build(ctx, d, i, subj, gk, a, last_op):
    """one construction of the history: the grid built on the live object is judged by the property's oracles against the
    object's CURRENT measure and compared with the grid built from a freshly constructed model at the current values"""
    h = a["h"]
    dim = len(subj.fams)
    margins = subj.margins()
    ds = dict(d, step=i, h=h)
    nd = subj.wrap == "copula"
    cls = dict(kind=("credit_nd" if nd and gk == "credit" else gk), family=subj.fams[0], history=True, wrap=subj.wrap, after=last_op)
    if gk == "probstep":       # NOT_PROVED: without jump mass outside (-h/2, h/2) the constructor does not terminate
        nu = margins[0].levy_triplet.nu
        with np.errstate(all="ignore"):
            sides = (nu.integrate(h / 2, np.inf), nu.integrate(-np.inf, -h / 2))
        if not all(math.isfinite(s) and s > 0 for s in sides):
            ctx.branches["c13.history:probstep_without_mass_skipped"] += 1
            return None
    kw = _grid_kwargs(gk, a)
    res = []
    for model in (subj.model, subj.fresh()):
        try:
            with np.errstate(all="ignore"):
                res.append(zoo.make_grid(gk, model, h, **kw)[0])
        except Exception as e:  # noqa
            res.append(e)
    g, gf = res
    built = not isinstance(g, Exception)
    ctx.count("c13.history", ds, nontrivial=built and last_op != "start" and min(len(x) for x in g.axes) >= 5,
              branch=f"{subj.wrap}:{gk}:after_{last_op}" + ("" if built else ":raises"))
    if isinstance(g, Exception) or isinstance(gf, Exception):
        if type(g) is not type(gf):
            ctx.fail("oracle", "c13.history.fresh", ds, {"what": "the constructor behaves differently on the object reached through the history and on "
                                                         "a freshly constructed model with the same parameter values",
                                                         "after_history": repr(g) if not built else snapshot(g)["trunc"],
                                                         "fresh": repr(gf) if isinstance(gf, Exception) else snapshot(gf)["trunc"]}, cls=cls)
        else:
            ctx.branches[f"c13.ctor_raises:history:{gk}:{type(g).__name__}"] += 1
        return None
    s = snapshot(g)
    l0, r0 = s["trunc"][0]
    o0 = s["origin"][0]
    cls["side_points_le_1"] = bool(min(o0, len(s["axes"][0]) - 1 - o0) <= 1)
    cls["trunc_inside_h"] = bool(abs(l0) <= h or r0 <= h)
    if gk == "credit":
        if nd:
            cls["sym"] = bool(a.get("sym", True))
            cls["mirror_exceeds_r"] = bool(cls["sym"] and any(-ai + min(abs(l0 - ai) / 2, abs(ai + h) / 2) >= r0 for ai in a["a"]))
        else:
            cls["threshold_inside_h"] = bool(a["a"] >= -h)
    if gk == "probstep":       # a measure of bounded support (truncated model): states beyond the support, gaps without jump mass
        cls["zero_mass_gap"] = zero_mass_gap(g, margins[0].levy_triplet.nu)
    if gk == "uniform" and all(math.isfinite(x) for x in (l0, r0)):
        with np.errstate(all="ignore"):
            uniform_rootsearched_tie(ctx, ds, g, subj.model, h, a["tp"], dim, cls)
    ok = wellformed_oracle(ctx, "c13.constructor.wellformed", ds, g, cls)
    if ok:
        tp = a["tp"] if gk in ("uniform", "geometric") else 0.99999 if gk == "credit" else None
        if tp is not None:
            with np.errstate(all="ignore"):
                if nd:
                    nd_tail_probability_oracle(ctx, ds, g, margins, h, tp, cls)
                else:
                    tail_probability_oracle(ctx, ds, g, margins[0], tp, cls)
        if gk == "probstep":
            per_step_probability_oracle(ctx, ds, g, margins[0].levy_triplet.nu, h, a["mps"], cls)
    sf = snapshot(gf)
    if not grids_agree(s, sf):
        ctx.fail("oracle", "c13.history.fresh", ds, {"what": "same constructor, same arguments, same parameter values, but the grid built on the object "
                                                     "reached through the history differs from the grid built on a freshly constructed model (at most "
                                                     "one of them keeps the promise for these parameter values)",
                                                     "after_history": {"trunc": s["trunc"], "n": [len(x) for x in s["axes"]], "axis": s["axes"][0][:9]},
                                                     "fresh": {"trunc": sf["trunc"], "n": [len(x) for x in sf["axes"]], "axis": sf["axes"][0][:9]},
                                                     "current_parameters": [subj.current(j) for j in range(dim)]}, cls=cls)
    g0 = copy.deepcopy(g)          # the grid as built (for a later chain / truncation step)
    if ok and len(s["axes"][0]) <= 150:
        refine_probe(ctx, ds, g, 1, cls)
    return g0


def history_case(ctx, d):
    """C + S over constructor histories: several grids built one after the other in this process on ONE model object whose
    parameters are edited in place between the constructions (`edit`), which is truncated in place (`truncate`) or replaced by
    the truncated copy an earlier chain construction keeps (`chain`); the same grid arguments on another model object
    (`other`); the same object with other h / probability (`build` with new arguments)"""
    subj = _Subject(d["wrap"], d["fams"], d["params"], d.get("copula"))
    last_op, last_grid, last_args = "start", None, None
    for i, st in enumerate(d["steps"]):
        op = st[0]
        if op == "build":
            last_args = (st[1], st[2])
            last_grid = judge_build(ctx, d, i, subj, st[1], st[2], last_op)
            last_op = "build"
        elif op == "edit":
            try:
                subj.edit(st[1], st[2])
            except Exception:          # a value the family's descriptors refuse: the history stops here
                ctx.branches["c13.history:edit_refused"] += 1
                return
            last_op = "edit"
        elif op == "other" and last_args is not None:
            # the same grid arguments on a different model object (another family / other values), then back
            other = _Subject(d["wrap"], st[1], st[2], d.get("copula"))
            judge_build(ctx, d, i, other, last_args[0], last_args[1], "other_object")
        elif op == "truncate" and last_grid is not None:
            subj.truncate(list(last_grid.truncations)[:len(subj.fams)] if subj.wrap == "copula" else [last_grid.truncations[0]])
            last_op = "truncate"
        elif op == "chain" and last_grid is not None and subj.wrap in ("levy", "exp"):
            try:
                with np.errstate(all="ignore"):
                    subj.through_chain(last_grid)
            except Exception:          # the chain cannot be built on this grid (C01's business): the history stops here
                ctx.branches["c13.history:chain_refused"] += 1
                return
            last_op = "chain"


def _draw_grid_args(rng, wrap, dim, prev=None):
    """(constructor, arguments); with `prev` the same constructor/arguments with one of h / probability / constructor changed"""
    kinds = ["uniform", "geometric", "credit"] + (["probstep"] if wrap in ("levy", "exp") else [])
    if wrap in ("sde", "fwd"):
        kinds = ["uniform", "geometric"]
    gk = rng.choice(kinds)
    a = dict(h=rng.choice([0.1, 0.05, 0.02]), tp=rng.choice([0.99, 0.999, 0.99999]), nb=rng.choice([3, 5, 8]), mps=rng.choice([0.05, 0.1, 0.2]),
             a=[-x for x in rng.sample([0.25, 0.3, 0.4], dim)] if wrap == "copula" else -rng.choice([0.25, 0.3, 0.5]), sym=rng.random() < 0.5)
    if prev is not None:
        what = rng.choice(["h", "tp", "kind"])
        pk, pa = prev
        if what == "h":
            gk, a = pk, dict(pa, h=rng.choice([x for x in (0.1, 0.05, 0.02) if x != pa["h"]]))
        elif what == "tp":
            gk, a = pk, dict(pa, tp=rng.choice([x for x in (0.99, 0.999, 0.99999) if x != pa["tp"]]), mps=rng.choice([x for x in (0.05, 0.1, 0.2) if x != pa["mps"]]))
        else:
            a = dict(pa, a=a["a"], sym=a["sym"])
    if gk == "probstep" and a["h"] < 0.05:
        a["h"] = 0.05
    return gk, a


def _draw_edit(rng, fam):
    """new values for all primary parameters, or for one / two of them only (any CGMY activity branch: the measure reads y live)"""
    new = zoo.draw_params(rng, fam)
    style = rng.choice(["all", "all", "one", "two"])
    if style != "all":
        new = {k: new[k] for k in rng.sample(sorted(new), 1 if style == "one" else 2)}
    return new


def draw_history(rng):
    wrap = rng.choice(HIST_WRAPS)
    dim = rng.choice([2, 2, 3]) if wrap == "copula" else 1
    fams = [rng.choice(zoo.FAMILIES) for _ in range(dim)]
    params = [({} if rng.random() < 0.3 else zoo.draw_params(rng, f)) for f in fams]
    d = dict(kind="history", wrap=wrap, fams=fams, params=params, steps=[])
    if wrap == "copula":
        d["copula"] = rng.choice(zoo.COPULAS)
    args = _draw_grid_args(rng, wrap, dim)
    d["steps"].append(["build", args[0], args[1]])
    for _ in range(rng.randint(2, 4)):
        op = rng.choice(["edit", "edit", "edit", "other", "truncate", "chain", "none"])
        if op == "edit":
            j = rng.randrange(dim)
            d["steps"].append(["edit", j, _draw_edit(rng, fams[j])])
        elif op == "other":
            of = [rng.choice(zoo.FAMILIES) for _ in range(dim)]
            d["steps"].append(["other", of, [zoo.draw_params(rng, f) for f in of]])
        elif op == "chain" and wrap not in ("levy", "exp"):
            d["steps"].append(["truncate"])
        elif op != "none":
            d["steps"].append([op])
        if op == "none" or rng.random() < 0.35:         # other h / probability / constructor on the same object
            args = _draw_grid_args(rng, wrap, dim, prev=args)
        d["steps"].append(["build", args[0], args[1]])
    return d


def history_probe(ctx, rng):
    # in every run: every family x every truncation-based constructor, plain and wrapped: build, edit in place, build again
    for fam in zoo.FAMILIES:
        for gk in ("uniform", "geometric", "credit"):
            wrap = rng.choice(["levy", "exp"] if gk == "credit" else ["levy", "exp", "sde", "fwd"])
            args = dict(h=rng.choice([0.1, 0.05]), tp=rng.choice([0.999, 0.99999]), nb=rng.choice([3, 5]), mps=0.1, a=-rng.choice([0.25, 0.3]), sym=True)
            history_case(ctx, dict(kind="history", wrap=wrap, fams=[fam], params=[{}],
                                   steps=[["build", gk, args], ["edit", 0, zoo.draw_params(rng, fam)], ["build", gk, args],
                                          ["edit", 0, _draw_edit(rng, fam)], ["build", gk, args]]))
    for _ in range(2):          # ... and a copula model with one margin edited
        dim = rng.choice([2, 3])
        fams = [rng.choice(zoo.FAMILIES) for _ in range(dim)]
        gk = rng.choice(["uniform", "geometric", "credit"])
        args = dict(h=0.05, tp=rng.choice([0.999, 0.99999]), nb=rng.choice([3, 5]), mps=0.1, a=[-x for x in rng.sample([0.25, 0.3, 0.4], dim)], sym=rng.random() < 0.5)
        j = rng.randrange(dim)
        history_case(ctx, dict(kind="history", wrap="copula", fams=fams, params=[{}] * dim, copula=rng.choice(zoo.COPULAS),
                               steps=[["build", gk, args], ["edit", j, zoo.draw_params(rng, fams[j])], ["build", gk, args]]))
    for _ in range(ctx.n(40, 300)):
        history_case(ctx, draw_history(rng))


def run(ctx):
    rng = ctx.rng
    # np.linspace and the uniform constructor with explicit bounds against M; the theorems' witnesses on the real code
    witness_probe(ctx)
    for nL in range(4):          # every pair of point counts 0..3, bound off / on the lattice of h (on: l = -h is "one point, well formed")
        for nR in range(4):
            for frac in (0.5, 0.0):
                h = rng.choice([0.5, 0.25, 1.0])
                uniform_explicit_case(ctx, dict(kind="uniform_explicit", l=-((nL + frac) * h or h / 2), r=(nR + frac) * h or h / 2, h=h,
                                                dim=rng.choice([1, 2, 3])), refine_k=1)
    for _ in range(ctx.n(60, 600)):
        a, b = (rng.randint(-64, 64) / 8, rng.randint(-64, 64) / 8) if rng.random() < 0.6 else (round(rng.uniform(-5, 5), 2), round(rng.uniform(-5, 5), 3))
        linspace_case(ctx, dict(kind="linspace", a=a, b=b, n=rng.choice([0, 1, 2, 3, 4, 5, 6, 7, 9, 12, 17, 33])))
    for _ in range(ctx.n(120, 1500)):
        uniform_explicit_case(ctx, draw_uniform_explicit(rng), refine_k=rng.choice([0, 0, 1, 2]))
    edge_probe(ctx, rng)
    for _ in range(ctx.n(8, 60)):
        d, make, cls = draw_reuse(rng)
        reuse_case(ctx, d, make, cls, rng.randint(1, 2), rng.randint(1, 2))
    for _ in range(ctx.n(6, 40)):
        nd_grid_probe(ctx, rng, 1)
    nmodels = ctx.n(10, 60)
    kmax = ctx.n(2, 4)
    hs = [0.2, 0.1, 0.05, 0.02]
    for fam, params in zoo.model_stream(rng, nmodels):
        model = zoo.make_levy(fam, params)
        for kind in zoo.GRID_KINDS:
            h = rng.choice(hs)
            kw = {}
            dim = 1
            if kind in ("uniform", "geometric"):
                kw["truncation_probability"] = rng.choice([0.99, 0.999, 0.99999])
            if kind in ("geometric", "geometric_bounds"):
                kw["nb"] = rng.choice([2, 3, 5, 8])
            if kind == "geometric_bounds":
                kw["truncations"] = (-rng.choice([0.5, 1.0, 2.0]), rng.choice([0.75, 1.5, 3.0]))
                dim = rng.choice([1, 2, 3])
            if kind == "fixed":
                kw["nb_of_points"] = rng.choice([3, 5, 8, 9, 21])
                dim = rng.choice([1, 2, 3])
            if kind == "probstep":
                kw["minimum_probability_step"] = rng.choice([0.05, 0.1, 0.2])
                if h < 0.05:
                    h = 0.05
            if kind == "credit":
                kw["level_a"] = -rng.choice([0.25, 0.3, 0.5])
            desc = dict(family=fam, params=params)
            cls = dict(kind=kind, family=fam)
            g, d = build(ctx, kind, model, h, cls, desc, dimension=dim, **kw)
            if g is None:
                continue
            o0 = int(list(g.origin_coordinate)[0])
            l0, r0 = g.truncations[0]
            cls["side_points_le_1"] = bool(min(o0, len(g.axes[0]) - 1 - o0) <= 1)
            cls["trunc_inside_h"] = bool(abs(l0) <= h or r0 <= h)
            ctx.count("c13.constructor", d, nontrivial=len(g.axes[0]) >= 5, branch=kind)
            if kind == "probstep":
                cls["zero_mass_gap"] = zero_mass_gap(g, model.levy_triplet.nu)
            if kind == "uniform":
                uniform_rootsearched_tie(ctx, d, g, model, h, kw["truncation_probability"], 1, cls)
            if not wellformed_oracle(ctx, "c13.constructor.wellformed", d, g, cls):
                continue
            if kind in ("uniform", "geometric"):
                tail_probability_oracle(ctx, d, g, model, kw["truncation_probability"], cls)
            if kind in ("geometric", "geometric_bounds"):
                geometric_closed_form(ctx, d, g, h, kw["nb"], cls)
            if kind == "probstep":
                per_step_probability_oracle(ctx, d, g, model.levy_triplet.nu, h, kw["minimum_probability_step"], cls)
            if kind == "fixed":
                out = ctx.lean(f"fixed {w(h)} {kw['nb_of_points']} {dim}").split(" ")
                m_axes, m_o = rdll(out[0]), int(out[1])
                s = snapshot(g)
                if not (s["origin"] == [m_o] * dim and len(m_axes) == dim and
                        all(len(a) == len(b) and all(close(p, l) for p, l in zip(a, b)) for a, b in zip(s["axes"], m_axes))):
                    ctx.fail("corr", "c13.fixed.model", d, {"name": "Drivers/C13 fixed", "impl": s, "model": out}, cls=cls)
            if kind == "credit":
                s = snapshot(g)
                l, r = s["trunc"][0]
                out = rdl(ctx.lean(f"credit {w(l)} {w(kw['level_a'])} {w(h)} {w(r)} 0"))
                if not (len(out) == len(s["axes"][0]) and all(close(p, q) for p, q in zip(s["axes"][0], out))):
                    ctx.fail("corr", "c13.credit.model", d, {"name": "Drivers/C13 credit", "impl": s, "model": [str(x) for x in out]}, cls=cls)
                # threshold sits exactly on the cell boundary between points 1 and 2
                a = kw["level_a"]
                if not math.isclose(g.middle(float(g.axes[0][1]), float(g.axes[0][2])), a, rel_tol=1e-15):
                    ctx.fail("oracle", "c13.credit.threshold", d, {"middle": g.middle(float(g.axes[0][1]), float(g.axes[0][2])), "a": a}, cls=cls)
            nref = kmax if len(g.axes[0]) <= 400 else 1
            if kind == "probstep":
                nref = min(nref, 2)
            refine_probe(ctx, d, g, nref, cls)

    # copula credit grids (n-d, symmetric and not)
    for it in range(ctx.n(5, 14)):
        dim = rng.choice([2, 3])
        margins = [zoo.make_levy(f, p) for f, p in [(rng.choice(["hem", "merton", "vg", "cgmy"]), {}) for _ in range(dim)]]
        cm_ = zoo.make_copula_model(margins, zoo.make_copula(rng.choice(zoo.COPULAS)))
        h = rng.choice([0.1, 0.05])
        sym = [True, False][it % 2]
        a = [-rng.choice([0.25, 0.3, 0.4]) for _ in range(dim)]
        if it % 3 != 2 and len(set(a)) == 1:      # most cases: one threshold per margin, not all equal
            a[-1] = -rng.choice([x for x in (0.25, 0.3, 0.4) if x != -a[0]])
        d = dict(kind="credit_nd", dim=dim, h=h, a=a, sym=sym, margins=[type(m).__name__ for m in margins])
        cls = dict(kind="credit_nd", sym=sym)
        try:
            g = zoo.CTMCCredit(h=h, level_a=a, model=cm_, symmetric_grid=sym)
        except Exception as e:
            ctx.branches[f"c13.ctor_raises:credit_nd:{type(e).__name__}"] += 1
            continue
        ctx.count("c13.constructor", d, branch="credit_nd")
        l_, r_ = g.truncations[0]
        cls["mirror_exceeds_r"] = bool(sym and any(-ai + min(abs(l_ - ai) / 2, abs(ai + h) / 2) >= r_ for ai in a))
        nd_tail_probability_oracle(ctx, d, g, margins, h, 0.99999, cls)
        if wellformed_oracle(ctx, "c13.constructor.wellformed", d, g, cls):
            s = snapshot(g)
            for i, ax in enumerate(s["axes"]):
                out = rdl(ctx.lean(f"credit {w(s['trunc'][i][0])} {w(a[i])} {w(h)} {w(s['trunc'][i][1])} {1 if sym else 0}"))
                if not (len(out) == len(ax) and all(close(p, q) for p, q in zip(ax, out))):
                    ctx.fail("corr", "c13.credit.model", d, {"name": "Drivers/C13 credit", "impl": ax, "model": [str(x) for x in out]}, cls=cls)
            refine_probe(ctx, d, g, 2, cls)

    # synthetic stream: arbitrary dyadic axes through CTMCGrid.refine vs M (exact midpoints)
    for _ in range(ctx.n(60, 600)):
        n_left, n_right = rng.randint(1, 6), rng.randint(1, 6)
        h = rng.choice([1.0, 0.5, 0.25, 0.125])
        steps = lambda n: np.cumsum([h] + [rng.randint(1, 64) / 64 for _ in range(n - 1)])
        left = [-x for x in steps(n_left)][::-1]
        right = list(steps(n_right))
        axis = np.array(left + [0.0] + right)
        dim = rng.choice([1, 1, 2, 3])
        shared = rng.random() < 0.5
        axes = [axis] * dim if shared else [axis.copy() for _ in range(dim)]
        d = dict(kind="synthetic", axis=[float(x) for x in axis], h=h, origin=n_left, dim=dim, shared=shared)
        if dim > 1 and not shared and rng.random() < 0.6:
            # per-axis storage with axes that really differ: same length, same end points, same -h/0/+h, other interior
            # points (what CTMCCredit builds for unequal thresholds) - each axis must be refined on its own
            movable = [i for i in range(1, len(axis) - 1) if abs(i - n_left) > 1]
            if movable:
                for k in range(1, dim):
                    i = rng.choice(movable)
                    lo_, hi_ = axes[k][i - 1], axes[k][i + 1]
                    cand = [lo_ + (hi_ - lo_) * q for q in (0.25, 0.375, 0.625, 0.75)]
                    cand = [c for c in cand if c != axes[k][i]]
                    axes[k][i] = rng.choice(cand)
                d["axes"] = [[float(x) for x in a] for a in axes]
        g = zoo.CTMCGrid(h=h, origin_coordinate=n_left, axes=axes)
        refine_probe(ctx, d, g, rng.randint(1, kmax + 1), dict(kind="synthetic"))

    # constructor histories on live model objects (last: the streams of the probes above stay as they were)
    history_probe(ctx, rng)


def replay(ctx, rec):
    """re-run the probe of a replay / corpus record"""
    d = rec["input"]
    cls = rec.get("cls", {})
    if d.get("kind") == "history":
        return history_case(ctx, {k: v for k, v in d.items() if k not in ("step", "h", "k", "l", "r")})
    if d.get("kind") == "linspace":
        return linspace_case(ctx, d)
    if d.get("kind") == "uniform_explicit" and "obj" not in d:
        return uniform_explicit_case(ctx, {k: v for k, v in d.items() if k != "k"}, refine_k=d.get("k", 2))
    if d.get("kind") == "synthetic_sizes":
        g = zoo.CTMCGrid(h=d["h"], origin_coordinate=0, axes=[np.array(a) for a in d["axes"]])
        return refine_probe(ctx, {k: v for k, v in d.items() if k != "k"}, g, d.get("k", 3), cls, check_wf=False)
    if "obj" in d or rec.get("probe") == "c13.reuse":
        return replay_reuse(ctx, {k: v for k, v in d.items() if k not in ("k", "obj")}, cls)
    if d.get("kind") == "synthetic":
        axis = np.array(d["axis"])
        axes = [axis] * d["dim"] if d["shared"] else [axis.copy() for _ in range(d["dim"])]
        if "axes" in d:
            axes = [np.array(a) for a in d["axes"]]
        g = zoo.CTMCGrid(h=d["h"], origin_coordinate=d["origin"], axes=axes)
        refine_probe(ctx, {k: v for k, v in d.items() if k != "k"}, g, d.get("k", 2), cls)
        return
    if "family" in d:
        model = zoo.make_levy(d["family"], d["params"])
        kw = {}
        for src, dst in (("tp", "truncation_probability"), ("nb", "nb" if d["kind"] != "fixed" else "nb_of_points"),
                         ("tr", "truncations"), ("mps", "minimum_probability_step"), ("a", "level_a"), ("sym", "symmetric_grid")):
            if src in d:
                kw[dst] = tuple(d[src]) if src == "tr" else d[src]
        g, gd = zoo.make_grid(d["kind"], model, d["h"], dimension=d.get("dim", 1), **kw)
        if wellformed_oracle(ctx, "c13.constructor.wellformed", d, g, cls):
            refine_probe(ctx, {k: v for k, v in d.items() if k != "k"}, g, d.get("k", 2), cls)
        return
    if d.get("kind") == "credit_nd":
        fams = {"HEMModel": "hem", "MertonModel": "merton", "VarianceGammaModel": "vg", "CGMYModel": "cgmy"}
        margins = [zoo.make_levy(fams[m], {}) for m in d["margins"]]
        for cop in zoo.COPULAS:          # the axes do not depend on the copula: rebuild with each kind
            cm_ = zoo.make_copula_model(margins, zoo.make_copula(cop))
            g = zoo.CTMCCredit(h=d["h"], level_a=list(d["a"]), model=cm_, symmetric_grid=d["sym"])
            if wellformed_oracle(ctx, "c13.constructor.wellformed", d, g, cls):
                refine_probe(ctx, {k: v for k, v in d.items() if k != "k"}, g, d.get("k", 2), cls)


def replay_reuse(ctx, d, cls):
    """rebuild the factory of a reuse record from its description and run every (k1, k2) history"""
    kind = d["kind"]
    if kind == "fixed":
        make = lambda: zoo.make_grid("fixed", None, d["h"], nb_of_points=d["nb"], dimension=d["dim"])[0]
    elif kind == "geometric_bounds":
        make = lambda: zoo.make_grid("geometric_bounds", None, d["h"], nb=d["nb"], truncations=tuple(d["tr"]), dimension=d["dim"])[0]
    elif kind == "uniform_explicit":
        make = lambda: uniform_with_bounds(d["l"], d["r"], d["h"], d["dim"])
    elif kind == "synthetic":
        def make():
            a = np.array(d["axis"])
            return zoo.CTMCGrid(h=d["h"], origin_coordinate=d["origin"], axes=[a] * d["dim"] if d["shared"] else [a.copy() for _ in range(d["dim"])])
    else:
        model = zoo.make_levy(d["family"], d["params"])
        kw = {"credit": dict(level_a=d.get("a")), "probstep": dict(minimum_probability_step=d.get("mps")),
              "uniform": dict(truncation_probability=d.get("tp"))}[kind]
        make = lambda: zoo.make_grid(kind, model, d["h"], **kw)[0]
    for k1 in (1, 2):
        for k2 in (1, 2):
            reuse_case(ctx, d, make, cls, k1, k2)
