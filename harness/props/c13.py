"""C13 — State grids are well formed and refinement nests them (DESIGN.md §4 C13)."""
from __future__ import annotations

import copy
import math
import numpy as np

from .. import zoo
from ..common import w, wl, wll, rd, rdl, rdll, close, fr

RULE = ("structured: 4 model families x parameter draws (all CGMY branches) x 6 grid constructors x h x 0..k refinements "
        "(+ dims 1..3 for the model-free constructors); synthetic: random dyadic axes refined by M and by CTMCGrid.refine. "
        "non-trivial = grid built successfully with >= 5 points per axis; distinct = distinct (constructor, args, model, k)")
NOT_PROVED = ["root-searched truncation bounds and probability-step axes (brentq) are compared/oracle-checked only",
              "np.linspace / np.geomspace spacing is compared with the closed form, not proved"]
ASSUMPTIONS = ["float midpoints 0.5*(a+b) are compared with the exact rational midpoint to 2^-40 relative"]
TRUSTED = ["scipy.optimize.root_scalar, numpy.linspace/geomspace/insert"]


def snapshot(g):
    return dict(axes=zoo.axis_list(g), h=float(g.h), origin=[int(c) for c in g.origin_coordinate],
                trunc=[(float(a), float(b)) for a, b in g.truncations])


def wellformed_oracle(ctx, probe, desc, g, cls):
    """the property on the implementation: strictly increasing, 0 at origin with -h / +h neighbours, ends = truncations"""
    s = snapshot(g)
    for k, ax in enumerate(s["axes"]):
        o = s["origin"][k]
        bad = None
        if not all(a < b for a, b in zip(ax, ax[1:])):
            bad = "not strictly increasing"
        elif not (0 < o < len(ax) - 1) or ax[o] != 0.0:
            bad = "origin index does not hold 0 strictly inside the axis"
        elif not (math.isclose(ax[o - 1], -s["h"], rel_tol=1e-12) and math.isclose(ax[o + 1], s["h"], rel_tol=1e-12)):
            bad = f"neighbours of 0 are {ax[o-1]}, {ax[o+1]}, expected -h, +h with h={s['h']}"
        elif (ax[0], ax[-1]) != s["trunc"][k]:
            bad = f"end points {ax[0]}, {ax[-1]} differ from reported truncations {s['trunc'][k]}"
        if bad:
            ctx.fail("oracle", probe, desc, {"axis": k, "what": bad, "axis_values": ax[:12]}, cls=cls)
            return False
    return True


def refine_probe(ctx, desc, g, kmax, cls):
    """C + S for refine(): k successive refinements of an already built grid"""
    arithmetic = not isinstance(g, zoo.CTMCGridProbabilityStep)
    before = snapshot(g)
    base = before
    for k in range(1, kmax + 1):
        # expected inserted points from the grid's own cell-boundary function, *before* refine() mutates h
        mids = [[g.middle(float(a), float(b)) for a, b in zip(ax, ax[1:])] for ax in before["axes"]]
        g.refine()
        after = snapshot(g)
        d = dict(desc, k=k)
        ctx.count("c13.refine", d, nontrivial=min(len(a) for a in before["axes"]) >= 5,
                  branch="arith" if arithmetic else "probstep")
        # ---- S: nesting on the implementation
        for i, (a0, a1) in enumerate(zip(before["axes"], after["axes"])):
            what = None
            if len(a1) != 2 * len(a0) - 1:
                what = f"length {len(a1)} != 2*{len(a0)}-1"
            elif a1[0::2] != a0:
                what = "an old state is not kept at twice its old index"
            elif any(not (lo < m < hi) for lo, m, hi in zip(a0, a1[1::2], a0[1:])):
                what = "an inserted state is not strictly inside its old gap"
            elif any(m != mm for m, mm in zip(a1[1::2], mids[i])):
                what = "an inserted state is not the grid's own cell boundary middle(x_k, x_k+1)"
            if what:
                ctx.fail("oracle", "c13.refine.nesting", d, {"axis": i, "what": what, "before": a0[:9], "after": a1[:17]}, cls=cls)
                return
        if after["h"] != before["h"] / 2 or after["origin"] != [2 * o for o in before["origin"]] \
                or after["trunc"] != before["trunc"]:
            ctx.fail("oracle", "c13.refine.nesting", d, {"what": "h/origin/truncations", "before": {x: before[x] for x in ("h", "origin", "trunc")},
                                                      "after": {x: after[x] for x in ("h", "origin", "trunc")}}, cls=cls)
            return
        if not wellformed_oracle(ctx, "c13.refine.wellformed", d, g, cls):
            return
        # ---- C: against M (arithmetic cell boundary only; the probability median is a root search)
        if arithmetic:
            out = ctx.lean(f"grid {wll(base['axes'])} {w(base['h'])} {base['origin'][0]} {k}").split(" ")
            m_axes, m_h, m_o = rdll(out[0]), rd(out[1]), int(out[2])
            m_lo, m_hi = rdl(out[3]), rdl(out[4])
            ok = (len(m_axes) == len(after["axes"]) and all(len(x) == len(y) for x, y in zip(m_axes, after["axes"]))
                  and all(close(p, l, scale=max(abs(fr(p)), abs(l), fr(after["h"]))) for x, y in zip(after["axes"], m_axes) for p, l in zip(x, y))
                  and fr(after["h"]) == m_h and after["origin"] == [m_o] * len(after["origin"])
                  and all(fr(t[0]) == a and fr(t[1]) == b for t, a, b in zip(after["trunc"], m_lo, m_hi)))
            if not ok:
                ctx.fail("corr", "c13.refine.model", d, {"name": "Drivers/C13 grid vs CTMCGrid.refine", "impl": after,
                                                        "model": out}, cls=cls)
                return
        before = after


def build(ctx, kind, model, h, cls, desc, **kw):
    try:
        g, gd = zoo.make_grid(kind, model, h, **kw)
    except Exception as e:  # constructor rejected / failed on these arguments
        ctx.branches[f"c13.ctor_raises:{kind}:{type(e).__name__}"] += 1
        return None, None
    return g, dict(desc, **gd)


def tail_probability_oracle(ctx, d, g, model, tp, cls):
    """promised tail probability of the root-searched truncation bounds (uniform / geometric)"""
    nu = model.levy_triplet.nu
    h = d["h"]
    l, r = g.truncations[0]
    right = nu.integrate(h / 2, r) / nu.integrate(h / 2, np.inf)
    left = nu.integrate(l, -h / 2) / nu.integrate(-np.inf, -h / 2)
    if abs(right - tp) > 1e-8 or abs(left - tp) > 1e-8:
        ctx.fail("oracle", "c13.tail_probability", d, {"left": left, "right": right, "promised": tp, "l": l, "r": r}, cls=cls)


def nd_tail_probability_oracle(ctx, d, g, margins, h, tp, cls):
    """multi-dimensional grids share one pair of bounds = (smallest left, largest right) root-searched bound over the
    margins: every margin keeps at least the promised share of its tail mass, and on each side one margin attains it"""
    l, r = g.truncations[0]
    rights, lefts = [], []
    for m in margins:
        nu = m.levy_triplet.nu
        rights.append(nu.integrate(h / 2, r) / nu.integrate(h / 2, np.inf))
        lefts.append(nu.integrate(l, -h / 2) / nu.integrate(-np.inf, -h / 2))
    bad = (min(rights) < tp - 1e-8 or min(lefts) < tp - 1e-8 or abs(min(rights) - tp) > 1e-8 or abs(min(lefts) - tp) > 1e-8)
    if bad:
        ctx.fail("oracle", "c13.tail_probability", d, {"what": "shared truncation bounds do not keep the promised tail probability for every margin",
                                                      "left": lefts, "right": rights, "promised": tp, "l": l, "r": r}, cls=cls)


def nd_grid_probe(ctx, rng, kmax):
    """uniform / geometric grids built from copula models with unequal margins (dimension 2, 3)"""
    pool = [("hem", {}), ("hem", dict(sigma=0.05, p=0.6, eta1=30.0, eta2=35.0, intensity=3.0)), ("merton", {}),
            ("vg", {}), ("cgmy", {}), ("hem", dict(sigma=0.1, p=0.4, eta1=12.0, eta2=14.0, intensity=2.0))]
    dim = rng.choice([2, 2, 3])
    picks = [rng.choice(pool) for _ in range(dim)]
    margins = [zoo.make_levy(f, p) for f, p in picks]
    cm_ = zoo.make_copula_model(margins, zoo.make_copula(rng.choice(zoo.COPULAS)))
    kind = rng.choice(["uniform", "geometric"])
    h = rng.choice([0.05, 0.02])
    tp = rng.choice([0.999, 0.99999])
    d = dict(kind=kind + "_nd", dim=dim, h=h, tp=tp, margins=[[f, p] for f, p in picks])
    cls = dict(kind=kind + "_nd")
    try:
        g, _ = zoo.make_grid(kind, cm_, h, truncation_probability=tp, nb=rng.choice([3, 5]))
    except Exception as e:
        ctx.branches[f"c13.ctor_raises:{kind}_nd:{type(e).__name__}"] += 1
        return
    ctx.count("c13.constructor", d, branch=kind + "_nd")
    l0, r0 = g.truncations[0]
    o0 = int(list(g.origin_coordinate)[0])
    cls["side_points_le_1"] = bool(min(o0, len(g.axes[0]) - 1 - o0) <= 1)
    cls["trunc_inside_h"] = bool(abs(l0) <= h or r0 <= h)
    cls["kind"] = kind                      # the 1-d known findings of these constructors apply to the shared axis as well
    nd_tail_probability_oracle(ctx, d, g, margins, h, tp, cls)
    if wellformed_oracle(ctx, "c13.constructor.wellformed", d, g, cls) and len(g.axes[0]) <= 400:
        refine_probe(ctx, d, g, 1, cls)


def run(ctx):
    rng = ctx.rng
    for _ in range(ctx.n(6, 40)):
        nd_grid_probe(ctx, rng, 1)
    nmodels = ctx.n(10, 60)
    kmax = ctx.n(2, 4)
    hs = [0.2, 0.1, 0.05, 0.02]
    for fam, params in zoo.model_stream(rng, nmodels):
        model = zoo.make_levy(fam, params)
        for kind in zoo.GRID_KINDS:
            h = rng.choice(hs)
            kw = {}
            dim = 1
            if kind in ("uniform", "geometric"):
                kw["truncation_probability"] = rng.choice([0.99, 0.999, 0.99999])
            if kind in ("geometric", "geometric_bounds"):
                kw["nb"] = rng.choice([2, 3, 5, 8])
            if kind == "geometric_bounds":
                kw["truncations"] = (-rng.choice([0.5, 1.0, 2.0]), rng.choice([0.75, 1.5, 3.0]))
                dim = rng.choice([1, 2, 3])
            if kind == "fixed":
                kw["nb_of_points"] = rng.choice([3, 5, 8, 9, 21])
                dim = rng.choice([1, 2, 3])
            if kind == "probstep":
                kw["minimum_probability_step"] = rng.choice([0.05, 0.1, 0.2])
                if h < 0.05:
                    h = 0.05
            if kind == "credit":
                kw["level_a"] = -rng.choice([0.25, 0.3, 0.5])
            desc = dict(family=fam, params=params)
            cls = dict(kind=kind, family=fam)
            g, d = build(ctx, kind, model, h, cls, desc, dimension=dim, **kw)
            if g is None:
                continue
            o0 = int(list(g.origin_coordinate)[0])
            l0, r0 = g.truncations[0]
            cls["side_points_le_1"] = bool(min(o0, len(g.axes[0]) - 1 - o0) <= 1)
            cls["trunc_inside_h"] = bool(abs(l0) <= h or r0 <= h)
            ctx.count("c13.constructor", d, nontrivial=len(g.axes[0]) >= 5, branch=kind)
            if not wellformed_oracle(ctx, "c13.constructor.wellformed", d, g, cls):
                continue
            if kind in ("uniform", "geometric"):
                tail_probability_oracle(ctx, d, g, model, kw["truncation_probability"], cls)
            if kind == "fixed":
                out = ctx.lean(f"fixed {w(h)} {kw['nb_of_points']} {dim}").split(" ")
                m_axes, m_o = rdll(out[0]), int(out[1])
                s = snapshot(g)
                if not (s["origin"] == [m_o] * dim and len(m_axes) == dim and
                        all(len(a) == len(b) and all(close(p, l) for p, l in zip(a, b)) for a, b in zip(s["axes"], m_axes))):
                    ctx.fail("corr", "c13.fixed.model", d, {"name": "Drivers/C13 fixed", "impl": s, "model": out}, cls=cls)
            if kind == "credit":
                s = snapshot(g)
                l, r = s["trunc"][0]
                out = rdl(ctx.lean(f"credit {w(l)} {w(kw['level_a'])} {w(h)} {w(r)} 0"))
                if not (len(out) == len(s["axes"][0]) and all(close(p, q) for p, q in zip(s["axes"][0], out))):
                    ctx.fail("corr", "c13.credit.model", d, {"name": "Drivers/C13 credit", "impl": s, "model": [str(x) for x in out]}, cls=cls)
                # threshold sits exactly on the cell boundary between points 1 and 2
                a = kw["level_a"]
                if not math.isclose(g.middle(float(g.axes[0][1]), float(g.axes[0][2])), a, rel_tol=1e-15):
                    ctx.fail("oracle", "c13.credit.threshold", d, {"middle": g.middle(float(g.axes[0][1]), float(g.axes[0][2])), "a": a}, cls=cls)
            nref = kmax if len(g.axes[0]) <= 400 else 1
            if kind == "probstep":
                nref = min(nref, 2)
            refine_probe(ctx, d, g, nref, cls)

    # copula credit grids (n-d, symmetric and not)
    for it in range(ctx.n(5, 14)):
        dim = rng.choice([2, 3])
        margins = [zoo.make_levy(f, p) for f, p in [(rng.choice(["hem", "merton", "vg", "cgmy"]), {}) for _ in range(dim)]]
        cm_ = zoo.make_copula_model(margins, zoo.make_copula(rng.choice(zoo.COPULAS)))
        h = rng.choice([0.1, 0.05])
        sym = [True, False][it % 2]
        a = [-rng.choice([0.25, 0.3, 0.4]) for _ in range(dim)]
        if it % 3 != 2 and len(set(a)) == 1:      # most cases: one threshold per margin, not all equal
            a[-1] = -rng.choice([x for x in (0.25, 0.3, 0.4) if x != -a[0]])
        d = dict(kind="credit_nd", dim=dim, h=h, a=a, sym=sym, margins=[type(m).__name__ for m in margins])
        cls = dict(kind="credit_nd", sym=sym)
        try:
            g = zoo.CTMCCredit(h=h, level_a=a, model=cm_, symmetric_grid=sym)
        except Exception as e:
            ctx.branches[f"c13.ctor_raises:credit_nd:{type(e).__name__}"] += 1
            continue
        ctx.count("c13.constructor", d, branch="credit_nd")
        l_, r_ = g.truncations[0]
        cls["mirror_exceeds_r"] = bool(sym and any(-ai + min(abs(l_ - ai) / 2, abs(ai + h) / 2) >= r_ for ai in a))
        nd_tail_probability_oracle(ctx, d, g, margins, h, 0.99999, cls)
        if wellformed_oracle(ctx, "c13.constructor.wellformed", d, g, cls):
            s = snapshot(g)
            for i, ax in enumerate(s["axes"]):
                out = rdl(ctx.lean(f"credit {w(s['trunc'][i][0])} {w(a[i])} {w(h)} {w(s['trunc'][i][1])} {1 if sym else 0}"))
                if not (len(out) == len(ax) and all(close(p, q) for p, q in zip(ax, out))):
                    ctx.fail("corr", "c13.credit.model", d, {"name": "Drivers/C13 credit", "impl": ax, "model": [str(x) for x in out]}, cls=cls)
            refine_probe(ctx, d, g, 2, cls)

    # synthetic stream: arbitrary dyadic axes through CTMCGrid.refine vs M (exact midpoints)
    for _ in range(ctx.n(60, 600)):
        n_left, n_right = rng.randint(1, 6), rng.randint(1, 6)
        h = rng.choice([1.0, 0.5, 0.25, 0.125])
        steps = lambda n: np.cumsum([h] + [rng.randint(1, 64) / 64 for _ in range(n - 1)])
        left = [-x for x in steps(n_left)][::-1]
        right = list(steps(n_right))
        axis = np.array(left + [0.0] + right)
        dim = rng.choice([1, 1, 2, 3])
        shared = rng.random() < 0.5
        axes = [axis] * dim if shared else [axis.copy() for _ in range(dim)]
        d = dict(kind="synthetic", axis=[float(x) for x in axis], h=h, origin=n_left, dim=dim, shared=shared)
        if dim > 1 and not shared and rng.random() < 0.6:
            # per-axis storage with axes that really differ: same length, same end points, same -h/0/+h, other interior
            # points (what CTMCCredit builds for unequal thresholds) - each axis must be refined on its own
            movable = [i for i in range(1, len(axis) - 1) if abs(i - n_left) > 1]
            if movable:
                for k in range(1, dim):
                    i = rng.choice(movable)
                    lo_, hi_ = axes[k][i - 1], axes[k][i + 1]
                    cand = [lo_ + (hi_ - lo_) * q for q in (0.25, 0.375, 0.625, 0.75)]
                    cand = [c for c in cand if c != axes[k][i]]
                    axes[k][i] = rng.choice(cand)
                d["axes"] = [[float(x) for x in a] for a in axes]
        g = zoo.CTMCGrid(h=h, origin_coordinate=n_left, axes=axes)
        refine_probe(ctx, d, g, rng.randint(1, kmax + 1), dict(kind="synthetic"))


def replay(ctx, rec):
    """re-run the probe of a replay / corpus record"""
    d = rec["input"]
    cls = rec.get("cls", {})
    if d.get("kind") == "synthetic":
        axis = np.array(d["axis"])
        axes = [axis] * d["dim"] if d["shared"] else [axis.copy() for _ in range(d["dim"])]
        if "axes" in d:
            axes = [np.array(a) for a in d["axes"]]
        g = zoo.CTMCGrid(h=d["h"], origin_coordinate=d["origin"], axes=axes)
        refine_probe(ctx, {k: v for k, v in d.items() if k != "k"}, g, d.get("k", 2), cls)
        return
    if "family" in d:
        model = zoo.make_levy(d["family"], d["params"])
        kw = {}
        for src, dst in (("tp", "truncation_probability"), ("nb", "nb" if d["kind"] != "fixed" else "nb_of_points"),
                         ("tr", "truncations"), ("mps", "minimum_probability_step"), ("a", "level_a"), ("sym", "symmetric_grid")):
            if src in d:
                kw[dst] = tuple(d[src]) if src == "tr" else d[src]
        g, gd = zoo.make_grid(d["kind"], model, d["h"], dimension=d.get("dim", 1), **kw)
        if wellformed_oracle(ctx, "c13.constructor.wellformed", d, g, cls):
            refine_probe(ctx, {k: v for k, v in d.items() if k != "k"}, g, d.get("k", 2), cls)
        return
    if d.get("kind") == "credit_nd":
        fams = {"HEMModel": "hem", "MertonModel": "merton", "VarianceGammaModel": "vg", "CGMYModel": "cgmy"}
        margins = [zoo.make_levy(fams[m], {}) for m in d["margins"]]
        for cop in zoo.COPULAS:          # the axes do not depend on the copula: rebuild with each kind
            cm_ = zoo.make_copula_model(margins, zoo.make_copula(cop))
            g = zoo.CTMCCredit(h=d["h"], level_a=list(d["a"]), model=cm_, symmetric_grid=d["sym"])
            if wellformed_oracle(ctx, "c13.constructor.wellformed", d, g, cls):
                refine_probe(ctx, {k: v for k, v in d.items() if k != "k"}, g, d.get("k", 2), cls)
