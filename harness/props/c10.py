"""C10 — Exponent, triplet, cumulants and simulation drifts describe one same process (DESIGN.md §4 C10).

C (correspondence): random walks on `LevyTriplet.set_representation` against M's `setRep` (RpylibModel/Model/Triplet.lean,
Drivers/C10.lean) fed with the measure's own `integrate_against_x` values; `omega`, `drift()`, the direct-simulation drifts
of BS / Merton / HEM, the constructed triplet drifts and the Markov-chain drift against M's definitions.
S (oracle, independent of M and of the closed forms): `levy_exponent(u)` against the Lévy–Khintchine integral obtained by
mpmath quadrature of the model's own density, in every admissible representation (the drift of the representation comes
from `set_representation`, the integrals from the quadrature); cumulants 1, 2, 4 against derivatives of the exponent at 0
(Cauchy integral on a circle); `log_characteristic_function(t, -i)` = log forward; direct-simulation drift + sigma^2/2 +
integral (e^x - 1) nu(dx) = r - d; Markov-chain drift + sum x_k rate_k = drift() + mean of the truncated process; round trips.
C + S through theorems (closed_form_probe): the coded exponents and cumulants of HEM / Merton / Black-Scholes against M's exact rational
terms, which Proofs/C10.lean proves to be the Lévy–Khintchine integral of the density resp. the derivatives of the cumulant generating
exponent.  Edge-of-constraint parameters of every family through every probe (edge_stream / edge_probe); parameters NEXT TO (not on)
every special value at which the families' formulas switch branch or a constraint ends (near_stream: CGMY y = 1 +- / 0 +- / -1 +- offset,
offset from 1e-3 down to 1e-9, g != m; p, intensity, sigma, mu_j, theta next to 0 / 1) through every probe: they are ordinary members of
the family, the special-case formulas are not their limit.
S over construction routes and orders (construction_probe): a plain Lévy model from the factory / the class / a re-initialised parameter
object / inside a family exponential model, re-expressed in other representations and only THEN wrapped with the generic public constructor
ExponentialOfLevyModel(spot, r, d, levy_model), converted further, wrapped again under another market; the family class built from the SAME
parameter object; after every step every live exponential model against the martingale statements and against a freshly built model.
S over use-then-inspect histories (aliasing between a model object and the library's consumers of models): half of the model objects that
ANY probe above judges are first handed to consumers (params marker "__used__" -> make -> apply_uses: MarkovChainProcess on small explicit
boxes and on ordinary grids, the grid constructors, CouplingMarkovChain + next_level, MarkovChainLevyCopula with the object as a margin,
MarkovChainSDE with the object as the driver, LevyProcess, COS / FFT pricers, run_default_calibration, the generic ExponentialOfLevyModel
wrapper and a consumer of the wrapper) and only then judged by the same oracles (the exponent against the Lévy–Khintchine integral of the
object's OWN current drift / sigma / density / representation, cumulants, forward, drifts, chain); use_probe: one object, consumer after
consumer, after each one compared with a never-used twin (density, drift in a common representation, exponent, cumulants, omega, drifts,
cf), then a second chain built from the used object against the chain of the twin; construction plans carry a use step as well.
"""
from __future__ import annotations

import copy
import math
import warnings
from fractions import Fraction

import mpmath as mp
import numpy as np

from .. import zoo
from ..common import w, wl, rd, rdl, close, fr, Infra

from rpylib.distribution.sampling import SamplingMethod
from rpylib.distribution.samplingfactory import create_q_vector
from rpylib.model.levymodel.exponentialoflevymodel import ExponentialOfLevyModel
from rpylib.model.levymodel.levymodel import LevyRepresentation as R, TruncatedLevyMeasure
from rpylib.model.utils import models_description
from rpylib.process.levyprocess import LevyProcess
from rpylib.process.markovchain.markovchain import MarkovChainProcess, compute_mu_h
from rpylib.product.payoff import Vanilla, PayoffType
from rpylib.product.product import Product
from rpylib.product.underlying import Spot

RULE = ("models: defaults of HEM / Merton / VG / CGMY / Black-Scholes, every CGMY activity branch (y<0, y=0, 0<y<1, y=1, 1<y<2) and "
        "random draws from the boxes of harness/zoo.py, each both freshly constructed and rebuilt after a parameter history (one primary "
        "parameter edited, initialisation(), edited back, initialisation(): the calibration idiom); edge-of-constraint models through every "
        "probe (HEM p = 1, intensity = 0, sigma = 0, eta1 in {1.0625, 1.25, 1.5}; Merton mu_j = 0, intensity = 0, sigma = 0, sigma_j = 2^-6; "
        "VG theta = 0, nu in {2^-7, 4}; Black-Scholes sigma = 0; CGMY g = 0 / m = 0 with 1 < y < 2 on the half plane where the exponent "
        "exists; see edge_stream for what is not generated and why); models next to a special value without being on it (near_stream: CGMY "
        "y = 1 +- off and y = 0 +- off with one off in {1e-3, 1e-5} and one in {4e-6, 1e-7, 1e-9} per side, y = -1 +- off, g != m; three of HEM p = 0 + / "
        "1 -, intensity = 0 +, sigma = 0 +, Merton mu_j / intensity / sigma = 0 +, VG theta = 0 +-, Black-Scholes sigma = 0 + per run; thorough: all "
        "points x sides x offsets) through every probe, classified by EXACT comparison (y = 1 - 1e-9 is class 0<y<1, not y=1); exponent: complex u on a grid with |Im u| <= 1 (inside the strip of "
        "analyticity), every representation admissible for the measure (ZERO only with finite variation); closed forms of HEM / Merton / "
        "Black-Scholes (incl. a pure diffusion with non-zero drift): dyadic real s in (-eta2, eta1) (HEM; two of them within 0.5 of a pole) "
        "resp. (-12, 12), dyadic complex w = u + i v with |u| <= 10 and -v in the strip, cumulants 1, 2, 4, 6 (Black-Scholes 1..6) at "
        "t in {1, 2.5}, all compared with M's exact rational terms; walks: 1..12 random "
        "representation changes on the model's measure and on its truncation to a grid box; exponential models: spot, r, d draws; "
        "chains: uniform / fixed-size grids with h in {0.1, 0.05, 0.02}; construction routes: for every model of the stream 2 (thorough 5) plans = "
        "(source of the plain Lévy model in {create_levy_model factory, class(parameters=obj), re-initialised parameter object, levy_model of a "
        "family exponential model}; 0..3 representation changes BEFORE wrapping, optionally with evaluations of the exponent / cf / cumulant "
        "in between; generic wrapper ExponentialOfLevyModel(spot, r, d, levy_model) + the family class on the same parameter object / the "
        "owning or re-initialised family model; 0..2 changes AFTER wrapping; optional second generic wrapper of the same Lévy model under another "
        "(spot, r, d) after a random step), all live exponential models re-examined after every step; every other model one Markov chain on "
        "the generic wrapper as the walk left it. non-trivial = the quadrature converged (estimated error "
        "<= 1e-12) / the walk changes representation at least once / the chain has >= 5 states / the closed-form value is not "
        "identically 0 / the plan changes representation at least once; distinct = distinct (family, parameters, u | s | w | walk | grid | plan). "
        "use-then-inspect histories: every model of the stream / closed-form list / edge and near streams and its re-initialised variant reaches ALL "
        "probes, with probability 1/2, as an object that was first handed to 1..3 library consumers of models (draw_uses: first one of "
        "{MarkovChainProcess + initialisation (probability 1/2; method INVERSION / ALIAS / BINARYSEARCHTREEADAPTED1D), CouplingMarkovChain + 0..2 "
        "next_level, a grid constructor, LevyProcess, MarkovChainLevyCopula with the object as first / second margin (finite-variation margins only), "
        "generic wrapper + {nothing, chain, COS, LevyProcess} on the wrapper}, then any of those or COS / FFT / run_default_calibration / the object as "
        "driver of a forward market model in MarkovChainSDE / read-only queries; grids: uniform h in {0.1, 0.05, 0.02} built from the model, fixed boxes "
        "of 5..41 points with h in {0.01 .. 0.1}, geometric, probability-step, credit); use_probe: per model 2 (thorough 3) of {plain Lévy model, "
        "family exponential model, generic wrapper}, 1..3 consumers one after the other with a twin comparison after each, then a second chain on a "
        "uniform (h in {0.1, 0.05, 0.01}) or fixed grid built from the used object; construction plans: a use step at {none, start, wrapped, post}; "
        "non-trivial = at least one consumer accepted the object")
NOT_PROVED = [
    "VG and CGMY: levy_exponent(u) = Lévy–Khintchine integral of the density is compared with mpmath quadrature (25 digits) of the model's own "
    "density, not proved (HEM, Merton, Black-Scholes: proved, hem_levy_exponent_is_LK / merton_levy_exponent_is_LK, every complex argument "
    "in the strip, declared ZERO representation; the quadrature comparison is kept for them as an independent oracle)",
    "VG and CGMY: the stated cumulants are the derivatives of the exponent at 0: compared with Cauchy-integral derivatives (64 points on "
    "|s| = rho), not proved (HEM, Merton, Black-Scholes: cumulants 1, 2, 4, 6 proved to be the iterated derivatives at 0 of "
    "s -> a s + sigma^2 s^2/2 + integral (e^{s x} - 1) nu(dx); all orders in closed form)",
    "for HEM / Merton the exponent in the NON-declared representations (CENTER, ONEONE, TILDE) as an integral with that cut-off is not proved: "
    "only the drift book-keeping (exponent_rep_invariant / exponent_walk_invariant over abstract first-moment integrals) is; compared by quadrature",
    "the float evaluation of the closed forms is compared with M's exact rational terms at 2^-40 relative to a cancellation-aware scale, "
    "for the generated arguments only; exp / cos / sin of Merton's rational argument are evaluated by mpmath (40 digits)",
    "the measure's first-moment integrals m1(-1,1), m1(tails) are abstract numbers of M (C09's subject); float rounding of the conversions is compared at 2^-40",
    "the Markov-chain route is proved as algebra (ctmc_bookkeeping, ctmc_route_martingale over abstract integrals); that sum x_k rate_k is the chain's "
    "mean jump is C01 / C04's subject",
    "construction routes / orders (generic wrapper after a representation change, shared Lévy model or parameter object, second wrapper): not "
    "modelled in M (M's omega takes the ORIGINAL drift; that the wrapper reads the original and not the current triplet drift is only compared: "
    "cf(-i) = forward, drift() = r - d - psi(-i) against a fresh model and against the quadrature of the current triplet, omega / cf against the "
    "freshly built family model, chain drift against the martingale drift of the fresh model)",
    "use-then-inspect histories are sampled (1..3 consumers from the list in RULE, with small budgets: 2 paths, <= 2 levels, COS n <= 1000), not "
    "proved: M has no notion of object identity; a consumer outside the list (Monte-Carlo engines, the SDE couplings, plotting helpers), a Lévy copula "
    "chain on margins of infinite variation (the library starts worker processes there) and mutation visible only after more than one chain are "
    "not reached; a consumer that raises is only counted (coverage c10.use:<consumer>:raises:*), whether it should accept the object is not C10's subject",
    "parameters next to the special values (near_stream) are sampled (fixed offsets 1e-3 .. 1e-9 on each admissible side), not covered: a "
    "special-case band narrower than 1e-9 is not seen, nor are CGMY y -> 2, g, m -> 0 / 1, HEM eta1 -> 1 closer than edge_stream goes "
    "(reasons at NEAR_POINTS); arguments u next to 0 are not generated (2e-10 absolute is vacuous there; the derivatives at 0 are the "
    "cumulant probe's subject)",
    "Merton's first / second moment of the density = first / second derivative of the jump exponent (merton_moment_eq_deriv) is proved under C09's "
    "hypotheses on erf (derivative 2/sqrt(pi) e^{-x^2}, limits +-1); HEM's (hem_moment_eq_deriv) unconditionally",
]
ASSUMPTIONS = [
    "tolerances measured over seeds 0..5 with a 10x margin: exponent vs quadrature 2e-10*(1+|psi|+|u||drift terms|), cumulants 1e-9 relative to "
    "the scale of the terms, forward 1e-11 relative, drifts 1e-10, chain mean 1e-8; closed forms vs M 2^-40 (observed <= 4e-4 of it)",
    "ZERO representation is only exercised for finite-variation measures (m1(-1,1) is infinite otherwise)",
    "float evaluation of the closed forms next to removable singularities (fp_allowance): the comparison with the quadrature concedes "
    "16 * 2^-52 * (sum of the magnitudes of the terms) of CGMY's general formula c Gamma(-y) [...] and of the closed-form first moments "
    "c (...) / (y - 1) behind set_representation: ~1e-13 for ordinary y, 2e-8 at |y - 1| = 4e-6, 3e-4 at |y - 1| = 1e-9, 7e-6 at y = 1e-9 "
    "(measured error of the unchanged tree <= 4% of it: 7e-10, 2e-6, 2e-7); a special-case formula applied next to its special value is "
    "off by c |u| |log(m/g)| resp. c |u| |1/m - 1/g| (~0.01..3), three orders of magnitude above the allowance at 1e-9 and more above it "
    "further away; closer than ~1e-11 to a pole of Gamma(-y) the comparison is blind",
    "construction routes: drift() / omega against a freshly built model 1e-12 * (1 + |psi(-i)| + |a| + |m1(-1,1)| + |m1(tails)|) (observed: equal), "
    "against the quadrature of the current triplet 2e-10 of the same scale, cf 1e-11 relative; the direct-simulation statement is demanded of "
    "every exponential model LevyProcess can simulate directly (the generic wrapper fails it on the unchanged tree: known finding "
    "C10-generic-wrapper-direct-drift, suppressed only while process_drift() is exactly the current triplet drift)",
    "use-then-inspect: 'consumers leave the caller's object describing the same process' is read as: sigma, the density (declared support, values at "
    "8 points, finite-variation flag), the triplet drift re-expressed on a copy in the CENTER and the canonical representation, _original_drift, "
    "exponent at 3 arguments, cumulants 1, 2, 4, omega, drift(), process_drift(), cf of the log-spot equal to those of a never-used twin at 1e-12 "
    "relative (observed: identical); a consumer that only re-expressed the triplet consistently in another representation would pass; the chain of a "
    "used object (grid, drift, diffusion coefficient, rates) equals the chain of the twin at 1e-12 relative; quadratures of a density that declares a "
    "bounded support break at its ends (only a mutated object has one)",
    "the theorems speak about hemDensity / mertonDensity of Lemmas/C09Hem.lean / C09Special.lean, the transcriptions of _HEMLevyMeasure.__call__ "
    "(hem.py:55-62) and _MertonLevyMeasure.__call__ (merton.py:44-47) that C09 compares with the code; integrals are Bochner integrals over R "
    "(the HEM density is 0 at 0, so R and R \\ {0} agree); hypotheses eta1, eta2 > 0, sigma_j > 0 are the constructors' constraints",
]
TRUSTED = ["mpmath.quad (tanh-sinh) with its own error estimate", "the model's density __call__ as the definition of nu",
           "for a CGMY activity index within 2^-6 of 1: the 25-digit transcription c e^{-m|x|} / |x|^(1+y) of that density, used only after it "
           "agreed with __call__ at 2^-43 relative on six points (hp_density)",
           "mpmath.expint (generalised exponential integral) for the analytic tail of an un-tempered CGMY side",
           "mpmath exp / cos / sin at 40 digits on M's exact rational argument (Merton closed form)"]

warnings.filterwarnings("ignore")
mp.mp.dps = 25
REPS = {1: R.ZERO, 2: R.CENTER, 3: R.ONEONE, 4: R.TILDE}
U_GRID = [0.7, -1.5 + 0.5j, -1j, 3.0 - 0.8j, 0.25 + 0.9j, -6.0]
QUAD_OK = 1e-12
PRIMS = {"hem": ["sigma", "p", "eta1", "eta2", "intensity"], "merton": ["sigma", "sigma_j", "mu_j", "intensity"],
         "vg": ["sigma", "nu", "theta"], "cgmy": ["c", "g", "m", "y"]}


def track(ctx, name, diff, tol):
    """largest observed discrepancy / tolerance per oracle (reported in the evidence notes; must stay below 0.1)"""
    mg = ctx.__dict__.setdefault("margins", {})
    if tol > 0 and diff == diff:
        mg[name] = max(mg.get(name, 0.0), float(diff) / float(tol))


def ybranch(fam, params):
    if fam != "cgmy":
        return None
    y = params.get("y", 0.5)
    return "y<0" if y < 0 else "y=0" if y == 0 else "0<y<1" if y < 1 else "y=1" if y == 1 else "1<y<2"


USED = "__used__"         # marker inside a params dict: the consumers the model object is handed to before it is judged


def plain(params):
    """the params without the use-history marker (for look-ups on a throw-away object: parameters, native representation, ...)"""
    return {k: v for k, v in params.items() if k != USED}


def make(fam, params, exp=False, **kw):
    """params may carry the marker "__reinit__": the model is then rebuilt the way calibration rebuilds it (parameter object
    edited and re-initialised, zoo.reinitialised) - a second construction history of the same model; and the marker "__used__"
    = [consumer spec, ...] (draw_uses): the constructed object is first handed to these library consumers of models
    (apply_uses) and only then returned to the probe that judges it - consumers must leave the caller's object describing the
    same process"""
    uses = params.get(USED)
    params = plain(params)
    if fam == "bs":
        em = zoo.make_exp("bs", params, **kw)
        m = em if exp else em.levy_model
    else:
        m = zoo.make_exp(fam, params, **kw) if exp else zoo.make_levy(fam, params)
    if uses:
        apply_uses(m, uses)
    return m


# ---------------------------------------------------------------------- use-then-inspect histories: the consumers of models
USE_LOG = {}              # "kind:outcome" -> count, flushed into ctx.branches by run()
_USE_PRODUCT = Product(payoff_underlying=Spot(), payoff=Vanilla(strike=100.0, payoff_type=PayoffType.CALL), maturity=1.0)
GRID_SPECS = [["uniform", 0.1, 0.99], ["uniform", 0.05, 0.999], ["uniform", 0.02, 0.99],            # ordinary grids (built FROM the model)
              ["fixed", 0.05, 5], ["fixed", 0.01, 41], ["fixed", 0.1, 9], ["fixed", 0.02, 21],       # explicitly small boxes
              ["geometric", 0.1, 4], ["probstep", 0.1, 0.05], ["credit", 0.1, -0.3]]


def _use_grid(model, g, dimension=1):
    kind, h, x = g
    kw = {"uniform": dict(truncation_probability=x), "fixed": dict(nb_of_points=x, dimension=dimension), "geometric": dict(nb=x),
          "probstep": dict(minimum_probability_step=x, dimension=dimension), "credit": dict(level_a=x)}[kind]
    return zoo.make_grid(kind, model, h, **kw)[0]


def consume(model, use):
    """hand `model` to one public consumer of models, the way user code does, and throw the consumer away.  use (JSON):
    ["grid", g] a grid constructor;  ["chain", g, method] MarkovChainProcess + initialisation (what every CTMC pricing starts with);
    ["coupling", g, levels] CouplingMarkovChain + initialisation + pre_computation + `levels` next_level calls (the multilevel scheme);
    ["copula_chain", h, nb, position] the object as one margin of a LevyCopulaModel handed to MarkovChainLevyCopula on a 2-d box;
    ["sde", g] the object as the driver of a Lévy forward market model handed to MarkovChainSDE (plain Lévy models);
    ["levyprocess"] LevyProcess + initialisation + deterministic path + one direct path where the family can be simulated directly;
    ["cos", n] / ["fft"] the Fourier pricers, ["calibration", bs_sigma] run_default_calibration (exponential models);
    ["evaluate"] the object's own read-only queries;
    ["wrapper", spot, r, d, inner] the generic ExponentialOfLevyModel around the object's Lévy model, then `inner` on the wrapper.
    Returns False when the consumer does not apply to this kind of object."""
    kind = use[0]
    is_exp = isinstance(model, ExponentialOfLevyModel)
    with np.errstate(all="ignore"):
        if kind == "grid":
            _use_grid(model, use[1])
        elif kind == "chain":
            mc = MarkovChainProcess(model, SamplingMethod[use[2]], _use_grid(model, use[1]))
            mc.initialisation(_USE_PRODUCT)
            mc.process_drift(), mc.intensity()
        elif kind == "coupling":
            from rpylib.process.coupling.couplingmarkovchain import CouplingMarkovChain
            cp = CouplingMarkovChain(model, SamplingMethod.BINARYSEARCHTREEADAPTED1D, _use_grid(model, use[1]))
            cp.initialisation(_USE_PRODUCT)
            cp.pre_computation(2, _USE_PRODUCT)
            for _ in range(use[2]):
                cp.next_level(2, None, _USE_PRODUCT)
        elif kind == "copula_chain":
            from rpylib.process.markovchain.markovchainlevycopula import MarkovChainLevyCopula
            if not model.jump_of_finite_variation():
                return False        # (margins of infinite variation: the library starts a pool of worker processes per chain - not in a quick check)
            other = copy.deepcopy(model)
            cm = zoo.make_copula_model([model, other] if use[3] == 0 else [other, model], zoo.make_copula("clayton"))
            mc = MarkovChainLevyCopula(cm, _use_grid(cm, ["fixed", use[1], use[2]], dimension=2), SamplingMethod.BINARYSEARCHTREEADAPTED)
            mc.initialisation(_USE_PRODUCT)
        elif kind == "sde":
            if is_exp:
                return False
            from rpylib.model.utils import create_levy_forward_market_model
            from rpylib.process.markovchain.markovchainsde import MarkovChainSDE
            fm = create_levy_forward_market_model(driver=model)
            MarkovChainSDE(fm, SamplingMethod.INVERSION, _use_grid(model, use[1])).initialisation(_USE_PRODUCT)
        elif kind == "levyprocess":
            lp = LevyProcess(model)
            lp.initialisation(_USE_PRODUCT)
            lp.one_simulation_cost(_USE_PRODUCT)
            lp.deterministic_path(np.array([0.0, 0.5, 1.0]))
            lp.pre_computation(2, _USE_PRODUCT)
            lp.simulate_one_path()
        elif kind == "cos":
            if not is_exp:
                return False
            from rpylib.numerical.cosmethod import COSPricer
            pr = COSPricer(model, n=use[1])
            pr.price(_USE_PRODUCT), pr.put(np.array([0.9, 1.1]) * model.spot, 0.5)
        elif kind == "fft":
            if not is_exp:
                return False
            from rpylib.numerical.fft import FFTPricer
            FFTPricer(model).call(model.spot, 1.0)
        elif kind == "calibration":
            if not is_exp:
                return False
            from rpylib.model.utils import run_default_calibration
            run_default_calibration(model, maturity=1.0, bs_sigma=use[1])
        elif kind == "evaluate":
            lm = model.levy_model if is_exp else model      # (the exponential wrapper has no exponent of its own)
            lm.levy_exponent(0.7 - 0.2j), lm.characteristic_function(1.0, 0.3), model.cumulant.cumulant2(1.0)
            model.jump_of_finite_variation(), model.levy_triplet.nu.integrate_against_x(-1.0, 1.0) if model.jump_of_finite_variation() else None
            if is_exp:
                model.log_characteristic_function(1.0, 0.4 - 0.1j), model.mean(1.0), model.drift()
        elif kind == "wrapper":
            wm = ExponentialOfLevyModel(spot=use[1], r=use[2], d=use[3], levy_model=model.levy_model if is_exp else model)
            if use[4]:
                return consume(wm, use[4])
        else:
            raise ValueError(use)
    return True


CONSUMER_SECONDS = 10     # an ordinary consumer takes milliseconds to a few seconds


class _ConsumerTimeout(BaseException):
    """not an Exception: the library's own broad `except Exception` clauses (the grid constructors retry their root search inside
    `while True: try ... except`) must not swallow it"""


class _ConsumerTimeLimit:
    """wall-clock limit for one consumer; SIGALRM is shared with the harness's own wall-clock limit, whose handler and remaining time
    are put back (same device as harness/props/c04.py `time_limit`)"""

    def __init__(self, seconds):
        self.seconds = seconds

    def __enter__(self):
        import signal
        import time as _t
        self.signal, self.t0 = signal, _t.time()
        self.usable = hasattr(signal, "SIGALRM")
        if self.usable:
            def fire(signum, frame):
                signal.alarm(2)           # keep firing until it gets out of whatever swallows it
                raise _ConsumerTimeout()
            self.remaining = signal.alarm(0)
            self.old = signal.signal(signal.SIGALRM, fire)
            signal.alarm(self.seconds)
        return self

    def __exit__(self, *exc):
        if self.usable:
            import time as _t
            self.signal.alarm(0)
            self.signal.signal(self.signal.SIGALRM, self.old)
            if self.remaining:
                self.signal.alarm(max(1, self.remaining - int(_t.time() - self.t0)))
        return False


def apply_uses(model, uses):
    """the use history: every consumer in turn; a consumer that refuses the object (raises) has still been handed it"""
    ran = 0
    for use in uses:
        kind = use[0] + (":" + use[4][0] if use[0] == "wrapper" and use[4] else "")
        try:
            with _ConsumerTimeLimit(CONSUMER_SECONDS):
                out = "ran" if consume(model, use) else "not_applicable"
        except Infra:
            raise
        except _ConsumerTimeout:
            # a consumer that does not come back (seen: the geometric grid constructor's `while True` on a degenerate edge model) has
            # still been handed the object; whether the consumer itself terminates is the subject of its own property (C13 / C04 / C15)
            out = "raises:did_not_return"
        except Exception as e:
            out = "raises:" + type(e).__name__
        ran += out == "ran"
        USE_LOG[f"{kind}:{out}"] = USE_LOG.get(f"{kind}:{out}", 0) + 1
    return ran


def draw_uses(rng, n=None):
    """1..3 consumers; the first one applies to every kind of model object (plain Lévy model, family exponential model, generic
    wrapper) and half of the time it is a Markov chain (small explicit box or ordinary grid), the consumer every CTMC / multilevel
    pricing starts with"""
    def grid():
        return rng.choice(GRID_SPECS)

    def universal():
        x = rng.random()
        if x < 0.5:
            return ["chain", grid(), rng.choice(["INVERSION", "ALIAS", "BINARYSEARCHTREEADAPTED1D"])]
        return rng.choice([["coupling", rng.choice(GRID_SPECS[:7]), rng.choice([0, 1, 2])], ["grid", grid()], ["levyprocess"],
                           ["copula_chain", rng.choice([0.1, 0.05]), rng.choice([3, 5]), rng.choice([0, 1])],
                           ["wrapper", rng.choice([1.0, 100.0]), rng.choice([0.0, 0.03]), rng.choice([0.0, 0.01]),
                            rng.choice([None, ["chain", grid(), "INVERSION"], ["cos", 256], ["levyprocess"]])]])

    def any_():
        x = rng.random()
        if x < 0.6:
            return universal()
        if x < 0.63:
            return ["fft"]
        return rng.choice([["cos", rng.choice([128, 1000])], ["calibration", rng.choice([0.1, 0.2])], ["sde", rng.choice(GRID_SPECS[:7])],
                           ["evaluate"]])
    return [universal()] + [any_() for _ in range((n if n is not None else rng.choice([1, 1, 2, 3])) - 1)]


def maybe_used(rng, params, prob=0.5):
    """with probability `prob` the params with a drawn use history attached"""
    return dict(params, **{USED: draw_uses(rng)}) if rng.random() < prob else params


# ------------------------------------------------------------------------------------------------- quadrature of nu
EPS = 2.0 ** -52
HP_BAND = 2.0 ** -6      # |y - 1| below which x nu(x) of a CGMY measure is so close to non-integrable at 0 that float noise spoils the quadrature


def hp_density(nu):
    """25-digit transcription c e^{-m x} / x^{1+y} (x > 0), c e^{-g |x|} / |x|^{1+y} (x < 0) of a CGMY density whose activity index is
    within HP_BAND of 1, or None.  Next to y = 1 the first moment over (-1, 1) is the difference of two one-sided integrals of size
    c / |1 - y|; the two sides are integrated together (first_moments) and the difference nu(x) - nu(-x) must not carry the 2^-52
    relative noise of the float density (the quadrature's error estimate would report it as non-convergence).  The transcription is
    used only if it agrees with the model's own `__call__` (the definition of nu) at 2^-43 relative on sample points of both sides."""
    prm = getattr(nu, "parameters", None)
    if prm is None or not all(hasattr(prm, k) for k in ("c", "g", "m", "y")) or not abs(float(prm.y) - 1.0) < HP_BAND:
        return None
    c, g, m, y = (mp.mpf(float(getattr(prm, k))) for k in ("c", "g", "m", "y"))

    def f(x):
        x = mp.mpf(x)
        if abs(x) < mp.mpf(10) ** -100:
            return mp.mpf(0)
        return c * mp.exp(-(m if x > 0 else g) * abs(x)) / abs(x) ** (1 + y)
    try:
        for x in (2.0 ** -10, 0.3, 2.0, -2.0 ** -10, -0.3, -2.0):
            v = float(nu(x))
            if not abs(v - f(x)) <= 2.0 ** -43 * abs(f(x)):
                return None
    except Exception:
        return None
    return f


def _dens(nu):
    hp = hp_density(nu)
    if hp is not None:
        return hp

    def f(x):
        xf = float(x)
        if abs(xf) < 1e-100:
            return 0.0
        v = float(nu(xf))
        return v if math.isfinite(v) else 0.0
    return f


def quad_fn(f, pts):
    """integral of f over the consecutive break points; returns (value, estimated error)"""
    tot, err = mp.mpc(0), mp.mpf(0)
    for a, b in zip(pts, pts[1:]):
        v, e = mp.quad(f, [a, b], error=True)
        tot += v
        err += e
    return tot, float(err)


def quad_against(nu, g, pts):
    """integral of g(x) nu(x) dx over the consecutive break points; returns (value, estimated error)"""
    d = _dens(nu)
    return quad_fn(lambda x: g(x) * d(x), pts)


def fp_allowance(m, fam, uc, conversions=True):
    """absolute float-evaluation noise that the comparison with the Lévy–Khintchine integral concedes to the closed form of the
    exponent (and, `conversions`, to the closed-form first moments behind set_representation): 16 * 2^-52 * (sum of the magnitudes of
    the terms of the formula).  Away from removable singularities this is ~1e-13 and irrelevant next to 2e-10 * scale.  CGMY general
    branch: c Gamma(-y) [(g+x)^y - x y g^(y-1) + (m-x)^y + x y m^(y-1) - g^y - m^y], x = i u: Gamma(-y) has poles at y = 0, 1, 2 where
    the bracket vanishes (y = 0, 1) - the value is regular, the float evaluation loses ~ 2^-52 / |y - y0| (measured on the unchanged
    tree: 7e-10 at y = 1 + 4e-6, 2e-6 at y = 1 + 1e-9, 2e-7 at y = 1e-9); first moments: c (h^(1-y) e^(-u h) - u^(y-1) Gamma(2-y)
    Q(2-y, u h)) / (y - 1), a difference of two sides of size c / |1 - y|.  Other families: no removable singularity in the formulas."""
    if fam != "cgmy":
        return 0.0
    try:
        p = m.parameters
        c, g, mm, y = (float(getattr(p, k)) for k in ("c", "g", "m", "y"))
        if y in (0.0, 1.0) or y >= 2.0:
            return 0.0
        x = 1j * complex(uc)
        terms = (abs(g + x) ** y + abs(x * y) * g ** (y - 1) + abs(mm - x) ** y + abs(x * y) * mm ** (y - 1) + g ** y + mm ** y)
        a = c * abs(math.gamma(-y)) * terms
        if conversions:
            a += abs(complex(uc)) * 4 * c * math.gamma(2 - y) * (g ** (y - 1) + mm ** (y - 1) + 2) / abs(1 - y)
        return 16 * EPS * a if math.isfinite(a) else 0.0
    except (ZeroDivisionError, OverflowError, ValueError):
        return 0.0


PTS = [-mp.inf, -1, mp.mpf(-1) / 8, 0, mp.mpf(1) / 8, 1, mp.inf]


def untempered(nu):
    """(left, right, c, y): which sides of a CGMY measure are pure power laws c/|x|^(1+y) (g = 0 / m = 0, the edge of the declared
    constraint `positive`).  Their tails beyond +-1 are integrated analytically (tanh-sinh does not converge on an oscillating
    algebraic tail): int_1^inf e^{-z t} t^{-1-y} dt = E_{1+y}(z) (mpmath.expint), int_1^inf t^{-1-y} dt = 1/y, int_1^inf t^{-y} dt = 1/(y-1)"""
    prm = getattr(nu, "parameters", None)
    if prm is None or not all(hasattr(prm, k) for k in ("c", "g", "m", "y")):
        return False, False, None, None
    return float(prm.g) == 0.0, float(prm.m) == 0.0, mp.mpf(float(prm.c)), mp.mpf(float(prm.y))


def support_of(nu):
    """the measure's own declared support (finite ends only where the measure is a restriction: the density jumps to 0 there and
    every quadrature must break at them)"""
    try:
        a, b = (float(x) for x in nu.support())
        return (a, b) if a < b else (-math.inf, math.inf)
    except Exception:
        return -math.inf, math.inf


def within_support(nu, pts):
    """break points of a quadrature over the whole line, restricted to the declared support (nothing outside, break points at its ends)"""
    sa, sb = support_of(nu)
    if not (math.isfinite(sa) or math.isfinite(sb)):
        return pts
    return [mp.mpf(sa)] + [p_ for p_ in pts if sa < p_ < sb] + [mp.mpf(sb)]


def first_moments(nu, fv, lo=None, hi=None):
    """(m1 over (-1,1) [None if infinite variation], m1 over the two tails, errors) by quadrature, optionally clipped to [lo, hi];
    a measure that declares a bounded support (a model object whose measure some consumer has restricted) is clipped to it"""
    sa, sb = support_of(nu)
    if math.isfinite(sa) or math.isfinite(sb):
        lo, hi = (sa, sb) if lo is None else (max(lo, sa), min(hi, sb))
        if not lo < hi:
            return (0.0 if fv else None), 0.0, 0.0
    def clip(pts):
        """the break points restricted to [lo, hi] ∩ [pts[0], pts[-1]] (None when that intersection is empty or a point).
        The first version appended `hi` to every clipped list: with lo < -1 and hi <= 1 the 'left tail' then ran up to hi and the
        middle part was counted twice (false alarm met with VERIF_SEED=10: a uniform grid truncated to [-100, 0.1])."""
        if lo is None:
            return pts
        a, b = max(mp.mpf(lo), pts[0]), min(mp.mpf(hi), pts[-1])
        if not a < b:
            return None
        return [a] + [p for p in pts if a < p < b] + [b]

    def refine(pts, mirror=False):
        if pts is None:
            return None
        """break points at the features of the density (a narrow Merton jump law far from 0 is missed by a quadrature that only
        knows the ends of the interval: false alarm met with VERIF_SEED=10, sigma_j = 0.0156, mu_j = 0.083, segment [0, 0.1]) and
        a uniform subdivision of every finite segment"""
        pts = list(pts)
        feats = []
        prm = getattr(nu, "parameters", None) or getattr(getattr(nu, "levy_measure", None), "parameters", None)
        mu, sg = getattr(prm, "mu_j", None), getattr(prm, "sigma_j", None)
        if mu is not None and sg:
            feats = [mp.mpf(float(mu) + k * float(sg)) for k in (-8, -4, -2, -1, 0, 1, 2, 4, 8)]
            if mirror:
                feats = sorted(set(feats + [-f for f in feats]))
        out = []
        for a, b in zip(pts, pts[1:]):
            seg = [a]
            if mp.isinf(a) or mp.isinf(b):
                seg += sorted(f for f in feats if a < f < b)
            else:
                cuts = [a + (b - a) * mp.mpf(j) / 8 for j in range(1, 8)]
                seg += sorted(set(cuts + [f for f in feats if a < f < b]))
            out += seg
        return out + [pts[-1]]
    g = lambda x: x
    mid, e1 = (None, 0.0)
    if fv:
        # the two sides of the origin together over the symmetric part (-s, s) of the clipped middle: x (nu(x) - nu(-x)).  Each side
        # alone is c / (1 - y) for an activity index y next to 1 (x nu(x) ~ x^-y is all but non-integrable: no quadrature converges on
        # it), the sum is regular; what is left of an asymmetric clip is integrated one-sided, away from the origin
        a_, b_ = (mp.mpf(-1), mp.mpf(1)) if lo is None else (max(mp.mpf(lo), mp.mpf(-1)), min(mp.mpf(hi), mp.mpf(1)))
        if a_ < 0 < b_:
            s = min(-a_, b_)
            d = _dens(nu)
            mid, e1 = quad_fn(lambda x: x * (d(x) - d(-x)), refine([mp.mpf(0), s / 8, s], mirror=True))
            for seg in ([s, b_] if b_ > s else None, [a_, -s] if -a_ > s else None):
                if seg:
                    v, e = quad_against(nu, g, refine(seg))
                    mid += v
                    e1 += e
        else:
            seg_mid = refine(clip([mp.mpf(-1), mp.mpf(-1) / 8, mp.mpf(0), mp.mpf(1) / 8, mp.mpf(1)]))
            mid, e1 = quad_against(nu, g, seg_mid) if seg_mid else (mp.mpc(0), 0.0)
    left = clip([-mp.inf, mp.mpf(-4), mp.mpf(-1)]) if lo is None or lo < -1 else None
    right = clip([mp.mpf(1), mp.mpf(4), mp.inf]) if hi is None or hi > 1 else None
    tails, e2 = mp.mpc(0), 0.0
    ul, ur, c_, y_ = untempered(nu)
    if lo is None and (ul or ur):
        if y_ <= 1:
            return (None if mid is None else float(mid.real)), math.nan, math.inf      # infinite first moment: CENTER / ONEONE tails undefined
        if ul:
            left, tails = None, tails - c_ / (y_ - 1)
        if ur:
            right, tails = None, tails + c_ / (y_ - 1)
    for seg in (left, right):
        if seg and len(seg) >= 2:
            v, e = quad_against(nu, g, refine(seg))
            tails += v
            e2 += e
    return (None if mid is None else float(mid.real)), float(tails.real), e1 + e2


def lk_oneone(nu, u):
    """integral (e^{iux} - 1 - iux 1_{|x|<1}) nu(dx), Taylor series where |ux| is small (no cancellation)"""
    u = mp.mpc(u)

    def g(x):
        z = 1j * u * x
        if abs(x) < 1:
            if abs(z) < mp.mpf(1) / 16:
                s, term = mp.mpc(0), z
                for k in range(2, 30):
                    term = term * z / k
                    s += term
                    if abs(term) < mp.mpf(10) ** -40:
                        break
                return s
            return mp.exp(z) - 1 - z
        return mp.exp(z) - 1
    ul, ur, c_, y_ = untempered(nu)
    pts = PTS[(1 if ul else 0):(len(PTS) - 1 if ur else len(PTS))]
    v, e = quad_against(nu, g, within_support(nu, pts))
    if (ul or ur) and y_ <= 0:
        return complex(mp.nan), math.inf                  # infinite mass of big jumps: not a Lévy measure
    if ul:
        if u.imag > 0:
            return complex(mp.nan), math.inf              # int_{x<-1} e^{iux} nu(dx) diverges
        v += c_ * (mp.expint(1 + y_, 1j * u) - 1 / y_)
    if ur:
        if u.imag < 0:
            return complex(mp.nan), math.inf
        v += c_ * (mp.expint(1 + y_, -1j * u) - 1 / y_)
    return complex(v), e


def kappa1_quad(nu):
    """integral (e^x - 1) nu(dx) for finite-activity measures"""
    v, e = quad_against(nu, lambda x: mp.expm1(x), within_support(nu, PTS))
    return float(v.real), e


# ------------------------------------------------------------------------------------------ S: exponent vs LK integral
def exponent_probe(ctx, fam, params, us):
    m = make(fam, params)
    t0 = m.levy_triplet
    nu = t0.nu
    fv = bool(nu.jump_of_finite_variation())
    yb = ybranch(fam, params)
    sigma = float(t0.sigma)
    if fam == "bs":
        mid_q, tails_q, em = 0.0, 0.0, 0.0
    else:
        mid_q, tails_q, em = first_moments(nu, fv)
    reps = ([R.ZERO] if fv else []) + [R.CENTER, R.ONEONE, R.TILDE]
    drifts = {}
    for rep in reps:
        t = copy.deepcopy(t0)
        try:
            t.set_representation(rep)
            drifts[rep] = float(t.a)
        except Exception as e:
            ctx.fail("oracle", "c10.set_representation.raises", dict(family=fam, params=params, rep=rep.name),
                     {"exception": repr(e)[:300]}, cls=dict(family=fam, ybranch=yb, rep=rep.name))
            return
    quad = dict(mid=mid_q, tails=tails_q, fv=fv, i0=[])
    for u in us:
        desc = dict(family=fam, params=params, u=[complex(u).real, complex(u).imag])
        if fam == "bs":
            i0, e0 = 0j, 0.0
        else:
            i0, e0 = lk_oneone(nu, u)
        converged = (e0 + em) <= QUAD_OK
        ctx.count("c10.exponent_vs_lk", desc, nontrivial=converged, branch=fam + (":" + yb if yb else ""))
        if not converged:
            ctx.branches["c10.exponent_vs_lk:quadrature_not_converged"] += 1
            continue
        quad["i0"].append((complex(u), i0))
        try:
            impl = complex(m.levy_exponent(u))
        except Exception as e:
            ctx.fail("oracle", "c10.exponent.raises", desc, {"exception": repr(e)[:300]}, cls=dict(family=fam, ybranch=yb))
            continue
        uc = complex(u)
        for rep in reps:
            if rep == R.ONEONE or (rep == R.TILDE and not fv):
                j = i0
            elif rep == R.ZERO or (rep == R.TILDE and fv):
                j = i0 + 1j * uc * mid_q
            else:
                j = i0 - 1j * uc * tails_q
            lk = 1j * uc * drifts[rep] - 0.5 * sigma * sigma * uc * uc + j
            scale = 1 + abs(lk) + abs(uc) * (abs(drifts[rep]) + abs(mid_q or 0.0) + abs(tails_q))
            allow = fp_allowance(m, fam, uc)
            if not (fam == "cgmy" and yb in ("y<0", "y=0", "y=1")):
                track(ctx, "exponent_vs_lk", abs(impl - lk), 2e-10 * scale + allow)
            if not abs(impl - lk) <= 2e-10 * scale + allow:
                cls = dict(family=fam, ybranch=yb, rep=rep.name)
                mirrors = None
                if fam == "cgmy" and yb in ("y<0", "y=0", "y=1"):
                    # the recorded faulty behaviour: the exponent differs from the declared triplet by a linear term only
                    p = m.parameters
                    m1 = (mid_q or 0.0) + tails_q
                    pred = {"y<0": -1j * uc * m1, "y=0": 1j * uc * m1, "y=1": 1j * uc * p.c * math.log(p.g / p.m)}[yb]
                    mirrors = bool(abs(impl - lk - pred) <= 2e-10 * (scale + abs(pred)) + allow)
                ctx.fail("oracle", "c10.exponent_vs_lk", dict(desc, rep=rep.name),
                         {"levy_exponent": [impl.real, impl.imag], "levy_khintchine_quadrature": [lk.real, lk.imag],
                          "drift_of_representation": drifts[rep], "difference": abs(impl - lk), "quadrature_error_estimate": e0 + em,
                          "what": "levy_exponent(u) != i u a - sigma^2 u^2/2 + integral(e^{iux} - 1 - i u x h(x)) nu(dx) with the "
                                  "model's drift, diffusion coefficient, density and this representation"},
                         cls=cls, mirrors_model=mirrors)
                break
    return quad


def lk_value(uc, a, sigma, rep, q, i0):
    """Lévy–Khintchine exponent of the triplet (a, sigma, nu, rep) from the representation-independent quadratures"""
    fv = q["fv"]
    if rep == R.ONEONE or (rep == R.TILDE and not fv):
        j = i0
    elif rep == R.ZERO or (rep == R.TILDE and fv):
        j = i0 + 1j * uc * (q["mid"] or 0.0)
    else:
        j = i0 - 1j * uc * q["tails"]
    return 1j * uc * a - 0.5 * sigma * sigma * uc * uc + j


def exponent_after_walk_probe(ctx, fam, params, walk, q, spot, r, d):
    """S, history on ONE model object: `set_representation` is called on the model's own triplet; after every step the
    exponent must be unchanged (the process has not changed), must equal the Lévy–Khintchine integral built from the
    CURRENT (a, sigma, nu, representation), and the exponential model must still give the forward at -i.
    `q` = the quadratures of `exponent_probe` (representation-independent)."""
    # the quadratures `q` belong to make(fam, params); the Lévy and the exponential factories have different defaults
    # (Merton mu_j 0.01 / 0.03), so the exponential model is built from that model's explicit parameter values
    explicit = plain(params)
    if fam != "bs":
        p0 = make(fam, plain(params)).parameters
        explicit = {k: getattr(p0, k) for k in PRIMS[fam]}
    if params.get(USED):                        # the exponential model is handed to the same consumers before the walk starts
        explicit[USED] = params[USED]
    em = make(fam, explicit, exp=True, spot=spot, r=r, d=d)
    lm = em.levy_model
    trip = lm.levy_triplet                      # shared with em.levy_triplet
    yb = ybranch(fam, params)
    known_branch = fam == "cgmy" and yb in ("y<0", "y=0", "y=1")     # exponent != LK already (known findings): (b) is skipped there
    desc = dict(family=fam, params=params, walk=walk, spot=spot, r=r, d=d, history=True)
    cls = dict(family=fam, ybranch=yb, history=True)
    us = [u for u, _ in q["i0"]] or [-1j, 0.7]
    i0s = dict(q["i0"])
    sigma = float(trip.sigma)
    try:
        psi0 = [complex(lm.levy_exponent(u)) for u in us]
    except Exception as e:
        ctx.fail("oracle", "c10.exponent.raises", desc, {"exception": repr(e)[:300]}, cls=cls)
        return
    rep_prev = trip.representation
    changes = 0
    for i, rv in enumerate(walk):
        try:
            trip.set_representation(REPS[rv])
        except Exception as e:
            ctx.fail("oracle", "c10.set_representation.raises", desc, {"step": i, "exception": repr(e)[:300]}, cls=cls)
            return
        changes += trip.representation != rep_prev
        rep_prev = trip.representation
        a_now = float(trip.a)
        for k, u in enumerate(us):
            # (the exponential wrapper itself has no levy_exponent_pure_jump; its exponent is its levy_model's)
            for which, model, ref in (("levy_model", lm, psi0[k]),):
                now = complex(model.levy_exponent(u))
                tol = 1e-12 * (1 + abs(ref) + abs(u) * (abs(a_now) + abs(q["mid"] or 0.0) + abs(q["tails"])))
                track(ctx, "exponent_after_walk.unchanged", abs(now - ref), tol)
                if not abs(now - ref) <= tol:
                    ctx.count("c10.exponent_after_walk", desc, nontrivial=True, branch=fam)
                    ctx.fail("oracle", "c10.exponent_after_walk", dict(desc, step=i, u=[u.real, u.imag]),
                             {"what": f"levy_exponent(u) of the {which} changed after set_representation on the model's own triplet: the "
                                      "process has not changed, only the cut-off convention of its drift",
                              "before": [ref.real, ref.imag], "after": [now.real, now.imag], "representation_now": trip.representation.name,
                              "triplet_a_now": a_now, "original_drift": float(lm._original_drift) if hasattr(lm, "_original_drift") else None},
                             cls=dict(cls, check="unchanged"))
                    return
            if u in i0s and not known_branch:
                now = complex(lm.levy_exponent(u))
                lk = lk_value(u, a_now, sigma, trip.representation, q, i0s[u])
                scale = 1 + abs(lk) + abs(u) * (abs(a_now) + abs(q["mid"] or 0.0) + abs(q["tails"]))
                allow = fp_allowance(lm, fam, u)
                track(ctx, "exponent_after_walk.lk", abs(now - lk), 2e-10 * scale + allow)
                if not abs(now - lk) <= 2e-10 * scale + allow:
                    ctx.count("c10.exponent_after_walk", desc, nontrivial=True, branch=fam)
                    ctx.fail("oracle", "c10.exponent_after_walk", dict(desc, step=i, u=[u.real, u.imag]),
                             {"what": "after set_representation, levy_exponent(u) != Lévy–Khintchine integral of the CURRENT triplet "
                                      "(a, sigma, nu, representation)", "levy_exponent": [now.real, now.imag],
                              "levy_khintchine_quadrature": [lk.real, lk.imag], "representation_now": trip.representation.name,
                              "triplet_a_now": a_now}, cls=dict(cls, check="lk"))
                    return
        for t in (0.5, 2.0):
            v = complex(em.log_characteristic_function(t, -1j))
            fwd = spot * math.exp((r - d) * t)
            track(ctx, "exponent_after_walk.forward", abs(v - fwd), 1e-11 * fwd)
            if not abs(v - fwd) <= 1e-11 * fwd:
                ctx.count("c10.exponent_after_walk", desc, nontrivial=True, branch=fam)
                ctx.fail("oracle", "c10.exponent_after_walk", dict(desc, step=i, t=t),
                         {"what": "after set_representation on the model's own triplet, log_characteristic_function(t, -i) != S0 exp((r-d) t)",
                          "log_characteristic_function(t,-i)": [v.real, v.imag], "forward": fwd, "representation_now": trip.representation.name},
                         cls=dict(cls, check="forward"))
                return
    ctx.count("c10.exponent_after_walk", desc, nontrivial=changes >= 1, branch=f"{fam}:{'lk' if (i0s and not known_branch) else 'unchanged+forward'}")


# ------------------------------------------------------------------------------------- S: cumulants vs derivatives
def analytic_radius(fam, m):
    p = getattr(m, "parameters", None)
    if fam == "hem":
        return min(p.eta1, p.eta2)
    if fam == "vg":
        return min(p._lambda_p, p._lambda_m)
    if fam == "cgmy":
        return min(p.g, p.m)
    return 50.0


def cumulant_probe(ctx, fam, params):
    m = make(fam, params)
    yb = ybranch(fam, params)
    rho = min(1.0, 0.4 * float(analytic_radius(fam, m)))
    if not rho > 0:
        ctx.branches["c10.cumulants:not_analytic_at_0(untempered side: infinite cumulants)"] += 1
        return
    N = 64
    s = rho * np.exp(2j * np.pi * np.arange(N) / N)
    vals = np.array([complex(m.levy_exponent(-1j * sj)) for sj in s])
    noise = max(fp_allowance(m, fam, -1j * sj, conversions=False) for sj in s[::8])     # float noise of the exponent on the circle
    for k in (1, 2, 4):
        deriv = math.factorial(k) * np.mean(vals / s ** k)
        scale = math.factorial(k) * (np.mean(np.abs(vals)) + noise / 1e-9) / rho ** k
        for t in (1.0, 2.5):
            desc = dict(family=fam, params=params, k=k, t=t)
            try:
                c = float(getattr(m.cumulant, f"cumulant{k}")(t))
            except NotImplementedError:
                ctx.branches[f"c10.cumulants:not_implemented:{fam}:{k}"] += 1
                continue
            except Exception as e:
                ctx.count("c10.cumulants", desc, nontrivial=False, branch=f"{fam}:{k}")
                ctx.fail("oracle", "c10.cumulants.raises", desc, {"exception": repr(e)[:300], "what": "the cumulant generating exponent is "
                         f"analytic on |s| < {float(analytic_radius(fam, m))} but cumulant{k}(t) raises"}, cls=dict(family=fam, ybranch=yb, k=k))
                break
            ctx.count("c10.cumulants", desc, nontrivial=True, branch=f"{fam}:{k}")
            if not (fam == "cgmy" and k == 1 and yb in ("y=0", "y=1")):
                track(ctx, "cumulants", abs(c - t * deriv.real), 1e-9 * t * max(scale, 1e-300))
            if not (abs(c - t * deriv.real) <= 1e-9 * t * max(scale, 1e-300) and abs(deriv.imag) <= 1e-9 * max(scale, 1e-300)):
                mirrors = None
                if fam == "cgmy" and k == 1 and yb in ("y=0", "y=1"):
                    p = m.parameters
                    pred = {"y=0": p.c * (1 / p.m - 1 / p.g), "y=1": p.c * math.log(p.g / p.m)}[yb]
                    mirrors = bool(c == 0.0 and abs(deriv.real - pred) <= 1e-9 * max(scale, abs(pred)))
                ctx.fail("oracle", "c10.cumulants", desc,
                         {"stated_cumulant": c, "t_times_derivative_of_exponent": t * deriv.real, "imag": deriv.imag,
                          "what": f"cumulant{k}(t) != t * d^{k}/ds^{k} levy_exponent(-i s) at s = 0"},
                         cls=dict(family=fam, ybranch=yb, k=k), mirrors_model=mirrors)
                break


# --------------------------------------------------------------------------------- C + S: representation walks
def walk_probe(ctx, fam, params, walk, truncation=None):
    m = make(fam, params)
    t0 = m.levy_triplet
    if truncation is not None:
        t0 = copy.deepcopy(t0)
        t0.nu = TruncatedLevyMeasure(t0.nu, tuple(truncation))
    nu = t0.nu
    fv = bool(nu.jump_of_finite_variation())
    rep0 = t0.representation
    a0 = float(t0.a)
    desc = dict(family=fam, params=params, walk=walk, truncation=truncation)
    cls = dict(family=fam, ybranch=ybranch(fam, params), fv=fv, truncated=truncation is not None)
    with np.errstate(all="ignore"):
        mid = float(nu.integrate_against_x(-1, +1)) if fv else 0.0
        tails = float(nu.integrate_against_x(-np.inf, -1) + nu.integrate_against_x(+1, np.inf))
    if not (math.isfinite(mid) and math.isfinite(tails)):
        ctx.branches["c10.walk:nonfinite_moments"] += 1
        return
    scale = abs(fr(a0)) + abs(fr(mid)) + abs(fr(tails)) + Fraction(1, 2 ** 60)
    t = copy.deepcopy(t0)
    impl = []
    try:
        for r in walk:
            t.set_representation(REPS[r])
            impl.append(float(t.a))
    except Exception as e:
        ctx.count("c10.walk", desc, nontrivial=False, branch=fam)
        ctx.fail("oracle", "c10.set_representation.raises", desc, {"exception": repr(e)[:300]}, cls=cls)
        return
    changes = sum(1 for x, y in zip([rep0.value] + walk, walk) if x != y)
    ctx.count("c10.walk", desc, nontrivial=changes >= 1, branch=f"{fam}:{'fv' if fv else 'iv'}{':trunc' if truncation else ''}")
    # ---- S: path independence and reversibility on the implementation
    tol = float(scale) * 1e-12
    last = {}
    for r, a in zip(walk, impl):
        if r == rep0.value:
            track(ctx, "walk.reversible", abs(a - a0), tol)
        if r == rep0.value and not abs(a - a0) <= tol:
            ctx.fail("oracle", "c10.walk.reversible", desc, {"what": "back in the original representation the drift is not the original drift",
                                                             "original": a0, "after_round_trip": a, "drifts": impl}, cls=cls)
            return
        if r in last and not abs(a - last[r]) <= tol:
            ctx.fail("oracle", "c10.walk.path_independent", desc, {"what": "same representation reached along two paths, different drifts",
                                                                   "representation": REPS[r].name, "first": last[r], "second": a, "drifts": impl}, cls=cls)
            return
        last.setdefault(r, a)
    for r, a in last.items():
        one = copy.deepcopy(t0)
        one.set_representation(REPS[r])
        if not abs(float(one.a) - a) <= tol:
            ctx.fail("oracle", "c10.walk.path_independent", desc, {"what": "drift after the walk differs from the single conversion from the original triplet",
                                                                   "representation": REPS[r].name, "walk": a, "single": float(one.a)}, cls=cls)
            return
    # ---- C: M's setRep on the measure's own integrals
    out = ctx.lean(f"walk {w(mid)} {w(tails)} {1 if fv else 0} {w(a0)} {rep0.value} {wl(walk)}").split(" ")
    if out[0] == "bad-op":
        raise Infra("driver rejected walk")
    model_a, model_rep = rdl(out[0]), int(out[1])
    if not (len(model_a) == len(impl) and all(close(x, y, scale=scale) for x, y in zip(impl, model_a))
            and model_rep == t.representation.value):
        ctx.fail("corr", "c10.walk.model", desc, {"name": "Drivers/C10 walk (setRep) vs LevyTriplet.set_representation",
                                                  "impl": impl, "model": [float(x) for x in model_a], "impl_rep": t.representation.value,
                                                  "model_rep": model_rep, "mid": mid, "tails": tails}, cls=cls)


# ------------------------------------------------------------------------------ C + S: the three pricing routes
def routes_probe(ctx, fam, params, spot, r, d):
    em = make(fam, params, exp=True, spot=spot, r=r, d=d)
    lm = em.levy_model
    yb = ybranch(fam, params)
    cls = dict(family=fam, ybranch=yb)
    desc = dict(family=fam, params=params, spot=spot, r=r, d=d)
    ctx.count("c10.routes", desc, nontrivial=True, branch=fam)
    sigma = float(em.levy_triplet.sigma)
    a0 = float(lm._original_drift)
    # ---- cf route (S): E[S_t] = S0 exp((r-d) t)
    for t in (0.5, 2.0):
        v = complex(em.log_characteristic_function(t, -1j))
        fwd = spot * math.exp((r - d) * t)
        track(ctx, "cf_route.forward", abs(v - fwd), 1e-11 * fwd)
        if not abs(v - fwd) <= 1e-11 * fwd:
            ctx.fail("oracle", "c10.cf_route.forward", dict(desc, t=t), {"log_characteristic_function(t,-i)": [v.real, v.imag], "forward": fwd},
                     cls=cls)
            return
    psi = complex(lm.levy_exponent(-1j))
    if not abs(em.drift() + psi.real - (r - d)) <= 1e-12 * (1 + abs(psi)) or abs(psi.imag) > 1e-12 * (1 + abs(psi)):
        ctx.fail("oracle", "c10.cf_route.drift", desc, {"drift()": float(em.drift()), "levy_exponent(-i)": [psi.real, psi.imag], "r-d": r - d}, cls=cls)
        return
    # ---- cf route (C): omega and drift() are M's
    k1 = complex(lm.levy_exponent_pure_jump(1.0)).real
    om = rd(ctx.lean(f"omega {w(a0)} {w(sigma)} {w(k1)}"))
    # (omega is the exponent at the complex argument -i, k1 the pure-jump exponent at the real argument 1.0: two float evaluations of the
    # same formula, each with the noise fp_allowance describes)
    sc = abs(fr(a0)) + fr(sigma) ** 2 / 2 + abs(fr(k1)) + Fraction(1, 2 ** 60) + fr(fp_allowance(lm, fam, -1j, conversions=False)) * 2 ** 40
    if not close(em.omega, om, scale=sc):
        ctx.fail("corr", "c10.omega.model", desc, {"name": "Drivers/C10 omega vs ExponentialOfLevyModel.omega", "impl": float(em.omega),
                                                   "model": float(om)}, cls=cls)
    elif not close(em.drift(), rd(ctx.lean(f"expdrift {w(r)} {w(d)} {w(float(em.omega))}")), scale=fr(r) + fr(d) + abs(fr(float(em.omega)))):
        ctx.fail("corr", "c10.drift.model", desc, {"name": "Drivers/C10 expdrift vs ExponentialOfLevyModel.drift()", "impl": float(em.drift())}, cls=cls)
    # ---- direct-simulation route
    if fam in ("bs", "merton", "hem"):
        pd = float(em.process_drift())
        if fam == "bs":
            kq, ke = 0.0, 0.0
            mline = f"direct bs {w(r)} {w(d)} {w(sigma)}"
            sc = fr(r) + fr(d) + fr(sigma) ** 2
        elif fam == "merton":
            p = lm.parameters
            kq, ke = kappa1_quad(em.levy_triplet.nu)
            e = float(np.exp(p.mu_j + 0.5 * p.sigma_j ** 2))
            mline = f"direct merton {w(r)} {w(d)} {w(sigma)} {w(float(p.intensity))} {w(e)}"
            sc = fr(r) + fr(d) + fr(sigma) ** 2 + fr(float(p.intensity)) * (fr(e) + 1)
            ta = rd(ctx.lean(f"tripleta merton {w(float(p.intensity))} {w(float(p.mu_j))}"))
            if not close(a0, ta, scale=abs(ta) + Fraction(1, 2 ** 60)):
                ctx.fail("corr", "c10.triplet_a.model", desc, {"name": "Drivers/C10 tripleta vs MertonModel triplet drift", "impl": a0, "model": float(ta)}, cls=cls)
        else:
            p = lm.parameters
            kq, ke = kappa1_quad(em.levy_triplet.nu)
            mline = (f"direct hem {w(r)} {w(d)} {w(sigma)} {w(float(p.intensity))} {w(float(p.p))} {w(float(p.eta1))} {w(float(p.eta2))}")
            sc = fr(r) + fr(d) + fr(sigma) ** 2 + fr(float(p.intensity)) * 4
            ta = rd(ctx.lean(f"tripleta hem {w(float(p.intensity))} {w(float(p.p))} {w(float(p.eta1))} {w(float(p.eta2))}"))
            if not close(a0, ta, scale=fr(float(p.intensity)) + Fraction(1, 2 ** 60)):
                ctx.fail("corr", "c10.triplet_a.model", desc, {"name": "Drivers/C10 tripleta vs HEMModel triplet drift", "impl": a0, "model": float(ta)}, cls=cls)
            hk = rd(ctx.lean(f"hemkappa {w(float(p.intensity))} {w(float(p.p))} {w(float(p.eta1))} {w(float(p.eta2))} 1"))
            if not close(k1, hk, scale=fr(float(p.intensity)) * 4):
                ctx.fail("corr", "c10.kappa.model", desc, {"name": "Drivers/C10 hemkappa vs levy_exponent_pure_jump(1)", "impl": k1, "model": float(hk)}, cls=cls)
        # S: martingale under the exact jump law, kappa by quadrature of the density
        if ke <= QUAD_OK:
            lhs = pd + 0.5 * sigma * sigma + kq
            track(ctx, "direct_route.martingale", abs(lhs - (r - d)), 1e-10)
            if not abs(lhs - (r - d)) <= 1e-10:
                ctx.fail("oracle", "c10.direct_route.martingale", desc,
                         {"process_drift()": pd, "sigma^2/2": 0.5 * sigma * sigma, "integral (e^x-1) nu(dx) by quadrature": kq,
                          "sum": lhs, "r-d": r - d, "forward_rate_error": lhs - (r - d)}, cls=cls)
                return
        times = np.array([0.0, 0.5, 2.0])
        path = np.asarray(LevyProcess(em).deterministic_path(times), dtype=float)
        if not np.allclose(path, math.log(spot) + pd * times, rtol=0, atol=1e-13 * (1 + abs(math.log(spot)))):
            ctx.fail("oracle", "c10.direct_route.path", desc, {"deterministic_path": path.tolist(), "expected": (math.log(spot) + pd * times).tolist()}, cls=cls)
            return
        # C: the coded drift is M's
        mv = rd(ctx.lean(mline))
        if not close(pd, mv, scale=sc):
            ctx.fail("corr", "c10.direct_drift.model", desc, {"name": "Drivers/C10 direct vs process_drift()", "impl": pd, "model": float(mv)}, cls=cls)


def ctmc_probe(ctx, fam, params, spot, r, d, gd, em=None, drift_ref=None, desc=None, cls_extra=None):
    """`em` / `drift_ref` / `desc`: an exponential model that was reached along another construction route (construction_probe); the
    drift the chain must start from is then the martingale drift r - d - psi(-i) of a freshly built model (`drift_ref`), not the
    examined object's own `drift()`"""
    used_here = em is None and bool(params.get(USED))
    if em is None:
        em = make(fam, params, exp=True, spot=spot, r=r, d=d)
    yb = ybranch(fam, params)
    cls = dict(dict(family=fam, ybranch=yb, grid=gd["kind"]), **(cls_extra or {}))
    desc = desc if desc is not None else dict(family=fam, params=params, spot=spot, r=r, d=d, grid=gd)
    try:
        if gd["kind"] == "uniform":
            g, _ = zoo.make_grid("uniform", em, gd["h"], truncation_probability=gd["tp"])
        else:
            g, _ = zoo.make_grid("fixed", em, gd["h"], nb_of_points=gd["nb"])
    except Exception as e:
        ctx.branches[f"c10.ctmc:grid_raises:{type(e).__name__}"] += 1
        return
    ax = [float(x) for x in g.axes[0]]
    o = int(g.origin_coordinate.value)
    if not (0 < o < len(ax) - 1 and ax[o] == 0.0 and all(a < b for a, b in zip(ax, ax[1:]))):
        ctx.branches["c10.ctmc:grid_not_wellformed"] += 1
        return
    t0 = em.levy_triplet
    rep0, a0 = t0.representation, float(t0.a)
    fv = bool(t0.nu.jump_of_finite_variation())
    nu0 = t0.nu
    product = Product(payoff_underlying=Spot(), payoff=Vanilla(strike=spot, payoff_type=PayoffType.CALL), maturity=1.0)
    try:
        with np.errstate(all="ignore"):
            mc = MarkovChainProcess(em, SamplingMethod.INVERSION, g)
            mc.initialisation(product)
            pdrift = float(mc.process_drift())
            q = create_q_vector(mc.model.levy_triplet.nu, g)
    except Exception as e:
        ctx.count("c10.ctmc", desc, nontrivial=False, branch=fam)
        if fam == "cgmy" and yb == "y<0":
            ctx.branches["c10.ctmc:cgmy_negative_y_mass_at_zero(C09 finding)"] += 1
            return
        ctx.fail("oracle", "c10.ctmc.raises", desc, {"exception": repr(e)[:300]}, cls=cls)
        return
    ctx.count("c10.ctmc", desc, nontrivial=len(ax) >= 5, branch=f"{fam}:{gd['kind']}{':used' if used_here else ''}")
    if used_here:
        # the chain of an object that was handed to consumers before (USED marker) must be the chain of a never-used twin
        a_, b_ = chain_signature_or_error(em, gd), chain_signature_or_error(make(fam, plain(params), exp=True, spot=spot, r=r, d=d), gd)
        diff = ([] if a_ == b_ else [a_, b_]) if isinstance(a_, str) or isinstance(b_, str) else differences(a_, b_)
        if diff:
            ctx.fail("oracle", "c10.use_then_inspect.second_chain", desc,
                     {"what": "the Markov chain (grid built from the object, drift, equivalent diffusion coefficient, jump rates) of a model object "
                              "that was handed to consumers before differs from the chain of a never-used twin", "differs_at": [str(x) for x in diff[:12]],
                      "process_drift_used": a_ if isinstance(a_, str) else a_["process_drift"],
                      "process_drift_twin": b_ if isinstance(b_, str) else b_["process_drift"]},
                     cls=dict(family=fam, ybranch=yb, kind="family", used=True, consumer="+".join(u[0] for u in params[USED]), check="second_chain"))
            return
    lo, hi = (float(x) for x in g.truncations[0])
    sxq = math.fsum(x * float(qq) for x, qq in zip(ax, q))
    # ---- S: mean per unit time of the truncated process in its declared representation, by quadrature of the density
    #      ZERO: a0 + int_[lo,hi] x nu;  CENTER: a0;  ONEONE: a0 + int_{|x|>=1, [lo,hi]} x nu;  TILDE: ZERO if finite variation else ONEONE
    mid_q, tails_q, eq = first_moments(nu0, fv or rep0 == R.ZERO, lo=lo, hi=hi)
    if rep0 == R.ZERO or (rep0 == R.TILDE and fv):
        mean = a0 + (mid_q or 0.0) + tails_q
    elif rep0 == R.CENTER:
        mean = a0
    else:
        mean = a0 + tails_q
    if eq <= QUAD_OK:
        lhs, rhs = pdrift + sxq, (float(em.drift()) if drift_ref is None else float(drift_ref)) + mean
        sc = 1 + abs(sxq) + abs(pdrift)
        track(ctx, "ctmc.mean", abs(lhs - rhs), 1e-8 * sc)
        if not abs(lhs - rhs) <= 1e-8 * sc:
            ctx.fail("oracle", "c10.ctmc.mean", desc, {"process_drift": pdrift, "sum_x_rate": sxq, "drift()": float(em.drift()),
                                                       "martingale_drift_of_a_freshly_built_model": drift_ref,
                                                       "representation_of_the_model": rep0.name, "triplet_a": a0,
                                                       "mean_of_truncated_process": mean, "lhs": lhs, "rhs": rhs,
                                                       "what": "chain drift + sum x_k rate_k != drift() + mean per unit time of the truncated Lévy process"}, cls=cls)
            return
    # ---- C: M's ctmcDrift and M's conversion to TILDE on the truncated measure's integrals
    nut = mc.model.levy_triplet.nu
    with np.errstate(all="ignore"):
        mu_h = float(compute_mu_h(levy_measure=nut, grid=g, axis=g.axes[0], origin=o))
        v = 0.0 if fv else 1.0
        mu_t = float(nut.integrate_against_x(-np.inf, -v) + nut.integrate_against_x(v, np.inf))
        mid = float(nut.integrate_against_x(-1, +1)) if fv else 0.0
        tails = float(nut.integrate_against_x(-np.inf, -1) + nut.integrate_against_x(+1, np.inf))
    a_t = float(mc.model.levy_triplet.a)
    out = ctx.lean(f"walk {w(mid)} {w(tails)} {1 if fv else 0} {w(a0)} {rep0.value} [4]").split(" ")
    sc = abs(fr(a0)) + abs(fr(mid)) + abs(fr(tails)) + Fraction(1, 2 ** 60)
    if not close(a_t, rdl(out[0])[0], scale=sc):
        ctx.fail("corr", "c10.ctmc.tilde.model", desc, {"name": "Drivers/C10 walk [TILDE] vs the chain's triplet drift", "impl": a_t,
                                                        "model": float(rdl(out[0])[0])}, cls=cls)
        return
    mv = rd(ctx.lean(f"ctmc {w(float(em.drift()))} {w(a_t)} {w(mu_t)} {w(mu_h)}"))
    sc = abs(fr(float(em.drift()))) + abs(fr(a_t)) + abs(fr(mu_t)) + abs(fr(mu_h)) + Fraction(1, 2 ** 60)
    if not close(pdrift, mv, scale=sc):
        ctx.fail("corr", "c10.ctmc.drift.model", desc, {"name": "Drivers/C10 ctmc vs MarkovChainProcess.process_drift()", "impl": pdrift,
                                                        "model": float(mv)}, cls=cls)
    if not abs(mu_h - sxq) <= 1e-12 * (1 + abs(sxq)):
        ctx.fail("corr", "c10.ctmc.mu_h", desc, {"name": "compute_mu_h vs sum x_k * create_q_vector", "mu_h": mu_h, "sum_x_rate": sxq}, cls=cls)


# --------------------------------------- S: every construction route x every order of convert / wrap / evaluate
LEVY_SOURCES = ["factory", "class", "reinit", "of_exp"]


def explicit_params(fam, params):
    """the primary parameter values of make(fam, params) (the Lévy and the exponential factories have different defaults)"""
    pl = {k: v for k, v in params.items() if k not in (zoo.REINIT, USED)}
    if fam == "bs":
        return pl
    p0 = make(fam, pl).parameters
    return {k: getattr(p0, k) for k in PRIMS[fam]}


def build_levy(fam, explicit, source, spot, r, d):
    """a plain Lévy model along one of the public construction routes; returns (levy_model, parameter object or None,
    [(label, exponential model, spot, r, d)] = exponential models that already share the Lévy model)"""
    desc = models_description[zoo._TYPES[fam]]
    if fam == "bs":
        if source == "of_exp":
            em0 = zoo.make_exp("bs", explicit, spot=spot, r=r, d=d)
            return em0.levy_model, None, [("family_owner", em0, spot, r, d)]
        return desc.levy_model(mu=0, sigma=explicit["sigma"]), None, []
    if source == "factory":
        return zoo.make_levy(fam, explicit), None, []
    if source == "class":
        p = desc.parameters(**explicit)
        return desc.levy_model(parameters=p), p, []
    if source == "reinit":
        hp = dict(explicit, **{zoo.REINIT: True})
        return zoo.make_levy(fam, hp), None, [("family_reinitialised", zoo.make_exp(fam, hp, spot=spot, r=r, d=d), spot, r, d)]
    if source == "of_exp":
        em0 = zoo.make_exp(fam, explicit, spot=spot, r=r, d=d)
        return em0.levy_model, None, [("family_owner", em0, spot, r, d)]
    raise ValueError(source)


def draw_plan(rng, fam, fv, native, chain=None):
    """one order of  convert* / evaluate? / wrap / (convert / evaluate / wrap again)*  on one Lévy model"""
    allowed = [1, 2, 3, 4] if fv else [2, 3, 4]
    pre = [rng.choice(allowed) for _ in range(rng.choice([0, 1, 1, 2, 3]))]
    if pre and all(x == native for x in pre):
        pre[-1] = 2 if native != 2 else 3
    post = [rng.choice(allowed) for _ in range(rng.choice([0, 0, 1, 2]))]
    src = rng.choice(["of_exp", "class"] if fam == "bs" else LEVY_SOURCES)
    second = rng.choice([None, None] + list(range(len(post) + 1)))
    use_at = rng.choice([None, None, "start", "wrapped", "post"])
    return dict(source=src, pre=pre, eval_before=rng.random() < 0.5, post=post, second_wrap_after_post_step=second,
                second_market=[rng.choice([1.0, 50.0, 2500.0]), rng.choice([0.0, 0.01, 0.04]), rng.choice([0.0, 0.02])], chain=chain,
                use_at=use_at, uses=draw_uses(rng) if use_at else None)


def construction_probe(ctx, fam, params, plan, spot, r, d, q):
    """S, construction routes and orders: a plain Lévy model obtained from the factory / the class / a re-initialised parameter
    object / an existing family exponential model is (optionally evaluated and) re-expressed in other representations, THEN
    wrapped with the generic public constructor ExponentialOfLevyModel(spot, r, d, levy_model) (and, where a parameter object
    exists, the family class is also built from the SAME parameter object), converted further, wrapped a second time under another
    market.  After every step every live exponential model must satisfy the martingale statements of the property: cf(-i) =
    forward; drift() = r - d - psi(-i) with psi(-i) (i) of a freshly built, never converted model and (ii) the Lévy–Khintchine
    integral of the wrapper's CURRENT triplet by quadrature; omega / cf equal to those of the freshly built family model; the
    direct-simulation drift (finite-activity families); at the end the Markov-chain drift on a grid (plan["chain"]).
    plan["use_at"] / plan["uses"]: the plain Lévy model right after its construction ("start"), or the generic wrapper right after
    wrapping ("wrapped") or after the last conversion ("post"), is handed to library consumers of models (apply_uses) - then the
    same statements are demanded again of every live exponential model."""
    explicit = explicit_params(fam, params)
    yb = ybranch(fam, params)
    known_branch = fam == "cgmy" and yb in ("y<0", "y=0", "y=1")
    desc = dict(family=fam, params=params, spot=spot, r=r, d=d, construction=plan)
    cls0 = dict(family=fam, ybranch=yb, source=plan["source"], construction=True)
    qq = q or dict(mid=0.0, tails=0.0, fv=True, i0=[])
    i0s = dict(qq["i0"])
    mom = abs(qq["mid"] or 0.0) + abs(qq["tails"] if math.isfinite(qq["tails"]) else 0.0)
    try:
        fresh_lm = make(fam, explicit)
        psi_ref = complex(fresh_lm.levy_exponent(-1j))
        native = fresh_lm.levy_triplet.representation
        nu_ref = nu_signature(fresh_lm.levy_triplet.nu)
        lm, pobj, live = build_levy(fam, explicit, plan["source"], spot, r, d)
        live = [(lab, em, s_, r_, d_, "family") for lab, em, s_, r_, d_ in live]
        if plan.get("use_at") == "start":
            apply_uses(lm, plan["uses"])
    except Exception as e:
        ctx.count("c10.construction", desc, nontrivial=False, branch=fam)
        ctx.fail("oracle", "c10.construction.raises", desc, {"stage": "build", "exception": repr(e)[:300]}, cls=cls0)
        return
    trip = lm.levy_triplet
    sigma = float(trip.sigma)
    kq = ke = None
    if fam in ("merton", "hem"):
        kq, ke = kappa1_quad(trip.nu)
    elif fam == "bs":
        kq, ke = 0.0, 0.0
    fresh_cache = {}
    seen_generic_direct = []      # the generic wrapper's direct-simulation drift (a recorded finding) is reported once per plan

    def fresh(s_, r_, d_):
        if (s_, r_, d_) not in fresh_cache:
            fresh_cache[(s_, r_, d_)] = make(fam, explicit, exp=True, spot=s_, r=r_, d=d_)
        return fresh_cache[(s_, r_, d_)]

    def check(stage):
        """every live exponential model against the property; False after the first failure"""
        a_now, rep_now = float(trip.a), trip.representation
        sc = 1 + abs(psi_ref) + abs(a_now) + mom
        for lab, em, s_, r_, d_, wrapper in live:
            cls = dict(cls0, wrapper=wrapper)
            where = dict(desc, stage=stage, model=lab)
            info = {"stage": stage, "model": lab, "wrapper": wrapper, "representation_now": rep_now.name, "triplet_a_now": a_now,
                    "native_representation": native.name, "market": [s_, r_, d_]}
            # (a) cf route
            for t in (0.5, 2.0):
                v = complex(em.log_characteristic_function(t, -1j))
                fwd = s_ * math.exp((r_ - d_) * t)
                track(ctx, "construction.forward", abs(v - fwd), 1e-11 * fwd)
                if not abs(v - fwd) <= 1e-11 * fwd:
                    ctx.fail("oracle", "c10.construction.forward", dict(where, t=t),
                             dict(info, what="log_characteristic_function(t, -i) != S0 exp((r-d) t) for an exponential model reached along this "
                                             "construction route", value=[v.real, v.imag], forward=fwd), cls=dict(cls, check="forward"))
                    return False
            # (b) the drift handed to the simulation routes: drift() = r - d - psi(-i)
            dr = float(em.drift())
            track(ctx, "construction.drift", abs(dr + psi_ref.real - (r_ - d_)), 1e-12 * sc)
            if not abs(dr + psi_ref.real - (r_ - d_)) <= 1e-12 * sc:
                ctx.fail("oracle", "c10.construction.drift", where,
                         dict(info, what="drift() + psi(-i) != r - d, psi the exponent of a freshly built (never converted) Lévy model with the "
                                         "same parameters", drift=dr, psi=[psi_ref.real, psi_ref.imag], r_minus_d=r_ - d_,
                              omega=float(em.omega)), cls=dict(cls, check="drift"))
                return False
            if (-1j) in i0s and not known_branch:
                lk = lk_value(-1j, a_now, sigma, rep_now, qq, i0s[-1j])
                tol = 2e-10 * (1 + abs(lk) + abs(a_now) + mom) + fp_allowance(lm, fam, -1j)
                track(ctx, "construction.drift_lk", abs(dr + lk.real - (r_ - d_)), tol)
                if not abs(dr + lk.real - (r_ - d_)) <= tol:
                    ctx.fail("oracle", "c10.construction.drift", where,
                             dict(info, what="drift() + psi(-i) != r - d, psi(-i) = a + sigma^2/2 + integral(e^x - 1 - x h(x)) nu(dx) by quadrature of "
                                             "the density with the wrapper's CURRENT triplet drift and representation", drift=dr,
                                  levy_khintchine_quadrature=[lk.real, lk.imag], r_minus_d=r_ - d_, omega=float(em.omega)),
                             cls=dict(cls, check="drift_lk"))
                    return False
            # (c) indistinguishable from the freshly built family model
            fe = fresh(s_, r_, d_)
            u = 0.7 - 0.3j
            va, vb = complex(em.log_characteristic_function(1.0, u)), complex(fe.log_characteristic_function(1.0, u))
            track(ctx, "construction.fresh", abs(float(em.omega) - float(fe.omega)), 1e-12 * sc)
            if not (abs(float(em.omega) - float(fe.omega)) <= 1e-12 * sc and abs(va - vb) <= 1e-11 * (abs(vb) + 1e-300) * (1 + sc)):
                ctx.fail("oracle", "c10.construction.fresh", where,
                         dict(info, what="omega / characteristic function differ from those of the family model freshly built at the same values",
                              omega=float(em.omega), omega_fresh=float(fe.omega), cf=[va.real, va.imag], cf_fresh=[vb.real, vb.imag]),
                         cls=dict(cls, check="fresh"))
                return False
            # (c') the density the model declares is still the density of the freshly built Lévy model (conversions, wrapping and
            #      consumers do not touch the measure)
            try:
                dn = differences(nu_signature(em.levy_triplet.nu), nu_ref)
            except Exception as e:
                dn = ["raises:" + type(e).__name__]
            if dn:
                ctx.fail("oracle", "c10.construction.fresh", where,
                         dict(info, what="the Lévy density the model declares (support, values, finite-variation flag) differs from that of the "
                                         "freshly built Lévy model", differs_at=dn[:10], measure_now=type(em.levy_triplet.nu).__name__),
                         cls=dict(cls, check="density"))
                return False
            # (d) direct simulation (finite-activity families: jump_increment exists, LevyProcess simulates the model directly)
            if kq is not None and ke <= QUAD_OK:
                pd = float(em.process_drift())
                lhs = pd + 0.5 * sigma * sigma + kq
                times = np.array([0.0, 0.5, 2.0])
                path = np.asarray(LevyProcess(em).deterministic_path(times), dtype=float)
                path_ok = np.allclose(path, math.log(s_) + pd * times, rtol=0, atol=1e-13 * (1 + abs(math.log(s_))))
                if wrapper == "family":
                    track(ctx, "construction.direct", abs(lhs - (r_ - d_)), 1e-10)
                if not (abs(lhs - (r_ - d_)) <= 1e-10 and path_ok) and not (wrapper == "generic" and seen_generic_direct):
                    seen_generic_direct.append(wrapper == "generic")
                    ctx.fail("oracle", "c10.construction.direct", where,
                             dict(info, what="direct simulation: process_drift() + sigma^2/2 + integral (e^x - 1) nu(dx) != r - d (or the deterministic "
                                             "path is not x0 + process_drift() t)", process_drift=pd, kappa1_by_quadrature=kq, sum=lhs,
                                  r_minus_d=r_ - d_, forward_rate_error=lhs - (r_ - d_), deterministic_path=path.tolist()),
                             cls=dict(cls, check="direct"),
                             mirrors_model=bool(wrapper == "generic" and path_ok and pd == a_now))
                    if wrapper != "generic":
                        return False
        return True

    changes = 0
    try:
        if plan["eval_before"]:
            lm.levy_exponent(-1j), lm.characteristic_function(1.0, 0.7), lm.cumulant.cumulant1(1.0)
        for rv in plan["pre"]:
            changes += trip.representation != REPS[rv]
            trip.set_representation(REPS[rv])
            if plan["eval_before"]:
                lm.levy_exponent(-1j)
        live.append(("wrap1", ExponentialOfLevyModel(spot=spot, r=r, d=d, levy_model=lm), spot, r, d, "generic"))
        if pobj is not None:       # the family class built from the SAME parameter object as the (converted) Lévy model
            live.append(("family_same_parameters", models_description[zoo._TYPES[fam]].exponential_of_levy_model(
                spot=spot, r=r, d=d, parameters=pobj), spot, r, d, "family"))
        if plan.get("use_at") == "wrapped":
            apply_uses(live[[x[0] for x in live].index("wrap1")][1], plan["uses"])
        ok = check("wrapped")
        second = plan.get("second_wrap_after_post_step")
        for i, rv in enumerate([None] + list(plan["post"])):
            if not ok:
                break
            if rv is not None:
                changes += trip.representation != REPS[rv]
                trip.set_representation(REPS[rv])
                ok = check(f"post[{i - 1}]")
            if ok and second == i:
                s2, r2, d2 = plan["second_market"]
                live.append(("wrap2", ExponentialOfLevyModel(spot=s2, r=r2, d=d2, levy_model=lm), s2, r2, d2, "generic"))
                ok = check(f"second_wrap_after[{i}]")
        if ok and plan.get("use_at") == "post":
            apply_uses(live[[x[0] for x in live].index("wrap1")][1], plan["uses"])
            ok = check("used")
        if ok:
            now = complex(lm.levy_exponent(-1j))
            if not abs(now - psi_ref) <= 1e-12 * (1 + abs(psi_ref) + abs(float(trip.a)) + mom):
                ok = False
                ctx.fail("oracle", "c10.construction.fresh", desc,
                         {"what": "levy_exponent(-i) of the wrapped and converted Lévy model != that of a freshly built one", "now": [now.real, now.imag],
                          "fresh": [psi_ref.real, psi_ref.imag], "representation_now": trip.representation.name}, cls=dict(cls0, check="exponent"))
    except Infra:
        raise
    except Exception as e:
        ctx.count("c10.construction", desc, nontrivial=False, branch=fam)
        ctx.fail("oracle", "c10.construction.raises", desc, {"exception": repr(e)[:300], "representation_now": trip.representation.name}, cls=cls0)
        return
    ctx.count("c10.construction", desc, nontrivial=changes >= 1,
              branch=f"{fam}:{plan['source']}:{'pre' if plan['pre'] else ''}{'+post' if plan['post'] else ''}{'+second' if second is not None else ''}"
                     f"{'+used@' + plan['use_at'] if plan.get('use_at') else ''}")
    if not ok:
        return
    # ---- cf route (C): omega of the generic wrapper is M's omega of the ORIGINAL drift
    em1 = [em for lab, em, *_ in live if lab == "wrap1"][0]
    a_orig = float(lm._original_drift)
    k1 = complex(lm.levy_exponent_pure_jump(1.0)).real
    om = rd(ctx.lean(f"omega {w(a_orig)} {w(sigma)} {w(k1)}"))
    if not close(em1.omega, om, scale=abs(fr(a_orig)) + fr(sigma) ** 2 / 2 + abs(fr(k1)) + Fraction(1, 2 ** 60)
                 + fr(fp_allowance(lm, fam, -1j, conversions=False)) * 2 ** 40):
        ctx.fail("corr", "c10.omega.model", desc, {"name": "Drivers/C10 omega vs ExponentialOfLevyModel.omega (generic wrapper)",
                                                   "impl": float(em1.omega), "model": float(om)}, cls=cls0)
    # ---- Markov-chain route on the generic wrapper as it stands now (declared representation = whatever the walk left)
    if plan.get("chain") and fam != "bs" and not (fam == "cgmy" and yb == "y<0"):
        ctmc_probe(ctx, fam, params, spot, r, d, plan["chain"], em=em1, drift_ref=(r - d) - psi_ref.real, desc=desc,
                   cls_extra=dict(source=plan["source"], construction=True, wrapper="generic"))


# ------------------------------------------ S: use-then-inspect histories (aliasing between a model object and its consumers)
NU_POINTS = [-2.0, -0.5, -0.1, -0.01, 0.01, 0.1, 0.5, 2.0]
USE_KINDS = ["levy", "family", "generic"]


def nu_signature(nu):
    """the density as the object states it: declared support, values at fixed points, finite-variation flag"""
    with np.errstate(all="ignore"):
        return dict(support=[float(x) for x in nu.support()], density=[float(nu(x)) for x in NU_POINTS],
                    finite_variation=bool(nu.jump_of_finite_variation()))


def fingerprint(model):
    """everything the object says about the PROCESS it describes, independent of the representation its triplet happens to be in:
    sigma, density, the triplet drift re-expressed (on a copy) in the CENTER and the canonical representation, the drift the
    exponent uses, exponent, cumulants; for an exponential model also omega, drift(), process_drift(), the characteristic function
    of the log-spot.  A query that raises is recorded as such."""
    out = {}

    def q(name, f):
        try:
            with np.errstate(all="ignore"):
                out[name] = f()
        except Exception as e:
            out[name] = "raises:" + type(e).__name__
    trip = model.levy_triplet
    q("sigma", lambda: float(trip.sigma))
    q("nu", lambda: nu_signature(trip.nu))

    def conv(rep):
        t = copy.deepcopy(trip)
        t.set_representation(rep)
        return float(t.a)
    q("triplet_drift_in_CENTER", lambda: conv(R.CENTER))
    q("triplet_drift_in_ONEONE", lambda: conv(R.ONEONE))
    q("original_drift", lambda: float(model._original_drift))
    lm = getattr(model, "levy_model", model)            # (the exponential wrapper has no exponent of its own: its Lévy model's)
    for u in (0.7, -1j, -1.5 + 0.5j):
        q(f"levy_exponent({u})", lambda u=u: [complex(lm.levy_exponent(u)).real, complex(lm.levy_exponent(u)).imag])
    for k in (1, 2, 4):
        q(f"cumulant{k}(1)", lambda k=k: float(getattr(model.cumulant, f"cumulant{k}")(1.0)))
    if isinstance(model, ExponentialOfLevyModel):
        q("market", lambda: [float(model.spot), float(model.r), float(model.d)])
        q("omega", lambda: float(model.omega))
        q("drift()", lambda: float(model.drift()))
        q("process_drift()", lambda: float(model.process_drift()))
        for t, u in ((1.0, -1j), (0.5, 0.7 - 0.3j)):
            q(f"log_characteristic_function({t},{u})", lambda t=t, u=u: [complex(model.log_characteristic_function(t, u)).real,
                                                                         complex(model.log_characteristic_function(t, u)).imag])
    return out


def differences(a, b, tol=1e-12, path=""):
    """paths at which two JSON-like values differ (numbers: beyond tol * (1 + magnitude); nan == nan)"""
    if isinstance(a, dict) and isinstance(b, dict):
        return [d for k in sorted(set(a) | set(b)) for d in
                (differences(a[k], b[k], tol, f"{path}.{k}" if path else str(k)) if k in a and k in b else [f"{path}.{k}"])]
    if isinstance(a, (list, tuple)) and isinstance(b, (list, tuple)):
        if len(a) != len(b):
            return [path + ".len"]
        return [d for i, (x, y) in enumerate(zip(a, b)) for d in differences(x, y, tol, f"{path}[{i}]")]
    if isinstance(a, bool) or isinstance(b, bool) or isinstance(a, str) or isinstance(b, str) or a is None or b is None:
        return [] if a == b else [path]
    if a == b or (a != a and b != b):
        return []
    return [] if abs(a - b) <= tol * (1 + max(abs(a), abs(b))) else [path]


def grid_of(model, gd):
    if gd["kind"] == "uniform":
        return zoo.make_grid("uniform", model, gd["h"], truncation_probability=gd["tp"])[0]
    return zoo.make_grid("fixed", model, gd["h"], nb_of_points=gd["nb"])[0]


def chain_signature(model, gd, method=SamplingMethod.INVERSION):
    """the Markov chain a CTMC pricing of `model` starts from: grid built from the model, drift, diffusion coefficient, rates"""
    with np.errstate(all="ignore"):
        g = grid_of(model, gd)
        mc = MarkovChainProcess(model, method, g)
        mc.initialisation(_USE_PRODUCT)
        q = create_q_vector(mc.model.levy_triplet.nu, g)
        return dict(axis=[float(x) for x in g.axes[0]], truncations=[float(x) for x in g.truncations[0]],
                    process_drift=float(mc.process_drift()), equivalent_diffusion_coefficient=float(mc.equivalent_diffusion_coefficient),
                    intensity_of_jumps=float(mc.intensity_of_jumps), rates=[float(x) for x in q],
                    chain_triplet_drift=float(mc.model.levy_triplet.a))


def chain_signature_or_error(model, gd):
    try:
        with _ConsumerTimeLimit(3 * CONSUMER_SECONDS):
            return chain_signature(model, gd)
    except Infra:
        raise
    except _ConsumerTimeout:
        return "raises:did_not_return"
    except Exception as e:
        return "raises:" + type(e).__name__


def use_probe(ctx, fam, params, kind, uses, spot, r, d, gd):
    """S, use-then-inspect history on ONE model object (kind: a plain Lévy model / a family exponential model / the generic wrapper
    around a plain Lévy model): the object is handed to the library's consumers of models one after the other (consume); after
    every consumer each judged object (the object itself and the Lévy model it shares its triplet with) must still describe the
    same process as a never-used twin built the same way (fingerprint: density, sigma, drift in a common representation, exponent,
    cumulants, omega, drifts, cf of the log-spot); then a Markov chain built from the USED object on a grid built from the USED
    object must be the chain of the twin (grid, drift, diffusion coefficient, rates).  That the fingerprint of the twin itself is
    the Lévy–Khintchine integral / the forward is the subject of the other probes, which receive used objects too (USED marker)."""
    yb = ybranch(fam, params)
    desc = dict(family=fam, params=params, use_then_inspect=dict(kind=kind, uses=uses, chain=gd), spot=spot, r=r, d=d)
    cls0 = dict(family=fam, ybranch=yb, kind=kind, used=True)
    pl = plain(params)

    def build():
        if kind == "levy":
            m = make(fam, pl)
            return m, [("levy_model", m)]
        if kind == "family":
            em = make(fam, pl, exp=True, spot=spot, r=r, d=d)
            return em, [("exponential_model", em), ("its_levy_model", em.levy_model)]
        lm = make(fam, pl)
        em = ExponentialOfLevyModel(spot=spot, r=r, d=d, levy_model=lm)
        return em, [("generic_wrapper", em), ("wrapped_levy_model", lm)]
    try:
        obj, judged = build()
        twin, twin_judged = build()
        ref = [fingerprint(m) for _, m in twin_judged]
        if any(differences(fingerprint(m), f) for (_, m), f in zip(judged, ref)):
            ctx.branches["c10.use_then_inspect:two_fresh_objects_differ"] += 1
            return
    except Infra:
        raise
    except Exception as e:
        ctx.branches[f"c10.use_then_inspect:build_raises:{type(e).__name__}"] += 1
        return
    ran = 0
    for i, use in enumerate(uses):
        ran += apply_uses(obj, [use])
        for (lab, m), f in zip(judged, ref):
            now = fingerprint(m)
            diff = differences(now, f)
            if diff:
                ctx.count("c10.use_then_inspect", desc, nontrivial=True, branch=f"{fam}:{kind}")
                ctx.fail("oracle", "c10.use_then_inspect", dict(desc, step=i),
                         {"what": f"after the object was handed to the consumer {use} it no longer describes the process of a never-used "
                                  "twin built the same way (a consumer must leave the caller's object describing the same process; the "
                                  "exponent / cumulants / forward of the twin are judged by the other probes)",
                          "judged_object": lab, "differs_at": diff[:12], "triplet_now": dict(a=float(m.levy_triplet.a),
                          representation=m.levy_triplet.representation.name, nu=type(m.levy_triplet.nu).__name__),
                          "used": {k: now[k] for k in sorted({x.split(".")[0].split("[")[0] for x in diff})},
                          "twin": {k: f[k] for k in sorted({x.split(".")[0].split("[")[0] for x in diff})}},
                         cls=dict(cls0, consumer=use[0], check="twin"))
                return
    ctx.count("c10.use_then_inspect", desc, nontrivial=ran >= 1, branch=f"{fam}:{kind}:{'+'.join(u[0] for u in uses)}")
    # ---- the second chain: built from the used object, on a grid built from the used object
    if fam == "bs" or (fam == "cgmy" and yb == "y<0"):
        return
    a, b = chain_signature_or_error(obj, gd), chain_signature_or_error(twin, gd)
    if isinstance(a, str) and isinstance(b, str):
        ctx.branches[f"c10.use_then_inspect:second_chain:{b}"] += 1
        return
    diff = [a, b] if isinstance(a, str) or isinstance(b, str) else differences(a, b)
    if diff:
        short = lambda x: x if isinstance(x, str) else {k: (v if not isinstance(v, list) else v[:6] + ["..."] * (len(v) > 6)) for k, v in x.items()}
        ctx.fail("oracle", "c10.use_then_inspect.second_chain", desc,
                 {"what": "the Markov chain (grid built from the object, drift, equivalent diffusion coefficient, jump rates) of a model object "
                          "that was handed to consumers before differs from the chain of a never-used twin",
                  "differs_at": [str(x) for x in diff[:12]], "used": short(a), "twin": short(b)},
                 cls=dict(cls0, consumer="+".join(u[0] for u in uses), check="second_chain"))
        return
    for (lab, m), f in zip(judged + twin_judged, ref + ref):
        diff = differences(fingerprint(m), f)
        if diff:
            ctx.fail("oracle", "c10.use_then_inspect", dict(desc, step="second_chain"),
                     {"what": "after a (second) Markov chain was built from the object it no longer describes the process of a never-used twin",
                      "judged_object": lab, "differs_at": diff[:12]}, cls=dict(cls0, consumer="chain", check="twin"))
            return


# ------------------------------------------------- C + S through theorems: closed forms as exact rational terms
CF_THEOREMS = {
    "hem": "hem_kappa_is_LK_integral / hem_levy_exponent_model_is_LK / hem_cgf_model_is_LK / hem_cumulant{1,2,4,6}_is_derivative",
    "merton": "merton_kappa_is_LK_integral / merton_levy_exponent_model_is_LK / merton_cgf_model_is_LK / merton_cumulant{1,2,4,6}_is_derivative",
    "bs": "bs_kappa_is_LK_integral / bs_cumulants_are_derivatives",
}


def _dy(rng, lo, hi, bits=4):
    """random dyadic with `bits` fractional bits strictly inside (lo, hi); None if the interval holds none"""
    a, b = math.floor(lo * 2 ** bits) + 1, math.ceil(hi * 2 ** bits) - 1
    return None if a > b else rng.randint(a, b) / 2 ** bits


def _mp_of(q):
    return mp.mpf(q.numerator) / mp.mpf(q.denominator)


def closed_form_inputs(rng, fam, m, n_s, n_w):
    """real arguments s and complex arguments w = u + i v (dyadic) inside the domain of the theorems: HEM -eta2 < s < eta1,
    -eta2 < -v < eta1 (two of them close to the poles); Merton / BS: anything moderate"""
    if fam == "hem":
        e1, e2 = float(m.parameters.eta1), float(m.parameters.eta2)
        lo, hi = -e2, e1
    else:
        lo, hi = -12.0, 12.0
    ss = [x for x in (1.0, 0.0, -1.0) if lo < x < hi]
    for _ in range(n_s):
        x = _dy(rng, lo, hi) if rng.random() < 0.7 else rng.choice([_dy(rng, hi - 0.5, hi), _dy(rng, lo, lo + 0.5)])
        if x is not None:
            ss.append(x)
    ws = [(0.0, -1.0)] if lo < 1.0 < hi else []
    for _ in range(n_w):
        mv = _dy(rng, max(lo, -3.0), min(hi, 3.0))       # -v
        if mv is not None:
            ws.append((rng.randint(-160, 160) / 16, -mv))
    ws.append((rng.randint(-160, 160) / 16, 0.0))
    return ss, ws


def closed_form_probe(ctx, fam, params, ss, ws, ts=(1.0, 2.5)):
    """HEM / Merton / Black-Scholes: the coded pure-jump exponent at real s and complex z, `levy_exponent` at -i s and at
    complex w, and cumulants 1, 2, 4, 6 against M's exact rational terms (Drivers/C10).  The theorems listed in CF_THEOREMS
    prove that M's terms ARE the Lévy–Khintchine integral of the model's density / the derivatives of its cumulant generating
    exponent, so inside the theorems' hypotheses a mismatch is a failure of the property itself (kind oracle)."""
    if fam == "bsmu":
        from rpylib.model.levymodel.mixed.blackscholes import PureDiffusiveModel
        m = PureDiffusiveModel(mu=params["mu"], sigma=params["sigma"])
        famk = "bs"
    else:
        m = make(fam, params)
        famk = fam
    pr = getattr(m, "parameters", None)
    a0 = float(m._original_drift)
    sigma = float(m.levy_triplet.sigma)
    A, SG = fr(a0), fr(sigma)
    cls = dict(family=famk, closed_form=True)
    thm = CF_THEOREMS[famk]
    if famk == "hem":
        lam, pp, e1, e2 = (fr(float(getattr(pr, k))) for k in ("intensity", "p", "eta1", "eta2"))
        hyp = e1 > 0 and e2 > 0
        args = f"{w(lam)} {w(pp)} {w(e1)} {w(e2)}"
    elif famk == "merton":
        lam, mu, sj = (fr(float(getattr(pr, k))) for k in ("intensity", "mu_j", "sigma_j"))
        hyp = sj > 0
    else:
        lam, hyp = Fraction(0), True

    def kappa_model(x, y):
        """(re, im, scale) of levy_exponent_pure_jump(x + i y) from M's rational terms; None outside M's domain"""
        if famk == "hem":
            out = ctx.lean(f"hemkappac {args} {w(x)} {w(y)}")
            if out == "div0":
                return None
            re_, im_ = (rd(t) for t in out.split(" "))
            d1 = math.hypot(float(e1 - x), float(y))
            d2 = math.hypot(float(e2 + x), float(y))
            sc = abs(lam) * (fr(abs(float(pp * e1)) / d1) + fr(abs(float((1 - pp) * e2)) / d2) + 1)
            return re_, im_, sc
        if famk == "merton":
            are, aim = (rd(t) for t in ctx.lean(f"mertonargc {w(mu)} {w(sj)} {w(x)} {w(y)}").split(" "))
            with mp.workdps(40):
                ez = mp.exp(_mp_of(are))
                kre = _mp_of(lam) * (ez * mp.cos(_mp_of(aim)) - 1)
                kim = _mp_of(lam) * (ez * mp.sin(_mp_of(aim)))
                sc = abs(lam) * (fr(float(ez)) * (1 + abs(are) + abs(aim)) + 1)
                return Fraction(str(mp.nstr(kre, 38))), Fraction(str(mp.nstr(kim, 38))), sc
        return Fraction(0), Fraction(0), Fraction(1, 2 ** 60)

    def bad(probe, desc, what, impl, model, scale, in_hyp):
        kind = "oracle" if in_hyp else "corr"
        ctx.fail(kind, probe, desc, {"what": what, "theorems": thm if in_hyp else "outside the theorems' hypotheses: correspondence only",
                                     "implementation": impl, "model": model, "scale": float(scale), "name": "Drivers/C10 closed forms"}, cls=cls)

    tiny = Fraction(1, 2 ** 60)

    def close(py, lean, scale):          # shadows common.close: same rule, plus the margin book-keeping
        try:
            track(ctx, "closed_form", float(abs(fr(py) - lean)), float(TOLF * scale))
        except ValueError:
            return False
        return abs(fr(py) - lean) <= TOLF * scale
    # ---- pure-jump exponent and cumulant generating exponent at real s
    for sv in ss:
        S = fr(sv)
        desc = dict(family=fam, params=params, s=sv, closed_form="real")
        in_strip = famk != "hem" or (-e2 < S < e1)
        km = kappa_model(S, Fraction(0))
        if km is None:
            continue
        ctx.count("c10.closed_form", desc, nontrivial=bool(lam != 0 or SG != 0 or A != 0), branch=f"{famk}:real")
        try:
            k_impl = complex(m.levy_exponent_pure_jump(sv))
            psi_impl = complex(m.levy_exponent(-1j * sv))
        except Exception as e:
            ctx.fail("oracle", "c10.exponent.raises", desc, {"exception": repr(e)[:300]}, cls=cls)
            continue
        kre, _, ksc = km
        if famk == "hem":                      # the real-argument definition of M as well (hemKappa, the theorem's own term)
            kre2 = rd(ctx.lean(f"hemkappa {args} {w(S)}"))
            if kre2 != kre:
                raise Infra(f"Drivers/C10 hemkappa and hemkappac disagree at {desc}")
        if not (close(k_impl.real, kre, ksc + tiny) and abs(k_impl.imag) <= 1e-300):
            bad("c10.closed_form.exponent", desc, "levy_exponent_pure_jump(s) != integral (e^{s x} - 1) nu(dx) (M's exact term)",
                [k_impl.real, k_impl.imag], float(kre), ksc, hyp and in_strip)
            continue
        cg = rd(ctx.lean(f"cgf {w(A)} {w(SG)} {w(S)} {w(kre)}"))
        csc = abs(S * A) + (S * SG) ** 2 / 2 + ksc + tiny
        if famk == "hem" and rd(ctx.lean(f"hemcgf {w(A)} {w(SG)} {args} {w(S)}")) != cg:
            raise Infra(f"Drivers/C10 hemcgf and cgf disagree at {desc}")
        if not (close(psi_impl.real, cg, csc) and abs(psi_impl.imag) <= float(TOLF * csc)):
            bad("c10.closed_form.exponent", desc, "levy_exponent(-i s) != a s + sigma^2 s^2/2 + integral (e^{s x} - 1) nu(dx) (M's exact term)",
                [psi_impl.real, psi_impl.imag], float(cg), csc, hyp and in_strip)
    # ---- characteristic exponent at complex w = u + i v
    for u, v in ws:
        U, V = fr(u), fr(v)
        desc = dict(family=fam, params=params, w=[u, v], closed_form="complex")
        in_strip = famk != "hem" or (-e2 < -V < e1)
        km = kappa_model(-V, U)
        if km is None:
            continue
        ctx.count("c10.closed_form", desc, nontrivial=bool(lam != 0 or SG != 0 or A != 0), branch=f"{famk}:complex")
        kre, kim, ksc = km
        try:
            k_impl = complex(m.levy_exponent_pure_jump(1j * complex(u, v)))
            psi_impl = complex(m.levy_exponent(complex(u, v)))
        except Exception as e:
            ctx.fail("oracle", "c10.exponent.raises", desc, {"exception": repr(e)[:300]}, cls=cls)
            continue
        if not (close(k_impl.real, kre, ksc + tiny) and close(k_impl.imag, kim, ksc + tiny)):
            bad("c10.closed_form.exponent", desc, "levy_exponent_pure_jump(i w) != integral (e^{i w x} - 1) nu(dx) (M's exact terms)",
                [k_impl.real, k_impl.imag], [float(kre), float(kim)], ksc, hyp and in_strip)
            continue
        if famk == "hem":
            mre, mim = (rd(t) for t in ctx.lean(f"levyexp hem {w(A)} {w(SG)} {args} {w(U)} {w(V)}").split(" "))
        else:
            mre, mim = (rd(t) for t in ctx.lean(f"levyexpof {w(A)} {w(SG)} {w(U)} {w(V)} {w(kre)} {w(kim)}").split(" "))
        aw = fr(math.hypot(u, v))
        psc = aw * abs(A) + (aw * SG) ** 2 / 2 + ksc + tiny
        if not (close(psi_impl.real, mre, psc) and close(psi_impl.imag, mim, psc)):
            bad("c10.closed_form.exponent", desc, "levy_exponent(w) != i w a - sigma^2 w^2/2 + integral (e^{i w x} - 1) nu(dx) in the declared "
                "(ZERO) representation (M's exact terms)", [psi_impl.real, psi_impl.imag], [float(mre), float(mim)], psc, hyp and in_strip)
    # ---- cumulants
    dr = fr(float(m.cumulant.drift))
    for k in ((1, 2, 4, 6) if famk != "bs" else (1, 2, 3, 4, 5, 6)):
        for t in ts:
            T = fr(t)
            desc = dict(family=fam, params=params, cumulant=k, t=t, closed_form="cumulant")
            if famk == "hem":
                line = f"cum hem {k} {w(dr)} {w(SG)} {args} {w(T)}"
                jm = abs(lam) * math.factorial(k) * (abs(pp) / e1 ** k + abs(1 - pp) / e2 ** k)
            elif famk == "merton":
                line = f"cum merton {k} {w(dr)} {w(SG)} {w(lam)} {w(mu)} {w(sj)} {w(T)}"
                jm = abs(lam) * 64 * (abs(mu) + sj) ** k
            else:
                line = f"cum bs {k} {w(dr)} {w(SG)} {w(T)}"
                jm = Fraction(0)
            mv = rd(ctx.lean(line))
            sc = T * ((abs(dr) if k == 1 else 0) + (SG ** 2 if k == 2 else 0) + jm) + tiny
            ctx.count("c10.closed_form", desc, nontrivial=bool(mv != 0), branch=f"{famk}:cumulant{k}")
            try:
                cv = float(getattr(m.cumulant, f"cumulant{k}")(t))
            except Exception as e:
                ctx.fail("oracle", "c10.cumulants.raises", desc, {"exception": repr(e)[:300]}, cls=dict(cls, k=k))
                continue
            if not close(cv, mv, sc):
                bad("c10.closed_form.cumulant", desc, f"cumulant{k}(t) != t * d^{k}/ds^{k} [a s + sigma^2 s^2/2 + integral (e^{{s x}} - 1) nu(dx)] at 0 "
                    "(M's exact term)", cv, float(mv), sc, hyp and dr == A)


TOLF = Fraction(1, 2 ** 40)

# -------------------------------------------------------------------------------------------------------------- run
def draw_walk(rng, fv):
    allowed = [1, 2, 3, 4] if fv else [2, 3, 4]
    return [rng.choice(allowed) for _ in range(rng.randint(1, 12))]


def stream(rng, n):
    out = [("bs", {"sigma": 0.2})] + zoo.model_stream(rng, n)
    return out


def edge_stream(rng, thorough):
    """(family, params, restriction) on the boundary of the declared parameter constraints (tools/parameter.py: `positive` is >= 0,
    `strictly_positive` > 0): HEM p = 1 (one-sided jumps; the edge of the meaningful range of p), intensity = 0, sigma = 0, eta1 close
    to 1 (kappa(1) close to its pole); Merton mu_j = 0, intensity = 0, sigma = 0, narrow jumps; VG theta = 0, small / large nu;
    Black-Scholes sigma = 0; CGMY g = 0 / m = 0 with 1 < y < 2 (one side a pure power law: the CENTER triplet and the exponent on
    the closed half plane Im u <= 0 resp. >= 0 are still defined; the cumulants are infinite; with m = 0 there is no exponential
    model).  Not generated, because the declared triplet itself is undefined there: CGMY g = 0 / m = 0 with y <= 1 (infinite first
    moment in the CENTER representation / infinite mass of big jumps); rejected by the constructors: VG sigma = 0, CGMY c = 0,
    HEM eta1 = 1 (ZeroDivisionError in HEMParameters).  restriction: None | "im<=0" | "im>=0" on the arguments of the exponent."""
    d = zoo.draw_params
    out = [("hem", dict(d(rng, "hem"), p=1.0), None), ("hem", dict(d(rng, "hem"), intensity=0.0), None),
           ("hem", dict(d(rng, "hem"), sigma=0.0), None), ("hem", dict(d(rng, "hem"), eta1=rng.choice([1.0625, 1.25, 1.5])), None),
           ("merton", dict(d(rng, "merton"), mu_j=0.0), None), ("merton", dict(d(rng, "merton"), intensity=0.0), None),
           ("merton", dict(d(rng, "merton"), sigma=0.0), None), ("merton", dict(d(rng, "merton"), sigma_j=2.0 ** -6), None),
           ("vg", dict(d(rng, "vg"), theta=0.0), None), ("vg", dict(d(rng, "vg"), nu=rng.choice([2.0 ** -7, 4.0])), None),
           ("bs", {"sigma": 0.0}, None)]
    y = lambda: round(1.5 + rng.uniform(-0.3, 0.3), 2)
    out += [("cgmy", dict(d(rng, "cgmy", 1.5), g=0.0, y=y()), "im<=0"), ("cgmy", dict(d(rng, "cgmy", 1.5), m=0.0, y=y()), "im>=0")]
    if thorough:
        out += [("hem", dict(d(rng, "hem"), p=1.0, sigma=0.0, intensity=0.0), None),
                ("hem", dict(d(rng, "hem"), p=1.0, eta1=1.0625), None),
                ("merton", dict(d(rng, "merton"), mu_j=0.0, sigma=0.0), None),
                ("vg", dict(d(rng, "vg"), theta=0.0, nu=4.0), None),
                ("cgmy", dict(d(rng, "cgmy", 1.5), g=0.0, y=y()), "im<=0"), ("cgmy", dict(d(rng, "cgmy", 1.5), m=0.0, y=y()), "im>=0")]
    return out


NEAR_OFFSETS = [1e-3, 1e-5, 4e-6, 1e-7, 1e-9]
# (family, parameter, special value, admissible sides): every parameter value at which the formulas of the five families switch branch
# (rpylib/model/levymodel/**: cgmy.py `y == 0` / `y == 1.0` in levy_exponent_pure_jump, `y == 1` in cumulant1, `y < 0.0` declared
# representation, `y < 1.0` finite variation, `alpha == 1.0` / `alpha == 0` / `alpha >= 1` / `y > 0` / `y > 1` / `y < -1` in the measure's
# integrals) or at which a declared constraint ends (tools/parameter.py `positive` / `strictly_positive`;
# p in [0, 1]).  HEM / Merton / VG / Black-Scholes have no parameter-valued branch in their formulas, only the constraint ends.
# Not generated: CGMY y -> 2 (a pole of Gamma(-y) where the exponent itself diverges like 1 / (2 - y): for offsets below ~5e-3
# exp(t psi(-i)) and exp(-t psi(-i)) leave the float range and their product, the forward, is nan); HEM eta1 -> 1 and CGMY m -> 1 closer than edge_stream's 1.0625 (e^x nu(x) decays like e^{-offset x}: the reference
# quadrature has no reliable error estimate there); CGMY g, m -> 0 (the exponent's strip shrinks below the argument grid; g = 0 / m = 0
# themselves are in edge_stream); CGMY c -> 0 (everything is linear in c).
NEAR_POINTS = [("cgmy", "y", 1.0, "+-"), ("cgmy", "y", 0.0, "+-"), ("cgmy", "y", -1.0, "+-"),
               ("hem", "p", 0.0, "+"), ("hem", "p", 1.0, "-"), ("hem", "intensity", 0.0, "+"), ("hem", "sigma", 0.0, "+"),
               ("merton", "mu_j", 0.0, "+"), ("merton", "intensity", 0.0, "+"), ("merton", "sigma", 0.0, "+"),
               ("vg", "theta", 0.0, "+-"), ("bs", "sigma", 0.0, "+")]


def near_stream(rng, thorough):
    """(family, params, label): ordinary members of the families whose parameter lies NEXT TO a special value without being on it
    (special value +- offset, offsets NEAR_OFFSETS: two of them inside numpy's default isclose band |x - x0| <= 1e-8 + 1e-5 |x0|, one at
    its edge, one inside a 1e-8 absolute / 1e-9 relative band).  The other parameters are an ordinary draw (CGMY: g != m, otherwise the
    centring terms that separate the special-case formulas from the general one vanish).  quick: CGMY y = 1 and y = 0, both sides, one
    coarse (1e-3, 1e-5) and one fine (4e-6, 1e-7, 1e-9) offset each; one offset of y = -1 +-; three of the other
    families' constraint ends.  thorough: every point, side and offset."""
    def base(fam):
        if fam == "bs":
            return {"sigma": 0.2}
        prm = zoo.draw_params(rng, fam, 0.5) if fam == "cgmy" else zoo.draw_params(rng, fam)
        if fam == "cgmy" and prm["g"] == prm["m"]:
            prm["m"] = prm["m"] + 0.5
        return prm

    def one(fam, name, x0, side, off):
        v = x0 + off if side == "+" else x0 - off
        return fam, dict(base(fam), **{name: v}), f"{fam}:{name}={x0:g}{side}"
    out = []
    if thorough:
        for fam, name, x0, sides in NEAR_POINTS:
            for side in sides:
                out += [one(fam, name, x0, side, off) for off in NEAR_OFFSETS]
        return out
    for fam, name, x0, sides in NEAR_POINTS[:2]:
        for side in sides:
            out += [one(fam, name, x0, side, rng.choice(NEAR_OFFSETS[:2])), one(fam, name, x0, side, rng.choice(NEAR_OFFSETS[2:]))]
    out += [one("cgmy", "y", -1.0, rng.choice("+-"), rng.choice(NEAR_OFFSETS))]
    for fam, name, x0, sides in rng.sample(NEAR_POINTS[3:], 3):
        out.append(one(fam, name, x0, rng.choice(sides), rng.choice(NEAR_OFFSETS)))
    return out


def edge_probe(ctx, fam, params, restr, rng, label=None):
    """every probe of the check on one edge-of-constraint (or next-to-a-special-value, `label`) model"""
    us = [u for u in U_GRID if restr is None or (restr == "im<=0" and u.imag <= 0) or (restr == "im>=0" and u.imag >= 0)]
    if label:
        ctx.branches[f"c10.near:{label}"] += 1
    else:
        ctx.branches[f"c10.edge:{fam}:{'+'.join(sorted(k for k in params if params[k] in (0.0, 1.0)) or ['near'])}"] += 1
    q = exponent_probe(ctx, fam, params, us[:4])
    cumulant_probe(ctx, fam, params)
    spot, r, d = 100.0, rng.choice([0.0, 0.02]), rng.choice([0.0, 0.01])
    if restr != "im>=0":                       # m = 0: E[e^X] is infinite, no exponential model
        routes_probe(ctx, fam, params, spot, r, d)
        if q is not None and q["i0"]:
            native = make(fam, plain(params)).levy_triplet.representation.value
            exponent_after_walk_probe(ctx, fam, params, [2 if native != 2 else 3, 4, native], q, spot, r, d)
            construction_probe(ctx, fam, params, draw_plan(rng, fam, q["fv"], native), spot, r, d, q)
    if fam in ("hem", "merton", "bs"):
        ss, ws = closed_form_inputs(rng, fam, make(fam, plain(params)), 3, 3)
        closed_form_probe(ctx, fam, params, ss, ws)
    if fam != "bs":
        fv = bool(make(fam, plain(params)).levy_triplet.nu.jump_of_finite_variation())
        walk_probe(ctx, fam, params, draw_walk(rng, fv))
        if restr is None:
            ctmc_probe(ctx, fam, params, spot, r, d, dict(kind="uniform", h=rng.choice([0.1, 0.05]), tp=0.99))


def run(ctx):
    rng = ctx.rng
    models = stream(rng, ctx.n(24, 150))
    nu_u = ctx.n(3, 5)
    for i, (fam, params0) in enumerate(models):
        # use-then-inspect: half of the models reach EVERY probe below as objects that were first handed to library consumers
        params = maybe_used(rng, params0)
        us = [-1j] + rng.sample([u for u in U_GRID if u != -1j], nu_u - 1)
        q = exponent_probe(ctx, fam, params, us)
        cumulant_probe(ctx, fam, params)
        spot, r, d = rng.choice([100.0, 1.0, 2500.0]), rng.choice([0.0, 0.02, 0.05]), rng.choice([0.0, 0.01, 0.03])
        if q is not None:
            fv_ = q["fv"]
            native = make(fam, plain(params)).levy_triplet.representation.value
            for _ in range(ctx.n(2, 4)):
                wk = [rng.choice([1, 2, 3, 4] if fv_ else [2, 3, 4]) for _ in range(rng.randint(1, 4))]
                if all(x == native for x in wk):
                    wk[0] = 2 if native != 2 else 3
                exponent_after_walk_probe(ctx, fam, params, wk, q, spot, r, d)
        routes_probe(ctx, fam, params, spot, r, d)
        if q is not None:
            # every public construction route x every order of convert / evaluate / wrap (generic wrapper, shared parameter objects)
            for j in range(ctx.n(2, 5)):
                chain = None
                if j == 0 and fam != "bs" and i % 2 == 0:
                    chain = (dict(kind="uniform", h=rng.choice([0.1, 0.05]), tp=0.99) if rng.random() < 0.5
                             else dict(kind="fixed", h=rng.choice([0.1, 0.05]), nb=rng.choice([9, 21])))
                construction_probe(ctx, fam, params, draw_plan(rng, fam, q["fv"], native, chain), spot, r, d, q)
        # one object, consumer after consumer, a twin after each; then a second chain from the used object
        for kind in rng.sample(USE_KINDS, ctx.n(2, 3)):
            gd2 = (dict(kind="uniform", h=rng.choice([0.1, 0.05, 0.01]), tp=rng.choice([0.99, 0.999])) if rng.random() < 0.7
                   else dict(kind="fixed", h=rng.choice([0.1, 0.05]), nb=rng.choice([9, 21])))
            use_probe(ctx, fam, dict(params0, __reinit__=True) if (rng.random() < 0.25 and fam != "bs") else params0, kind,
                      draw_uses(rng, n=rng.choice([1, 2, 3])), spot, r, d, gd2)
        if fam == "bs":
            continue
        # the same model after a parameter history (edit, initialisation(), edit back, initialisation(): what calibration does)
        hp = maybe_used(rng, dict(params0, __reinit__=True))
        routes_probe(ctx, fam, hp, spot, r, d)
        exponent_probe(ctx, fam, hp, [-1j, rng.choice([u for u in U_GRID if u != -1j])])
        if i % 3 == 0:
            cumulant_probe(ctx, fam, hp)
        m = make(fam, params0)
        fv = bool(m.levy_triplet.nu.jump_of_finite_variation())
        for _ in range(ctx.n(3, 8)):
            walk_probe(ctx, fam, params, draw_walk(rng, fv))
        lo, hi = -rng.choice([0.5, 1.5, 3.0]), rng.choice([0.75, 2.0, 4.0])
        walk_probe(ctx, fam, params, draw_walk(rng, fv), truncation=[lo, hi])
        gd = (dict(kind="uniform", h=rng.choice([0.1, 0.05, 0.02]), tp=rng.choice([0.99, 0.999]))
              if rng.random() < 0.6 else dict(kind="fixed", h=rng.choice([0.1, 0.05]), nb=rng.choice([5, 9, 21])))
        ctmc_probe(ctx, fam, params, spot, r, d, gd)
    # ---- closed forms of the jump-diffusion families as exact rational terms (tie to the Lean theorems)
    cf = [("hem", {}), ("merton", {}), ("bs", {"sigma": 0.2}), ("bsmu", {"mu": rng.randint(-16, 16) / 16, "sigma": rng.randint(0, 8) / 16})]
    cf += [(f, prm) for f, prm in models if f in ("hem", "merton") and prm][:ctx.n(6, 40)]
    cf += [(f, dict(zoo.draw_params(rng, f), __reinit__=True)) for f in ("hem", "merton")]
    for fam, params in cf:
        ss, ws = closed_form_inputs(rng, "bs" if fam == "bsmu" else fam, None if fam == "bsmu" else make(fam, params), ctx.n(3, 8), ctx.n(3, 8))
        closed_form_probe(ctx, fam, params if fam == "bsmu" else maybe_used(rng, params), ss, ws)
    # ---- edge-of-constraint parameters through every probe
    for fam, params, restr in edge_stream(rng, ctx.thorough):
        edge_probe(ctx, fam, maybe_used(rng, params) if restr is None else params, restr, rng)
        if restr is None:
            use_probe(ctx, fam, params, rng.choice(USE_KINDS), draw_uses(rng), 100.0, 0.02, 0.01, dict(kind="uniform", h=0.1, tp=0.99))
    # ---- parameters next to (not on) every special value of the families' formulas through every probe
    for fam, params, label in near_stream(rng, ctx.thorough):
        edge_probe(ctx, fam, maybe_used(rng, params), None, rng, label=label)
    for k, v in sorted(USE_LOG.items()):
        ctx.branches["c10.use:" + k] += v
    USE_LOG.clear()
    ctx.notes.append("largest observed discrepancy / tolerance per oracle: " +
                     ", ".join(f"{k} {v:.2e}" for k, v in sorted(getattr(ctx, "margins", {}).items())))


def replay(ctx, rec):
    d = rec["input"]
    p = rec.get("probe", "")
    fam, params = d["family"], d["params"]
    if d.get("use_then_inspect"):
        u = d["use_then_inspect"]
        use_probe(ctx, fam, params, u["kind"], u["uses"], d["spot"], d["r"], d["d"], u["chain"])
    elif d.get("closed_form"):
        ss = [d["s"]] if "s" in d else []
        ws = [tuple(d["w"])] if "w" in d else []
        closed_form_probe(ctx, fam, params, ss, ws, ts=(d["t"],) if "t" in d else ())
    elif d.get("construction"):
        q = exponent_probe(ctx, fam, params, [-1j])
        construction_probe(ctx, fam, params, d["construction"], d["spot"], d["r"], d["d"], q)
    elif d.get("history"):
        q = exponent_probe(ctx, fam, params, [-1j, 0.7] + ([complex(*d["u"])] if "u" in d else []))
        if q is not None:
            exponent_after_walk_probe(ctx, fam, params, d["walk"], q, d["spot"], d["r"], d["d"])
    elif "walk" in d:
        walk_probe(ctx, fam, params, d["walk"], truncation=d.get("truncation"))
    elif "grid" in d:
        ctmc_probe(ctx, fam, params, d["spot"], d["r"], d["d"], d["grid"])
    elif "k" in d:
        cumulant_probe(ctx, fam, params)
    elif "u" in d:
        exponent_probe(ctx, fam, params, [complex(d["u"][0], d["u"][1])])
    else:
        routes_probe(ctx, fam, params, d["spot"], d["r"], d["d"])


def search(ctx):
    rng = ctx.rng
    for fam, params0 in zoo.model_stream(rng, ctx.n(30, 120)):
        m = make(fam, params0)
        fv = bool(m.levy_triplet.nu.jump_of_finite_variation())
        params = maybe_used(rng, params0)
        use_probe(ctx, fam, params0, rng.choice(USE_KINDS), draw_uses(rng), 100.0, 0.02, 0.01, dict(kind="uniform", h=0.05, tp=0.99))
        q = exponent_probe(ctx, fam, params, [-1j, 0.7])
        if q is not None:
            exponent_after_walk_probe(ctx, fam, params, draw_walk(rng, fv)[:4], q, 100.0, 0.02, 0.01)
            for _ in range(3):
                construction_probe(ctx, fam, params, draw_plan(rng, fam, fv, m.levy_triplet.representation.value), 100.0, 0.02, 0.01, q)
        for _ in range(6):
            walk_probe(ctx, fam, params, draw_walk(rng, fv) + [m.levy_triplet.representation.value])
        routes_probe(ctx, fam, params, 100.0, 0.02, 0.01)
    for fam, params, label in near_stream(rng, ctx.thorough):
        ctx.branches[f"c10.near:{label}"] += 1
        exponent_probe(ctx, fam, params, [-1j, 0.7])
        cumulant_probe(ctx, fam, params)
