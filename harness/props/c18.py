"""C18 — Fourier and closed-form pricers are mutually consistent and arbitrage-free (DESIGN.md §4 C18).

C: the composition logic of COSPricer / FFTPricer / CFBlackScholes (call = forward + put, put = call - df(fwd-K),
   butterfly, digital = df*series, cdf = 1 - digital, xi / psi / u_put closed forms, first-term-halved series,
   Black-Scholes formulas incl. the degenerate branch and the ARGUMENTS handed to norm.cdf) against Model/Pricers.lean
   through Drivers/C18.lean; replay of the exactness theorems (cos_put_exact / cos_digital_exact) on the real COSPricer
   for synthetic densities without truncation and series error.
S: the property itself on the implementation, with *independent* forward F = spot*exp((r-d)T) and df = exp(-rT).
"""
from __future__ import annotations

import math
import warnings

import numpy as np
from scipy.integrate import simpson
from scipy.stats import norm

from .. import zoo
from ..common import w, wl, rd, close, fr

from rpylib.numerical.cosmethod import COSPricer
from rpylib.numerical.fft import FFTPricer
from rpylib.product.product import Product
from rpylib.product.payoff import Vanilla, Forward, PayoffType
from rpylib.product.underlying import Spot

warnings.filterwarnings("ignore", message="'where' used without 'out'")

# ---------------------------------------------------------------------------------------------------- documented box
RHO_MAX = 1e-10        # decay of the Lévy characteristic function at half the last COS frequency
STRIKE_FRACTION = 0.2  # |log(K/F)| <= 0.2 * (b-a)/2
FFT_M4_MAX = 1000.0    # FFT comparisons only when E[(S_T/S_0)^4] <= 1000 (fixed eta=0.25, alpha=1.5: aliasing for heavy right tails)
FFT_TOL = 2e-7         # relative to spot
RULE = (
    "models: zoo.make_exp with BS sigma in [0.05,0.5]; HEM/Merton/VG/CGMY from zoo.draw_params (HEM sigma 0..0.3, p .2...8, "
    "eta 5..40, lambda .5..8; Merton sigma 0..0.3, sigma_j .03...2, mu_j 0...1, lambda .5..8; VG sigma .08...3, nu .03...4, "
    "theta -.2...2; CGMY c .2..2, g,m 5..25, y in {-0.5,0.5,1.5}+-0.3 or exactly 0 or 1); spot 20..200, r 0..0.08 (r=0 "
    "with prob. 0.15), d 0..0.05, T 0.1..3; COSPricer defaults n=10000, l=10. BOX (shape / cross-pricer / density oracles "
    "run only here; FFT comparisons need E[(S_T/S_0)^4] <= 1000 in addition): |phi_L(T, n*pi/(2(b-a)))| <= 1e-10 (characteristic function of the Lévy part at half the last COS "
    "frequency: excludes finite-activity pure-jump CGMY y<0, CGMY y=0 / VG with small c*T resp. T/nu, sigma~0 "
    "jump-diffusions) and strikes F*[max(0.5,e^-h), min(1.5,e^h)], h = 0.2*(b-a)/2, on uniform grids of 11/15/21 points. "
    "Also: the same families at the edge of their declared ranges (zero jump intensity = Black-Scholes limit, HEM p = 1), every "
    "model freshly built and rebuilt through a re-initialised parameter object, one pricer object through histories of maturities "
    "next to a second pricer of another model, EVERY case additionally through a second construction history by assignment on the "
    "live object (the model is built with other r and / or d, >= 0.01 away, which are then assigned, in either order, 30% via "
    "an intermediate value, with a COSPricer built before / between / after the assignments and in 60% used before them, 30% "
    "on a model that also went through the re-initialised parameter object; COS / FFT / closed form of the live model judged "
    "against df, F of the final values and against the freshly built model; 3 more cases per run assign spot), "
    "SIZE REGIMES of the vector arguments (strikes of COS call / put / digital / forward, of the FFT pricer and of the closed form; "
    "points of COSPricer.density_log): uniform grids over the box strike range of length 1, 2, 3, 4, 5, 7, 8, 16, 31..33, 64, 97, "
    "127..129, 255..257 (4 per run, n = 10000 or one of 128, 512, 2048, 4096, 16384), 200..420 (1 per run, default n), and lengths "
    "with len*n log-uniform in [2^22, 2^23.75] at the default n (always a prime length, ~430..1400 strikes, in the box, FFT on the same "
    "vector) and in [2^22, 2^23.25] at two other n (up to ~80000 strikes; prime with prob. 1/2), handed over sorted or (1/3) shuffled; "
    "oracles: vector == the elements priced alone (every element for len <= 33, otherwise consecutive parts of random sizes "
    "1..max(32, 2^18/n) with size-one parts as python floats, plus 11 single scalar strikes), parity / forward on the whole "
    "vector, and in the box bounds / monotone / call-spread / convex / digital on the whole vector, density >= -1e-8, COS ~ closed "
    "form (Black-Scholes) and COS ~ FFT on all elements; "
    "ENTRY POINTS of the same contract: for every main / edge / live case the call, put and forward sharing maturity, strike and "
    "notional are also built as Product objects (notional omitted, 1.0, one positive non-default value 0.1..1000 and one negative value; "
    "positional or keyword constructor arguments; strike a python float and a vector of 2..3 box strikes) and priced through the generic "
    "COSPricer.price(product) (the only generic price(product) of the three pricers): price(call) - price(put) = price(forward) within "
    "1e-10*spot*max(1,|notional|), and price(.) = s * (call / put / forward / df*(F-K)) with one common s in {1, notional}; "
    "and synthetic densities that are exactly an N-term cosine polynomial on [a,b] "
    "(N 2..7, n = N + {0,1,9,40}, random coefficients, interval (-lo, hi) with lo, hi in [0.3,1.5]) for the replay of the exactness theorems. "
    "Measured once on the unchanged tree (900 draws, seeds 0..29): inside the box doubling n and/or l changes call/spot "
    "by <= 3.6e-11 and digitals by <= 1.1e-12 (< 1e-9). Outside the box only the exact probes run (parity against the "
    "independent forward, vector == scalar, model correspondence). non-trivial = in-box case with >= 11 strikes; "
    "distinct = distinct (family, params, spot, r, d, T, strikes)."
)
NOT_PROVED = [
    "a BOUND on the two error terms of COS for the five families: (T) the mass / payoff integral outside the cumulant-based interval "
    "[a,b] and (S) the cosine-series remainder after n terms.  Proved: with (T) = (S) = 0 the model's cosPut/cosCall/cosDigital applied "
    "to the series the code evaluates ARE the discounted expectations (cos_put_exact, cos_digital_exact, cos_*_eq_spec_*), for any density "
    "the series is the integral against the n-term partial sum (cos_series_is_partial_sum: no other error term), and a price function "
    "within eps of the spec call has the no-arbitrage shape up to 2 eps (law_shape_transfer).  The size of eps is only compared "
    "(documented box: doubling n and l moves prices by < 1e-9)",
    "discretisation (Simpson, eta=0.25, N=2^18), damping (alpha=1.5) and log-strike interpolation error of the FFT pricer: compared only",
    "that the closed-form characteristic functions / cumulants of the five families are the transforms of their laws (C10).  Proved "
    "for every integrable density f with phi(u) = int f e^{iuy}: Re(phi(u_k) e^{-i u_k a}) = int f cos(u_k (y-a)) = reCoef under (T) "
    "(cos_transform_real_part, cos_transform_is_reCoef); replayed on the implementation for synthetic cosine-polynomial densities by "
    "probe c18.cos.exact_density",
    "scipy.stats.norm.cdf: the Black-Scholes strike theorems (digital = -dC/dK, antitone, convex, slope in [-df,0], dropped dividend is a "
    "contradiction) are proved from the hypotheses NormalLike (Phi' = phi, phi = c exp(-x^2/2), c > 0) and 0 <= Phi <= 1, Phi(x)+Phi(-x) = 1; "
    "the lower bound intrinsic <= Black-Scholes call (it needs the tail behaviour of Phi at +-infinity) is oracle-checked only",
    "agreement COS ~ FFT ~ Black-Scholes and VG ~ CGMY(y=0): measured tolerances, no theorem",
]
ASSUMPTIONS = [
    "independent references: F = spot*exp((r-d)T), df = exp(-rT) computed by the harness from the model's attributes",
    "FFT comparisons (COS ~ FFT, BS ~ FFT) only when additionally E[(S_T/S_0)^4] <= 1000: with its fixed eta = 0.25, alpha = 1.5 the "
    "FFT pricer aliases for heavy right tails / very large variance (measured: HEM eta1 = 5.15, T = 2.69 is off by 3e-3*spot, "
    "CGMY y = 1.77 with sqrt(c2) = 2.6 returns negative calls); inside: worst |COS - FFT| = 1.5e-8*spot over 700 draws",
    "tolerances (worst observed on the unchanged tree over quick seeds 0..5 and thorough seeds 0..1 in brackets): parity 1e-10*spot "
    "[6e-14 abs]; bounds / monotone / call-spread 1e-9*spot [0]; convexity 1e-8*spot [0]; digital in [0,df], decreasing 1e-9 [0]; "
    "log-density >= -1e-8 [5.5e-13], mass 1 +- 1e-6 [2.5e-11]; digital/df vs tail mass 1e-6 [1.8e-8]; COS-FFT 2e-7*spot [1.3e-8*spot]; "
    "COS-BS 1e-10*spot [1e-15*spot]; VG-CGMY 1e-9*spot [6e-11*spot]; vector-scalar 1e-11*spot [0]; model correspondence 2^-40 of the "
    "cancellation-aware scale; exact-density replay 1e-11 of the sum of absolute terms [4e-15]; zero-intensity = BS 1e-9*spot [1e-13]",
    "live-assignment histories: r and d are validated settable properties that the unchanged tree reads at call time everywhere "
    "(measured: re-set model == freshly built model bit for bit for COS call / put / digital / density, FFT, closed form, 5 families); "
    "a COSPricer keeps only a reference to its model, so one built BEFORE an assignment is judged like one built after; an "
    "FFTPricer copies r and the log-spot at construction, so only FFTPricers built after the last assignment are generated "
    "(earlier ones are a don't-care).  Parameters are not assigned on a live model: the library's own idiom (model/utils.py "
    "calibration) rebuilds the model from a re-initialised parameter object, which is what zoo.reinitialised does.  spot is "
    "half cached (log_spot): known finding C18-spot-assignment-stale-log-spot-*, generated separately from the r / d histories. "
    "tolerances: live parity 1e-10*spot, live == fresh 1e-10*spot (density 1e-9 relative to its maximum) [0 observed], others as above",
    "size regimes: the pricers are element-wise in the strike, so a vector must price like its elements at any length; measured on "
    "the unchanged tree (quick seeds 0..11, 96 cases, len*n up to 2^24): vector - elements = 0 exactly for COS put / digital / call / "
    "density_log, FFT call, closed form (tolerances 1e-11*spot, 1e-11, 1e-11*max density); parity on the long vector 6.4e-14 abs; "
    "COS - closed form 8e-14 abs; COS - FFT 1.2e-6 abs = 0.04 x tolerance.  The box for n != 10000 is the same rule "
    "|phi_L(T, n*pi/(2(b-a)))| <= 1e-10 evaluated with that n; lengths beyond len*n = 2^23.75 (~270 MB per complex matrix in the "
    "unchanged code) are not generated",
    "price(product) and the notional: the statement fixes the identities, not the scaling convention of a Product's notional; the "
    "unchanged tree ignores the notional in COSPricer.price for all three contracts (s = 1, measured: price == direct method bit for "
    "bit), a tree scaling all three by the notional (s = notional) would pass as well; any mixture fails parity [0 observed, seeds 0..3]",
    "density quadrature (harness side): a failing mass / tail verdict at 2049 (4097) points is re-evaluated at 4x the points, up to "
    "8193+, before it is reported (HEM sigma = 0.008, T = 0.12: 1.8e-6 at 2049 points, 9e-14 at 8193)",
    "the arguments the closed form hands to norm.cdf are observed by replacing the name `norm` inside "
    "rpylib.numerical.closedform.cfblackscholes by a recording proxy for the duration of one call",
]
TRUSTED = ["numpy FFT / interp / trigonometric kernels, scipy.stats.norm.cdf, scipy.integrate.simpson (density mass)",
           "mpmath.quad at 30 digits (reference integrals of the exact-density replay)"]

FAMS = ["bs", "hem", "merton", "vg", "cgmy"]
WORST = {}


def note(key, value, limit):
    """remember the worst observed slack ratio value/limit per probe (goes to the evidence notes)"""
    r = float(value) / limit if limit else 0.0
    if r > WORST.get(key, (0.0, 0.0))[0]:
        WORST[key] = (r, float(value))


# ---------------------------------------------------------------------------------------------------- cases
def draw_case(rng, fam, y_branch=None):
    if fam == "bs":
        params = dict(sigma=round(rng.uniform(0.05, 0.5), 3))
    elif fam == "cgmy":
        params = zoo.draw_params(rng, fam, y_branch if y_branch is not None else rng.choice([-0.5, 0.0, 0.5, 0.5, 1.0, 1.5, 1.5]))
    else:
        params = zoo.draw_params(rng, fam)
    spot = round(rng.uniform(20, 200), 2)
    r = 0.0 if rng.random() < 0.15 else round(rng.uniform(0, 0.08), 3)
    d = round(rng.uniform(0, 0.05), 3)
    T = round(rng.uniform(0.1, 3), 2)
    m = rng.choice([11, 15, 21])
    case = dict(kind="main", fam=fam, params=params, spot=spot, r=r, d=d, T=T, m=m, hist=draw_history(rng, T))
    case["live"] = draw_live(rng, case)
    return case


# market data that are validated, SETTABLE properties of ExponentialOfLevyModel (tools/parameter.py `positive`).  Measured on the
# unchanged tree: `r` and `d` are read at call time by everything (characteristic function, mean, df, drift, closed form); `spot`
# is half cached (`log_spot` is computed once in __init__), see known finding C18-spot-assignment-stale-log-spot: the histories
# that must pass assign r / d only, the spot histories are generated separately (`draw_live(..., attrs=["spot"])`).
LIVE_RANGE = dict(r=(0.0, 0.08), d=(0.0, 0.05))


def draw_live(rng, case, attrs=None):
    """a second construction history of the SAME model: built with other market data, then the public settable attributes are
    assigned their target values on the live object (some of them twice: via an intermediate value).  `build_at` is the
    position in the list of assignments at which an 'early' COSPricer is built on the model (0 = before any assignment,
    len(steps) = after all of them); `use_early` prices with it (and asks the model for mean / df / drift) right then, so
    that anything computed lazily on first use holds the old values; the 'late' pricers are always built after the last
    assignment.  `reinit`: the starting model additionally goes through zoo.reinitialised (other parameters first)."""
    if attrs is None:
        attrs = rng.choice([["r"], ["d"], ["r", "d"], ["d", "r"], ["r", "d"]])
    start, steps = {}, []
    for a in attrs:
        tgt = case[a]
        if a == "spot":
            other = lambda: round(tgt * rng.choice([0.7, 0.85, 1.15, 1.4]), 2)
        else:
            lo, hi = LIVE_RANGE[a]
            other = lambda: round(rng.uniform(lo, hi), 3)
        vals = []
        while len(vals) < 2:
            v = other()
            if abs(v - tgt) >= (0.01 if a != "spot" else 1.0):
                vals.append(v)
        start[a] = vals[0]
        if rng.random() < 0.3:
            steps.append([a, vals[1]])
        steps.append([a, tgt])
    return dict(start=start, steps=steps, build_at=rng.randint(0, len(steps)), use_early=rng.random() < 0.6,
                reinit=rng.random() < 0.3)


REUSE_OPS = ["put", "call", "digital", "forward", "density", "price_put", "butterfly"]


def draw_history(rng, T):
    """a history for ONE pricer object: 3 distinct maturities in random order, one of them priced a second time, and a
    random interleaving of put/call/digital/forward/density/cdf/price/butterfly at each step"""
    ts = [T]
    while len(ts) < 3:
        t = round(rng.uniform(0.1, 3), 2)
        if all(abs(t - x) >= 0.05 for x in ts):
            ts.append(t)
    rng.shuffle(ts)
    ts.append(rng.choice(ts[:-1]))
    steps = []
    for t in ts:
        ops = REUSE_OPS[:]
        rng.shuffle(ops)
        steps.append(dict(T=t, ops=ops))
    return dict(steps=steps, fft=rng.random() < 0.3)


class Built:
    def __init__(self, case):
        self.case = case
        self.model = zoo.make_exp(case["fam"], case["params"], spot=case["spot"], r=case["r"], d=case["d"])
        self.cos = COSPricer(self.model, n=case["n"]) if "n" in case else COSPricer(self.model)
        self.T = T = case["T"]
        self.spot, self.r, self.d = case["spot"], case["r"], case["d"]
        self.df = math.exp(-self.r * T)
        self.F = self.spot * math.exp((self.r - self.d) * T)
        self.a, self.b = (float(x) for x in self.cos._interval_a_b(T))
        self.delta = (self.b - self.a) / 2
        ustar = self.cos.n * math.pi / (2 * (self.b - self.a))
        self.rho = float(abs(self.model.levy_model.characteristic_function(T, ustar)))
        self.inbox = bool(self.rho <= RHO_MAX and np.isfinite(self.delta) and self.delta > 0)
        if "K" in case:
            self.K = np.array(case["K"], dtype=float)
        else:
            h = STRIKE_FRACTION * self.delta
            lo, hi = self.F * max(0.5, math.exp(-h)), self.F * min(1.5, math.exp(h))
            self.K = np.linspace(lo, hi, case["m"])
            if case.get("kind") != "size":        # the long vectors of the size regimes are regenerated from (m, box), never stored
                case["K"] = [float(k) for k in self.K]
        try:
            m4 = float(self.model.std_moment(4.0, T))
        except Exception:
            m4 = float("inf")
        self.m4 = m4
        self.fftbox = bool(self.inbox and np.isfinite(m4) and 0 < m4 <= FFT_M4_MAX)
        self.cls = dict(family=case["fam"], inbox=self.inbox, discounted=bool(self.r * T > 0))


def scale_ok(x, lim):
    return bool(np.all(np.isfinite(x)) and np.max(np.abs(x)) <= lim) if np.size(x) else True


# ---------------------------------------------------------------------------------------------------- oracles (S)
def exact_probes(ctx, B):
    """hold for every model, converged or not: parity against the independent forward, vector == scalar, dispatch"""
    case, cos, T, K, spot = B.case, B.cos, B.T, B.K, B.spot
    call, put, fwdc = cos.call(K, T), cos.put(K, T), cos.forward(K, T)
    ref = B.df * (B.F - K)
    ctx.count("c18.cos.parity", case, nontrivial=B.inbox and len(K) >= 11, branch=case["fam"] + (":box" if B.inbox else ":out"))
    err = np.max(np.abs(call - put - ref))
    note("cos.parity", err, 1e-10 * spot)
    if not err <= 1e-10 * spot:
        i = int(np.argmax(np.abs(call - put - ref)))
        ctx.fail("oracle", "c18.cos.parity", case, {"what": "call - put != df*(F-K)", "K": K[i], "call": call[i], "put": put[i],
                                                   "df*(F-K)": ref[i], "tol": 1e-10 * spot}, cls=B.cls)
    err = np.max(np.abs(fwdc - ref))
    note("cos.forward", err, 1e-10 * spot)
    if not err <= 1e-10 * spot:
        i = int(np.argmax(np.abs(fwdc - ref)))
        ctx.fail("oracle", "c18.cos.forward", case, {"what": "COSPricer.forward != df*(F-K)", "K": K[i], "forward": fwdc[i],
                                                    "expected": ref[i]}, cls=B.cls)
    # vector strike == scalar strikes (scalar returns shape (1,))
    idx = sorted(set([0, len(K) // 2, len(K) - 1]))
    sc = np.array([np.asarray(cos.call(float(K[i]), T)).reshape(-1)[0] for i in idx])
    sp = np.array([np.asarray(cos.put(float(K[i]), T)).reshape(-1)[0] for i in idx])
    sd = np.array([np.asarray(cos.digital(float(K[i]), T)).reshape(-1)[0] for i in idx])
    dig = cos.digital(K, T)
    err = max(np.max(np.abs(sc - call[idx])), np.max(np.abs(sp - put[idx])), spot * np.max(np.abs(sd - dig[idx])))
    ctx.count("c18.cos.vector_scalar", case, nontrivial=B.inbox)
    note("cos.vector_scalar", err, 1e-11 * spot)
    if not err <= 1e-11 * spot:
        ctx.fail("oracle", "c18.cos.vector_scalar", case, {"scalar_calls": sc, "vector_calls": call[idx], "scalar_puts": sp,
                                                          "vector_puts": put[idx]}, cls=B.cls)
    # price(product) dispatch and butterfly
    k0 = float(K[len(K) // 2])
    pc = np.asarray(cos.price(Product(Spot(), Vanilla(k0, PayoffType.CALL), T))).reshape(-1)[0]
    pp = np.asarray(cos.price(Product(Spot(), Vanilla(k0, PayoffType.PUT), T))).reshape(-1)[0]
    pf = float(cos.price(Product(Spot(), Forward(k0), T)))
    i0 = len(K) // 2
    if not (abs(pc - call[i0]) <= 1e-11 * spot and abs(pp - put[i0]) <= 1e-11 * spot and abs(pf - fwdc[i0]) <= 1e-11 * spot):
        ctx.fail("oracle", "c18.cos.price_dispatch", case, {"price": [pc, pp, pf], "direct": [call[i0], put[i0], fwdc[i0]]}, cls=B.cls)
    return call, put, fwdc, dig


def draw_contracts(rng):
    """the same three contracts (call, put, forward sharing maturity, strike and notional) as Product objects for the generic
    entry point COSPricer.price(product), over the documented constructor arguments of Product: notional omitted (default),
    given as 1.0, a non-default positive and a negative one; strike a python float and a vector of strikes"""
    pos = rng.choice([0.25, 0.5, 2.0, 2.5, 10.0, 1000.0, round(rng.uniform(0.1, 50.0), 3)])
    neg = -rng.choice([1.0, 0.5, 3.0, round(rng.uniform(0.1, 50.0), 3)])
    return dict(notionals=[None, 1.0, pos, neg], pick=[rng.random() for _ in range(4)], kwarg=rng.random() < 0.5)


def contract_probes(ctx, B):
    """every public entry point that prices the SAME contract: the direct methods call / put / forward and the generic
    price(product), the latter with default and non-default Product constructor arguments.  Demanded (exactly the statement's
    identity, inside one entry point): price(call) - price(put) = price(forward) for three products that share maturity, strike
    and notional, and price(forward) = s * df * (F - K) with ONE factor s in {1, notional} (either scaling convention); then,
    between entry points, the three prices are that same s times the direct methods (unchanged tree: s = 1 throughout)."""
    case, cos, T, K, spot = B.case, B.cos, B.T, B.K, B.spot
    con = case["contracts"]
    m = len(K)
    idx = sorted({min(m - 1, int(u * m)) for u in con["pick"][:3]})
    shapes = [float(K[min(m - 1, int(con["pick"][3] * m))])]
    if len(idx) >= 2:
        shapes.append(K[idx].copy())
    for N in con["notionals"]:
        for k in shapes:
            kv = np.atleast_1d(np.asarray(k, dtype=float))
            def prod(payoff):
                if N is None:
                    return Product(Spot(), payoff, T)
                return Product(payoff_underlying=Spot(), payoff=payoff, maturity=T, notional=N) if con["kwarg"] else Product(Spot(), payoff, T, N)
            nv = 1.0 if N is None else float(N)
            inp = dict(case, contract=dict(notional=N, K=[float(x) for x in kv], scalar=bool(np.ndim(k) == 0)))
            cls = dict(B.cls, notional="default" if N is None else ("one" if nv == 1.0 else ("negative" if nv < 0 else "positive")))
            ctx.count("c18.price.contract_parity", inp, nontrivial=B.inbox and N is not None and nv != 1.0,
                      branch=f"{cls['notional']}:{'scalar' if np.ndim(k) == 0 else 'vector'}")
            pc = np.asarray(cos.price(prod(Vanilla(k, PayoffType.CALL))), dtype=float).reshape(-1)
            pp = np.asarray(cos.price(prod(Vanilla(k, PayoffType.PUT))), dtype=float).reshape(-1)
            pf = np.asarray(cos.price(prod(Forward(k))), dtype=float).reshape(-1)
            dc, dp, dfw = (np.asarray(f(k, T), dtype=float).reshape(-1) for f in (cos.call, cos.put, cos.forward))
            ref = B.df * (B.F - kv)
            tol = 1e-10 * spot * max(1.0, abs(nv))
            det = {"notional": N, "K": kv, "price(call)": pc, "price(put)": pp, "price(forward)": pf, "df*(F-K)": ref,
                   "call": dc, "put": dp, "forward": dfw, "tol": tol}
            if not (pc.shape == pp.shape == pf.shape == kv.shape):
                ctx.fail("oracle", "c18.price.contract_parity", inp, dict(det, what="price(product) does not return one price per strike"), cls=cls)
                continue
            err = float(np.max(np.abs(pc - pp - pf)))
            note("price.contract_parity", err, tol)
            if not err <= tol:
                ctx.fail("oracle", "c18.price.contract_parity", inp,
                         dict(det, what="price(call) - price(put) != price(forward) for products sharing maturity, strike and notional"), cls=cls)
                continue
            # the level: one common factor s in {1, notional} (the convention is not part of the statement, its consistency is)
            ok = False
            for s in (1.0, nv):
                e = max(float(np.max(np.abs(pf - s * ref))), float(np.max(np.abs(pf - s * dfw))), float(np.max(np.abs(pc - s * dc))),
                        float(np.max(np.abs(pp - s * dp))))
                if e <= tol:
                    ok = True
                    note("price.entry_points", e, tol)
                    break
            if not ok:
                ctx.fail("oracle", "c18.price.entry_points", inp,
                         dict(det, what="price(product) is not one common factor (1 or the notional) times call / put / forward = df*(F-K)"), cls=cls)


def shape_violation(K, call, put, df, F, spot):
    """the no-arbitrage band / monotonicity / convexity of the property on a uniform strike grid; None if fine"""
    tol = 1e-9 * spot
    v = max(np.max(df * np.maximum(F - K, 0.0) - call), np.max(call - df * F), np.max(df * np.maximum(K - F, 0) - put),
            np.max(put - df * K))
    if not v <= tol:
        return "bounds: intrinsic <= call <= df*F or df*(K-F)^+ <= put <= df*K violated"
    dc = np.diff(call)
    if np.max(dc) > tol:
        return "call not decreasing in the strike"
    if np.min(dc) < -df * (K[1] - K[0]) - tol:
        return "call spread exceeds df*(K2-K1)"
    if np.min(np.diff(call, 2)) < -1e-8 * spot:
        return "call not convex in the strike (second difference)"
    return None


def shape_probes(ctx, B, call, put, dig):
    case, K, spot, df, F = B.case, B.K, B.spot, B.df, B.F
    tol = 1e-9 * spot
    ctx.count("c18.cos.shape", case, nontrivial=len(K) >= 11, branch=case["fam"])
    v = max(np.max(df * np.maximum(F - K, 0.0) - call), np.max(call - df * F), np.max(df * np.maximum(K - F, 0) - put), np.max(put - df * K))
    note("cos.bounds", max(v, 0), tol)
    note("cos.monotone", max(np.max(np.diff(call)), 0), tol)
    note("cos.convex", max(-np.min(np.diff(call, 2)), 0), 1e-8 * spot)
    bad = shape_violation(K, call, put, df, F, spot)
    if bad:
        ctx.fail("oracle", "c18.cos.shape", case, {"what": bad, "K": K, "call": call, "put": put, "df": df, "F": F}, cls=B.cls)
    # butterfly as coded
    i = len(K) // 2
    bf = float(B.cos.butterfly(float(K[i - 1]), float(K[i]), float(K[i + 1]), B.T))
    if bf < -1e-8 * spot or abs(bf - (call[i - 1] - 2 * call[i] + call[i + 1])) > 1e-10 * spot:
        ctx.fail("oracle", "c18.cos.butterfly", case, {"butterfly": bf, "calls": call[i - 1:i + 2]}, cls=B.cls)
    # digital: discounted probability, decreasing
    ctx.count("c18.cos.digital", case, nontrivial=len(K) >= 11)
    v = max(np.max(-dig), np.max(dig - df), np.max(np.diff(dig)))
    note("cos.digital", max(v, 0), 1e-9)
    if v > 1e-9:
        ctx.fail("oracle", "c18.cos.digital", case, {"what": "digital outside [0, df] or increasing", "K": K, "digital": dig, "df": df}, cls=B.cls)


def density_probe(ctx, B, dig, npts=None):
    """mass / sign of the implied log-density and digital/df = its tail mass, by quadrature on a uniform grid over [a,b].  The
    quadrature error is the harness' own (a sigma ~ 0 jump-diffusion at a short maturity has a diffusion peak narrower than
    a few grid steps: measured 1.8e-6 at 2049 points, 9e-14 at 8193): a failing verdict is only issued at the finest grid"""
    case, cos, T = B.case, B.cos, B.T
    x0 = math.log(B.spot)
    first = npts is None
    if first:
        npts = 4097 if ctx.thorough else 2049
    final = npts >= 8193
    u = np.linspace(x0 + B.a, x0 + B.b, npts)
    vals = np.concatenate([cos.density_log(T, u[i:i + 512]) for i in range(0, npts, 512)])
    du = u[1] - u[0]
    mass = float(np.sum(vals) * du - 0.5 * du * (vals[0] + vals[-1]))
    if first:
        ctx.count("c18.cos.density", case)
    if not final and (np.min(vals) < -1e-8 or abs(mass - 1) > 1e-6):
        return density_probe(ctx, B, dig, 4 * (npts - 1) + 1)
    note("cos.density_min", max(-np.min(vals), 0), 1e-8)
    note("cos.density_mass", abs(mass - 1), 1e-6)
    if np.min(vals) < -1e-8 or abs(mass - 1) > 1e-6:
        ctx.fail("oracle", "c18.cos.density", case, {"what": "log-density negative below -1e-8 or mass != 1 +- 1e-6",
                                                    "min": float(np.min(vals)), "mass": mass}, cls=B.cls)
        return
    # density(s) = density_log(log s)/s
    pick = [npts // 4, npts // 2, (3 * npts) // 4]
    s = np.exp(u[pick])
    ds = cos.density(T, s)
    if np.max(np.abs(ds * s - vals[pick])) > 1e-9:
        ctx.fail("oracle", "c18.cos.density", case, {"what": "density(s)*s != density_log(log s)", "s": s, "density": ds}, cls=B.cls)
    # digital/df = P(S > K) = tail mass of the same density (Simpson on an even number of intervals)
    K = B.K
    js = [int(np.searchsorted(u, math.log(k))) for k in (K[0], K[len(K) // 2], K[-1])]
    js = [j + ((npts - 1 - j) % 2) for j in js]
    Kj = np.exp(u[js])
    dj = cos.digital(Kj, T) / B.df
    tails = np.array([simpson(vals[j:], dx=du) for j in js])
    err = float(np.max(np.abs(tails - dj)))
    if not final and err > 1e-6:
        return density_probe(ctx, B, dig, 4 * (npts - 1) + 1)
    note("cos.digital_tail", err, 1e-6)
    if err > 1e-6:
        ctx.fail("oracle", "c18.cos.digital_probability", case, {"what": "digital/df != tail mass of the implied density",
                                                                "K": Kj, "digital/df": dj, "tail": tails}, cls=B.cls)


def cdf_probe(ctx, B, dig):
    """COSPricer.cdf / ExponentialOfLevyModel.cdf document P(S_t < x); the code returns 1 - (discounted) digital"""
    case, cos, T, K = B.case, B.cos, B.T, B.K
    idx = [0, len(K) // 2, len(K) - 1]
    cdf = np.asarray(cos.cdf(T, K[idx]))
    prob = 1 - dig[idx] / B.df
    ctx.count("c18.cdf_probability", case, branch="discounted" if B.cls["discounted"] else "r=0")
    # M mirrors the code: cdf = 1 - digital
    mirrors = True
    for c, dg in zip(cdf, dig[idx]):
        out = ctx.lean(f"digital {w(B.df)} {w(dg / B.df)}").split(" ")
        if not (close(dg, rd(out[0])) and close(c, rd(out[1]))):
            mirrors = False
    if not mirrors:
        ctx.fail("corr", "c18.model.cdf", case, {"name": "Drivers/C18 digital/cdf vs COSPricer.cdf", "cdf": cdf, "digital": dig[idx]}, cls=B.cls)
    err = float(np.max(np.abs(cdf - prob)))
    # C18 states nothing about `cdf` (only that the digital is a discounted probability and that the density integrates to
    # one), so the discount factor left inside cdf = 1 - df*P(S_T > x) is recorded as an observation, not judged
    # (DESIGN.md §8.4); the correspondence above still pins the code to M's `cosCdf`.
    if err > 1e-9:
        ctx.branches["c18.observation:cdf_is_one_minus_discounted_digital"] += 1


def fft_probes(ctx, B, call, put, heavy=True):
    case, T, K, spot = B.case, B.T, B.K, B.spot
    fft = FFTPricer(B.model)
    try:
        fc = np.asarray(fft.call(K, T))
    except ValueError as e:
        if "sufficient condition" in str(e):
            ctx.branches["c18.fft.alpha_condition_rejected"] += 1
            return None
        raise
    ref = B.df * (B.F - K)
    if not heavy:
        # light cases: one FFT only (COS ~ FFT); parity / scalar / model composition of the put run on the heavy cases
        ctx.count("c18.fft", case, nontrivial=B.fftbox, branch=case["fam"] + ":light")
        if B.fftbox:
            err = np.max(np.abs(fc - call))
            note("cos_fft", err, FFT_TOL * spot)
            if err > FFT_TOL * spot:
                j = int(np.argmax(np.abs(fc - call)))
                ctx.fail("oracle", "c18.cos_fft", case, {"what": "COS and FFT calls differ", "K": K[j], "cos": call[j], "fft": fc[j],
                                                        "tol": FFT_TOL * spot}, cls=B.cls)
        return fc
    fp = np.asarray(fft.put(K, T))
    ctx.count("c18.fft", case, nontrivial=B.fftbox, branch=case["fam"] + (":box" if B.inbox else ":out"))
    err = np.max(np.abs(fc - fp - ref))
    note("fft.parity", err, 1e-10 * spot)
    if err > 1e-10 * spot:
        ctx.fail("oracle", "c18.fft.parity", case, {"what": "FFT call - put != df*(F-K)", "call": fc, "put": fp, "df*(F-K)": ref}, cls=B.cls)
    i = len(K) // 2
    s1 = float(np.asarray(fft.call(float(K[i]), T)))
    if abs(s1 - fc[i]) > 1e-11 * spot:
        ctx.fail("oracle", "c18.fft.vector_scalar", case, {"scalar": s1, "vector": fc[i]}, cls=B.cls)
    if B.fftbox:
        err = np.max(np.abs(fc - call))
        note("cos_fft", err, FFT_TOL * spot)
        if err > FFT_TOL * spot:
            j = int(np.argmax(np.abs(fc - call)))
            ctx.fail("oracle", "c18.cos_fft", case, {"what": "COS and FFT calls differ", "K": K[j], "cos": call[j], "fft": fc[j],
                                                    "tol": FFT_TOL * spot}, cls=B.cls)
    # C: the put composition
    out = ctx.lean(f"fftput {w(fc[i])} {w(np.exp(-B.model.r * T))} {w(B.model.spot * B.model.mean(T))} {w(K[i])}")
    if not close(fp[i], rd(out), scale=abs(fc[i]) + B.df * (B.F + K[i])):
        ctx.fail("corr", "c18.model.fftput", case, {"name": "Drivers/C18 fftput vs FFTPricer.put", "impl": fp[i], "model": out}, cls=B.cls)
    return fc


def bs_probes(ctx, B, call, put, dig, fc):
    case, T, K, spot, df, F = B.case, B.T, B.K, B.spot, B.df, B.F
    cf = B.model.closed_form
    c, p, g, f = (np.asarray(x) for x in (cf.call(K, T), cf.put(K, T), cf.digital(K, T), cf.forward(K, T)))
    ctx.count("c18.bs.closed_form", case)
    ref = df * (F - K)
    bad = None
    note("bs.parity", np.max(np.abs(c - p - ref)), 1e-11 * spot)
    note("bs.cos", np.max(np.abs(c - call)), 1e-10 * spot)
    note("bs.digital", np.max(np.abs(g - dig)), 1e-9)
    if np.max(np.abs(c - p - ref)) > 1e-11 * spot or np.max(np.abs(f - ref)) > 1e-11 * spot:
        bad = "closed-form parity / forward"
    elif np.max(np.abs(c - call)) > 1e-10 * spot or np.max(np.abs(p - put)) > 1e-10 * spot:
        bad = "closed form vs COS (call/put)"
    elif np.max(np.abs(g - dig)) > 1e-9:
        bad = "closed form vs COS (digital)"
    elif fc is not None and B.fftbox and np.max(np.abs(c - fc)) > FFT_TOL * spot:
        bad = "closed form vs FFT"
    elif np.max(df * np.maximum(F - K, 0) - c) > 1e-12 * spot or np.max(c - df * F) > 1e-12 * spot or np.max(np.diff(c)) > 0 \
            or np.min(np.diff(c, 2)) < -1e-11 * spot or np.max(np.diff(g)) > 0 or np.min(g) < 0 or np.max(g) > df:
        bad = "closed-form shape (bounds / monotone / convex / digital)"
    if bad:
        ctx.fail("oracle", "c18.bs.closed_form", case, {"what": bad, "K": K, "cf_call": c, "cos_call": call, "cf_put": p, "cf_digital": g,
                                                       "cos_digital": dig}, cls=B.cls)
    i = len(K) // 2
    bfly = cf.butterfly(float(K[i - 1]), float(K[i]), float(K[i + 1]), T)
    if abs(bfly - (c[i - 1] - 2 * c[i] + c[i + 1])) > 1e-11 * spot:
        ctx.fail("oracle", "c18.bs.closed_form", case, {"what": "butterfly", "butterfly": bfly, "calls": c[i - 1:i + 2]}, cls=B.cls)
    for j in (0, i, len(K) - 1):
        bs_model_corr(ctx, B, float(K[j]), T, float(c[j]), float(p[j]), float(g[j]), float(f[j]))


class _CdfRecorder:
    """stand-in for `scipy.stats.norm` inside rpylib.numerical.closedform.cfblackscholes: records every argument the
    closed form hands to `norm.cdf` (the Phi of the model) and delegates"""

    def __init__(self):
        self.args = []

    def cdf(self, x):
        self.args.append(np.asarray(x, dtype=float).reshape(-1).copy())
        return norm.cdf(x)


def recorded_phi_args(cf, k, T):
    """(args of call, args of put, args of digital) that CFBlackScholes passes to norm.cdf for the scalar strike k"""
    import rpylib.numerical.closedform.cfblackscholes as mod
    rec = _CdfRecorder()
    saved = getattr(mod, "norm", None)
    if saved is None:
        return None                      # the module does not reach Phi through the name `norm`: arguments not observable
    mod.norm = rec
    try:
        out = []
        for fn, arg in ((cf.call, k), (cf.put, k), (cf.digital, np.array([k]))):
            n0 = len(rec.args)
            fn(arg, T)
            out.append([float(a[0]) for a in rec.args[n0:]])
    finally:
        mod.norm = saved
    return out


def bs_model_corr(ctx, B, k, T, c, p, g, f):
    """C: M's Black–Scholes composition fed with the harness' own lg = log(F/k), sd = sigma*sqrt(T) (F from spot, r, d) and
    scipy's Phi values; the ARGUMENTS the implementation hands to norm.cdf (d1*flag, d2*flag in call/put, the digital's own
    d2) are recorded and compared with M's exact rational bsD1 / bsD2 / bsDigitalArg"""
    m = B.model
    sigma = float(m.parameters.sigma)
    df, fwd = float(np.exp(-m.r * T)), float(m.spot * np.exp((m.r - m.d) * T))
    sd = float(sigma * np.sqrt(T))
    lg = float(np.log(fwd / k))
    if sd > 0:
        d1 = lg / sd + 0.5 * sd
        d2 = d1 - sd
    else:
        d1 = d2 = 0.0
    P = [float(norm.cdf(x)) for x in (d1, d2, -d1, -d2)]
    line = "bs " + " ".join(w(x) for x in (fr(1) / 10 ** 8, sigma, m.spot, T, df, fwd, k, lg, sd, *P, float(np.exp(-m.d * T))))
    out = ctx.lean(line).split(" ")
    sc = df * (fwd + k)
    ok = (len(out) == 8 and close(c, rd(out[1]), scale=sc) and close(p, rd(out[2]), scale=sc) and close(g, rd(out[3]), scale=1)
          and close(f, rd(out[4]), scale=sc))
    deg_expected = sigma < 1e-8 or m.spot < 1e-8 or T < 1e-8
    if ok and (out[0] == "1") != deg_expected:
        ok = False
    args = None
    if ok and not deg_expected:
        # the arguments of Phi: M's d1, d2 and the digital's own d2 against what the code passed to norm.cdf
        args = recorded_phi_args(m.closed_form, k, T)
        md1, md2, mdg = rd(out[5]), rd(out[6]), rd(out[7])
        asc = abs(lg) / sd + sd
        want = [[md1, md2], [-md1, -md2], [mdg]]
        if args is None or [len(a) for a in args] != [2, 2, 1]:
            # Phi is reached another way than two / two / one calls of `norm.cdf`: nothing to compare (the values are compared above)
            ctx.branches["c18.observation:phi_arguments_not_observable"] += 1
        else:
            ok = all(all(close(x, y, scale=asc) for x, y in zip(a, wv)) for a, wv in zip(args, want))
            ctx.branches["c18.model.bs:phi_arguments_compared"] += 1
    if not ok:
        ctx.fail("corr", "c18.model.bs", dict(B.case, k=k, T_used=T), {"name": "Drivers/C18 bs vs CFBlackScholes (values and arguments of norm.cdf)",
                                                                      "impl": [c, p, g, f], "impl_phi_args": args, "model": out},
                 cls=B.cls)


def bs_degenerate_probe(ctx, rng):
    """degenerate branch of the closed form (sigma or T below 1e-8): intrinsic values, parity; accepted strike shapes"""
    spot = round(rng.uniform(20, 200), 2)
    r, d = round(rng.uniform(0, 0.08), 3), round(rng.uniform(0, 0.05), 3)
    which = rng.choice(["sigma", "T"])
    sigma = 1e-9 if which == "sigma" else round(rng.uniform(0.05, 0.5), 3)
    T = 1e-9 if which == "T" else round(rng.uniform(0.1, 3), 2)
    case = dict(kind="bsdeg", fam="bs", params=dict(sigma=sigma), spot=spot, r=r, d=d, T=T, m=5, which=which)
    case["K"] = [round(spot * x, 4) for x in (0.6, 0.9, 1.0 + 1e-3, 1.2, 1.5)]
    run_bs_degenerate(ctx, case)


def run_bs_degenerate(ctx, case):
    model = zoo.make_exp("bs", case["params"], spot=case["spot"], r=case["r"], d=case["d"])
    cf, T, K = model.closed_form, case["T"], np.array(case["K"])
    df, F = math.exp(-case["r"] * T), case["spot"] * math.exp((case["r"] - case["d"]) * T)
    B = type("B", (), {})()
    B.model, B.case, B.cls = model, case, dict(family="bs", degenerate=True)
    ctx.count("c18.bs.degenerate", case, branch=case["which"])
    for k in K:
        k = float(k)
        c, p, f = float(cf.call(k, T)), float(cf.put(k, T)), float(cf.forward(k, T))
        if abs(c - df * max(F - k, 0)) > 1e-12 * F or abs(p - df * max(k - F, 0)) > 1e-12 * F or abs(c - p - df * (F - k)) > 1e-12 * F \
                or abs(f - df * (F - k)) > 1e-12 * F:
            ctx.fail("oracle", "c18.bs.degenerate", case, {"what": "degenerate branch is not intrinsic / parity", "k": k, "call": c, "put": p,
                                                          "df": df, "F": F}, cls=B.cls)
            return
        g = float(np.asarray(cf.digital(np.array([k]), T))[0])
        if abs(g - (df if F > k else 0.0)) > 1e-12:
            ctx.fail("oracle", "c18.bs.degenerate", case, {"what": "degenerate digital", "k": k, "digital": g}, cls=B.cls)
            return
        bs_model_corr(ctx, B, k, T, c, p, g, f)
    # "vector and scalar strikes": the degenerate branch accepts only scalar strikes in call/put and only vectors in digital
    for fn, arg, shape in (("call", K, "vector"), ("put", K, "vector"), ("digital", float(K[0]), "scalar")):
        try:
            getattr(cf, fn)(arg, T)
        except (TypeError, ValueError) as e:
            # sigma ~ 0 is outside the documented parameter box of C18: observation only (DESIGN.md §8.4)
            ctx.branches[f"c18.observation:bs_degenerate_{fn}_raises_on_{shape}_strike"] += 1


def vg_cgmy_probe(ctx, B, call):
    """VG(sigma, nu, theta) == CGMY(c = 1/nu, g = 1/eta_m, m = 1/eta_p, y = 0)"""
    case, T, K, spot = B.case, B.T, B.K, B.spot
    p = case["params"] or dict(sigma=B.model.levy_model.parameters.sigma, nu=B.model.levy_model.parameters.nu,
                               theta=B.model.levy_model.parameters.theta)
    nu, sigma, theta = p["nu"], p["sigma"], p["theta"]
    eta_p = math.sqrt(theta ** 2 * nu ** 2 / 4 + sigma ** 2 * nu / 2) + theta * nu / 2
    eta_m = eta_p - theta * nu
    cg = zoo.make_exp("cgmy", dict(c=1 / nu, g=1 / eta_m, m=1 / eta_p, y=0), spot=spot, r=B.r, d=B.d)
    c2 = COSPricer(cg).call(K, T)
    ctx.count("c18.vg_cgmy", case)
    err = np.max(np.abs(c2 - call))
    note("vg_cgmy", err, 1e-9 * spot)
    if err > 1e-9 * spot:
        ctx.fail("oracle", "c18.vg_cgmy", case, {"what": "VG and its CGMY(y=0) parametrisation disagree", "K": K, "vg": call, "cgmy": c2}, cls=B.cls)


def _bs_call_ref(spot, k, r, d, sigma, T):
    """Black–Scholes call / digital written independently of rpylib (math.erf)"""
    fwd = spot * math.exp((r - d) * T)
    sd = sigma * math.sqrt(T)
    N = lambda z: 0.5 * (1 + math.erf(z / math.sqrt(2)))
    out_c, out_d = [], []
    for kk in k:
        d1 = math.log(fwd / kk) / sd + 0.5 * sd
        out_c.append(math.exp(-r * T) * (fwd * N(d1) - kk * N(d1 - sd)))
        out_d.append(math.exp(-r * T) * N(d1 - sd))
    return np.array(out_c), np.array(out_d)


def zero_intensity_probe(ctx, B, call, dig):
    """edge of the parameter range: a jump-diffusion with zero jump intensity IS the Black–Scholes model with the same sigma"""
    case = B.case
    ctx.count("c18.edge.zero_intensity_is_bs", case, nontrivial=True, branch=case["fam"])
    c, g = _bs_call_ref(B.spot, B.K, B.r, B.d, case["params"]["sigma"], B.T)
    e1, e2 = float(np.max(np.abs(c - call))), float(np.max(np.abs(g - dig)))
    note("edge.zero_intensity", e1, 1e-9 * B.spot)
    if e1 > 1e-9 * B.spot or e2 > 1e-9:
        ctx.fail("oracle", "c18.edge.zero_intensity_is_bs", case, {"what": "COS price of a jump-diffusion with zero intensity differs from Black-Scholes",
                                                                   "K": B.K, "cos_call": call, "bs_call": c, "cos_digital": dig, "bs_digital": g}, cls=B.cls)


def _op(cos, op, K, T, u):
    """one observable of a COSPricer at maturity T"""
    i = len(K) // 2
    if op == "put":
        return np.asarray(cos.put(K, T))
    if op == "call":
        return np.asarray(cos.call(K, T))
    if op == "digital":
        return np.asarray(cos.digital(K, T))
    if op == "forward":
        return np.asarray(cos.forward(K, T))
    if op == "density":
        return np.asarray(cos.density_log(T, u))
    if op == "cdf":
        return np.asarray(cos.cdf(T, K))
    if op == "price_put":
        return np.asarray(cos.price(Product(Spot(), Vanilla(float(K[i]), PayoffType.PUT), T))).reshape(-1)
    if op == "price_call":
        return np.asarray(cos.price(Product(Spot(), Vanilla(float(K[i]), PayoffType.CALL), T))).reshape(-1)
    if op == "butterfly":
        return np.asarray([cos.butterfly(float(K[i - 1]), float(K[i]), float(K[i + 1]), T)])
    raise ValueError(op)


def reuse_probe(ctx, B, heavy):
    """history probe: the property quantifies over all maturities of a model, so what ONE pricer object returns at a
    maturity must not depend on which maturities / products it priced before.  One COSPricer (one FFTPricer, one
    CFBlackScholes) prices strike vectors at 3 maturities in random order, one of them twice, with interleaved
    put/call/digital/forward/density/price/butterfly calls; every result is compared with a fresh object's
    (bit-for-bit on the unchanged tree, tolerance 1e-12*spot) and the shape / closed-form oracles run on the reused
    object's outputs."""
    case, spot = B.case, B.spot
    hist = case["hist"]
    base = {k: v for k, v in case.items() if k not in ("K", "hist")}
    reused = COSPricer(B.model)
    reused_cf = B.model.closed_form if case["fam"] == "bs" else None
    reused_fft = FFTPricer(B.model) if (hist.get("fft") and heavy) else None
    ctx.count("c18.cos.pricer_reuse", dict(base, hist=hist), nontrivial=True, branch=case["fam"])
    # several objects in one process: a second pricer, of a Black-Scholes model (independent closed-form reference available),
    # works at the same maturities in between; state shared between pricer objects would surface on either of them
    nb_sigma = 0.2
    nb_model = zoo.make_exp("bs", dict(sigma=nb_sigma), spot=spot, r=B.r, d=B.d)
    neighbour = COSPricer(nb_model)
    seen = []
    fresh_cache = {}                              # a fresh object's value is history-free by construction: computed once per (T, op)
    for n, step in enumerate(hist["steps"]):
        t = step["T"]
        Bt = Built(dict(base, T=t, m=5))          # fresh model + fresh pricers, each used at this single maturity only
        K = Bt.K
        u = math.log(spot) + np.linspace(Bt.a, Bt.b, 7)[1:-1]
        got = {}
        for op in step["ops"]:
            r_val = _op(reused, op, K, t, u)
            if (t, op) not in fresh_cache:
                fresh_cache[(t, op)] = _op(COSPricer(Bt.model), op, K, t, u)
            f_val = fresh_cache[(t, op)]
            got[op] = r_val
            sc = 1.0 if op in ("digital", "density", "cdf") else spot
            err = float(np.max(np.abs(r_val - f_val))) if np.all(np.isfinite(r_val)) else float("inf")
            note("cos.pricer_reuse", err, 1e-12 * sc)
            if not err <= 1e-12 * sc:
                ctx.fail("oracle", "c18.cos.pricer_reuse", dict(base, hist=hist),
                         {"what": f"COSPricer.{op} at T={t} depends on the object's history: reused object != fresh object",
                          "step": n, "maturities_priced_before": seen, "K": K, "reused": r_val, "fresh": f_val}, cls=B.cls)
                return
        seen.append(t)
        Kn = Bt.F * np.array([0.85, 1.0, 1.1])
        nb_c, nb_g = np.asarray(neighbour.call(Kn, t)), np.asarray(neighbour.digital(Kn, t))
        ref_c, ref_g = _bs_call_ref(spot, Kn, B.r, B.d, nb_sigma, t)
        if not (np.max(np.abs(nb_c - ref_c)) <= 1e-9 * spot and np.max(np.abs(nb_g - ref_g)) <= 1e-9):
            ctx.fail("oracle", "c18.cos.pricer_reuse", dict(base, hist=hist),
                     {"what": f"a second COSPricer (Black-Scholes model) used next to the first one at T={t} differs from the closed form",
                      "step": n, "K": Kn, "cos_call": nb_c, "bs_call": ref_c, "cos_digital": nb_g, "bs_digital": ref_g}, cls=B.cls)
            return
        if Bt.inbox:
            bad = shape_violation(K, got["call"], got["put"], Bt.df, Bt.F, spot)
            if bad is None and (np.max(-got["digital"]) > 1e-9 or np.max(got["digital"] - Bt.df) > 1e-9 or np.max(np.diff(got["digital"])) > 1e-9):
                bad = "digital outside [0, df] or increasing"
            if bad is None and np.max(np.abs(got["call"] - got["put"] - Bt.df * (Bt.F - K))) > 1e-10 * spot:
                bad = "call - put != df*(F-K)"
            if bad:
                ctx.fail("oracle", "c18.cos.pricer_reuse", dict(base, hist=hist),
                         {"what": f"reused COSPricer at T={t}: {bad}", "step": n, "maturities_priced_before": seen[:-1], "K": K,
                          "call": got["call"], "put": got["put"], "digital": got["digital"], "df": Bt.df, "F": Bt.F}, cls=B.cls)
                return
        if reused_cf is not None:
            c_r, p_r, g_r = (np.asarray(x) for x in (reused_cf.call(K, t), reused_cf.put(K, t), reused_cf.digital(K, t)))
            cf_f = Bt.model.closed_form
            c_f, p_f, g_f = (np.asarray(x) for x in (cf_f.call(K, t), cf_f.put(K, t), cf_f.digital(K, t)))
            if max(np.max(np.abs(c_r - c_f)), np.max(np.abs(p_r - p_f)), spot * np.max(np.abs(g_r - g_f))) > 1e-12 * spot:
                ctx.fail("oracle", "c18.bs.pricer_reuse", dict(base, hist=hist),
                         {"what": f"CFBlackScholes at T={t}: reused object != fresh object", "reused": c_r, "fresh": c_f}, cls=B.cls)
                return
            if Bt.inbox and (np.max(np.abs(c_r - got["call"])) > 1e-10 * spot or np.max(np.abs(p_r - got["put"])) > 1e-10 * spot
                             or np.max(np.abs(g_r - got["digital"])) > 1e-9):
                ctx.fail("oracle", "c18.cos.pricer_reuse", dict(base, hist=hist),
                         {"what": f"reused COSPricer at T={t} != Black-Scholes closed form", "step": n, "maturities_priced_before": seen[:-1],
                          "K": K, "cos_call": got["call"], "cf_call": c_r, "cos_put": got["put"], "cf_put": p_r}, cls=B.cls)
                return
        if reused_fft is not None and n < 2:
            try:
                f_r = np.asarray(reused_fft.call(K, t))
                p_r = np.asarray(reused_fft.put(K, t))
                fresh = FFTPricer(Bt.model)
                f_f, p_f = np.asarray(fresh.call(K, t)), np.asarray(fresh.put(K, t))
            except ValueError as e:
                if "sufficient condition" not in str(e):
                    raise
                continue
            err = max(np.max(np.abs(f_r - f_f)), np.max(np.abs(p_r - p_f)))
            if not err <= 1e-12 * spot or (Bt.fftbox and np.max(np.abs(f_r - got["call"])) > FFT_TOL * spot):
                ctx.fail("oracle", "c18.fft.pricer_reuse", dict(base, hist=hist),
                         {"what": f"FFTPricer at T={t}: reused object != fresh object / COS", "reused": f_r, "fresh": f_f, "cos": got["call"]},
                         cls=B.cls)
                return


def live_probe(ctx, B, call, put, fwdc, dig, heavy):
    """second-history probe: the property speaks about 'every exponential model', and a model is its market data and
    parameters, however the object got them.  The model of the case is reached a second way: constructed with OTHER values of
    its public settable attributes, which are then assigned on the live object (draw_live).  Judged, against references that
    the harness computes from the FINAL values only (df = exp(-rT), F = spot*exp((r-d)T)) and against the freshly built model
    B of the same final values:
      * every COSPricer holding the live model (built before, between or after the assignments: COSPricer keeps no market
        data of its own) — parity / forward, no-arbitrage shape in the box, digital in [0, df] decreasing, equal to the fresh
        model's prices, density, scalar strike;
      * the FFTPricer built AFTER the last assignment — parity, COS ~ FFT (an FFTPricer built earlier copies r and log-spot at
        construction: a don't-care, not generated);
      * the Black-Scholes closed form of the live model — equal to an rpylib-independent formula at the final values, COS, FFT.
    Each oracle fails under its own probe name with cls.oracle / cls.spot_assigned so that a known finding can name it."""
    case, T, K, spot, df, F = B.case, B.T, B.K, B.spot, B.df, B.F
    live = case["live"]
    attrs = [a for a in ("r", "d", "spot") if a in live["start"]]
    params = dict(case["params"])
    if live.get("reinit") and case["fam"] != "bs":
        params[zoo.REINIT] = True
    kw = dict(spot=case["spot"], r=case["r"], d=case["d"])
    kw.update(live["start"])
    m = zoo.make_exp(case["fam"], params, **kw)
    cls = dict(B.cls, spot_assigned="spot" in attrs, assigned="+".join(attrs))
    early = None
    steps = live["steps"]
    for n in range(len(steps) + 1):
        if n == live["build_at"]:
            early = COSPricer(m)
            if live["use_early"]:
                early.call(K, T), early.digital(K, T), early.density_log(T, np.array([math.log(spot)]))
                m.mean(T), m.df(T), m.drift()
                if case["fam"] == "bs":
                    m.closed_form.call(K, T)
        if n < len(steps):
            setattr(m, steps[n][0], steps[n][1])
    late = COSPricer(m)
    ctx.count("c18.live.assigned", case, nontrivial=B.inbox and len(K) >= 11,
              branch=f"{case['fam']}:{cls['assigned']}:early@{live['build_at']}/{len(steps)}" + (":used" if live["use_early"] else ""))
    if not (m.r == case["r"] and m.d == case["d"] and m.spot == case["spot"]):
        ctx.fail("oracle", "c18.live.parity", case, {"what": "the assigned attributes do not read back", "r": m.r, "d": m.d, "spot": m.spot}, cls=cls)
        return
    ref = df * (F - K)
    u = math.log(spot) + np.linspace(B.a, B.b, 7)[1:-1]
    dens_fresh = np.asarray(B.cos.density_log(T, u))
    i0 = len(K) // 2

    def fail(probe, oracle, what, **detail):
        ctx.fail("oracle", probe, case, dict({"what": what, "history": live, "K": K, "df": df, "F": F}, **detail), cls=dict(cls, oracle=oracle))

    got = None
    for name, cos in (("late", late), ("early", early)):
        c, p, f, g = (np.asarray(x) for x in (cos.call(K, T), cos.put(K, T), cos.forward(K, T), cos.digital(K, T)))
        if name == "late":
            got = (c, p, g)
        who = f"COSPricer built {'after the last' if name == 'late' else 'before the %d-th' % (live['build_at'] + 1)} assignment"
        err = max(float(np.max(np.abs(c - p - ref))), float(np.max(np.abs(f - ref))))
        note("live.parity", err, 1e-10 * spot)
        if not err <= 1e-10 * spot:
            fail("c18.live.parity", "parity", f"{who}: call - put or forward != df*(F-K) with df, F of the model's CURRENT r, d, spot",
                 call=c, put=p, forward=f, expected=ref)
        err = max(float(np.max(np.abs(c - call))), float(np.max(np.abs(p - put))), spot * float(np.max(np.abs(g - dig))))
        sc = float(np.asarray(cos.call(float(K[i0]), T)).reshape(-1)[0])
        err = max(err, abs(sc - float(call[i0])))
        note("live.fresh", err, 1e-10 * spot)
        if not err <= 1e-10 * spot:
            fail("c18.live.fresh_model", "prices", f"{who}: prices differ from those of a model freshly built with the same final values",
                 call=c, fresh_call=call, put=p, fresh_put=put, digital=g, fresh_digital=dig, scalar_call=sc)
        dl = np.asarray(cos.density_log(T, u))
        err = float(np.max(np.abs(dl - dens_fresh))) if np.all(np.isfinite(dl)) else float("inf")
        if not err <= 1e-9 * max(1.0, float(np.max(np.abs(dens_fresh)))):
            fail("c18.live.fresh_model", "density", f"{who}: implied log-density differs from that of a model freshly built with the same final values",
                 u=u, density_log=dl, fresh=dens_fresh)
        if B.inbox:
            bad = shape_violation(K, c, p, df, F, spot)
            if bad is None and (np.max(-g) > 1e-9 or np.max(g - df) > 1e-9 or np.max(np.diff(g)) > 1e-9):
                bad = "digital outside [0, df] or increasing"
            if bad:
                fail("c18.live.shape", "shape", f"{who}: {bad}", call=c, put=p, digital=g)
    c, p, g = got
    fc = None
    if heavy and B.fftbox:
        fft = FFTPricer(m)
        try:
            fc, fp = np.asarray(fft.call(K, T)), np.asarray(fft.put(K, T))
        except ValueError as e:
            if "sufficient condition" not in str(e):
                raise
        if fc is not None:
            err = float(np.max(np.abs(fc - fp - ref)))
            if not err <= 1e-10 * spot:
                fail("c18.live.fft_parity", "fft_parity", "FFTPricer built after the last assignment: call - put != df*(F-K) of the CURRENT r, d, spot",
                     call=fc, put=fp, expected=ref)
            err = float(np.max(np.abs(fc - c)))
            note("live.cos_fft", err, FFT_TOL * spot)
            if not err <= FFT_TOL * spot:
                fail("c18.live.cos_fft", "cos_fft", "COS and FFT pricers built after the last assignment differ", cos=c, fft=fc)
    if case["fam"] == "bs":
        cf = m.closed_form
        cc, cp, cg, cfw = (np.asarray(x) for x in (cf.call(K, T), cf.put(K, T), cf.digital(K, T), cf.forward(K, T)))
        rc, rg = _bs_call_ref(spot, K, case["r"], case["d"], case["params"]["sigma"], T)
        err = max(float(np.max(np.abs(cc - rc))), float(np.max(np.abs(cc - cp - ref))), float(np.max(np.abs(cfw - ref))), spot * float(np.max(np.abs(cg - rg))))
        if not err <= 1e-10 * spot:
            fail("c18.live.closed_form", "cf_reference", "closed form of the live model != Black-Scholes formula / parity at the final r, d, spot",
                 cf_call=cc, cf_put=cp, cf_digital=cg, reference_call=rc)
        if B.inbox and not (np.max(np.abs(cc - c)) <= 1e-10 * spot and np.max(np.abs(cp - p)) <= 1e-10 * spot and np.max(np.abs(cg - g)) <= 1e-9):
            fail("c18.live.closed_form", "cf_cos", "closed form of the live model != COS on the same live model", cf_call=cc, cos_call=c,
                 cf_digital=cg, cos_digital=g)
        if fc is not None and not np.max(np.abs(cc - fc)) <= FFT_TOL * spot:
            fail("c18.live.closed_form", "cf_fft", "closed form of the live model != FFT on the same live model", cf_call=cc, fft_call=fc)


# ---------------------------------------------------------------------------------------------------- correspondence (C)
def composition_corr(ctx, B, call, put, fwdc, dig):
    case, cos, T, K = B.case, B.cos, B.T, B.K
    m = B.model
    df_i = float(m.df(t=T))
    fwd_i = float(m.spot * m.mean(T))
    ctx.count("c18.model.composition", case, nontrivial=B.inbox)
    for i in (0, len(K) // 2, len(K) - 1):
        k = float(K[i])
        series = float(put[i] / (k * df_i))
        out = ctx.lean(f"cos {w(df_i)} {w(fwd_i)} {w(k)} {w(series)}").split(" ")
        sc = df_i * (fwd_i + k) + abs(put[i])
        if not (len(out) == 3 and close(fwdc[i], rd(out[0]), scale=sc) and close(put[i], rd(out[1]), scale=sc)
                and close(call[i], rd(out[2]), scale=sc)):
            ctx.fail("corr", "c18.model.cos", dict(case, k=k), {"name": "Drivers/C18 cos vs COSPricer.forward/put/call",
                                                              "impl": [fwdc[i], put[i], call[i]], "model": out}, cls=B.cls)
            return
    i = len(K) // 2
    bf = float(cos.butterfly(float(K[i - 1]), float(K[i]), float(K[i + 1]), T))
    out = ctx.lean(f"butterfly {w(call[i - 1])} {w(call[i])} {w(call[i + 1])}")
    if not close(bf, rd(out), scale=abs(call[i - 1]) + 2 * abs(call[i]) + abs(call[i + 1])):
        ctx.fail("corr", "c18.model.butterfly", case, {"name": "Drivers/C18 butterfly", "impl": bf, "model": out}, cls=B.cls)


def coefficient_corr(ctx, B, rng):
    """xi / psi / u_put closed forms and the first-term-halved series (small n) against M"""
    case, T = B.case, B.T
    a, b = B.a, B.b
    ks = np.array(sorted({0, 1, 2, rng.randint(3, 50), rng.randint(51, 9999)}))
    ctx.count("c18.model.coefficients", dict(case, ks=[int(k) for k in ks]), nontrivial=True)
    c, d = a, 0.0
    xi = COSPricer.xi(ks, a, b, c, d)
    psi = COSPricer.psi(ks, a, b, c, d)
    up = COSPricer.u_put(ks, a, b)
    for j, k in enumerate(ks):
        u_xi = k * np.pi / (b - a)
        u_psi = np.pi / (b - a) * k
        vals = [np.cos(u_xi * (d - a)), np.sin(u_xi * (d - a)), np.exp(d), np.cos(u_xi * (c - a)), np.sin(u_xi * (c - a)), np.exp(c)]
        out = ctx.lean("chi " + " ".join(w(float(x)) for x in [u_xi] + vals))
        # scale: the terms with |cos|, |sin| <= 1 (not their actual values): the trigonometric functions are evaluated at arguments
        # of size k*pi, whose last-bit rounding moves sin / cos by ~|argument| * 2^-52 in ABSOLUTE terms; an equivalent way of
        # forming the argument (k*pi/(b-a)*(d-a) vs pi*k*(d-a)/(b-a), np.sinc, a complex exponential) must not break the tie
        # where the exact value happens to vanish (false alarm met with the property-preserving refactor C18-ha)
        amp = max(1.0, abs(u_xi * (d - a)) / 1024, abs(u_xi * (c - a)) / 1024)     # |argument| * 2^-52 expressed in units of 2^-40 ... 2^-42
        sc = amp * (abs(vals[2]) + abs(vals[5])) * (1 + abs(u_xi)) / (1 + u_xi ** 2)
        ok = close(xi[j], rd(out), scale=max(sc, 1e-300))
        s_d, s_c = float(np.sin(u_psi * (d - a))), float(np.sin(u_psi * (c - a)))
        out2 = ctx.lean(f"psi {1 if k == 0 else 0} {w(float(u_psi))} {w(s_d)} {w(s_c)} {w(c)} {w(d)}")
        sc2 = 2.0 * amp / u_psi if k else abs(d) + abs(c)
        ok = ok and close(psi[j], rd(out2), scale=max(sc2, 1e-300))
        out3 = ctx.lean(f"uput {w(a)} {w(b)} {w(float(xi[j]))} {w(float(psi[j]))}")
        ok = ok and close(up[j], rd(out3), scale=2 / (b - a) * (abs(xi[j]) + abs(psi[j])))
        if not ok:
            ctx.fail("corr", "c18.model.coefficients", dict(case, k=int(k)), {"name": "Drivers/C18 chi/psi/uput vs COSPricer.xi/psi/u_put",
                                                                            "impl": [xi[j], psi[j], up[j]], "model": [out, out2, out3]}, cls=B.cls)
            return
    # series with n = 24 terms: the harness evaluates the transform, M assembles the put / the digital
    n = 24
    small = COSPricer(B.model, n=n)
    k = float(B.K[len(B.K) // 2])
    m = B.model
    df_i = float(m.df(t=T))
    x = math.log(m.spot / k)
    cst = np.arange(n) * np.pi / (b - a)
    phi = small.cf(t=T, x=cst) * np.exp(-1j * cst * m.x0_value()) * np.exp(1j * (x - a) * cst)
    uk = COSPricer.u_put(np.arange(n), a, b)
    terms = (phi * uk).real
    out = ctx.lean(f"terms {w(df_i)} {w(k)} {wl([float(t) for t in terms])}")
    p_small = float(np.asarray(small.put(k, T)).reshape(-1)[0])
    sc = k * df_i * float(np.sum(np.abs(terms)))
    ok = close(p_small, rd(out), scale=max(sc, 1e-300))
    # the same put / digital with the real parts of the transform and the coefficients handed over separately: M multiplies,
    # halves the first product and applies cosPut / cosDigital (the object `Cos.cosSeries` of the exactness theorems)
    out_s = ctx.lean(f"series {w(df_i)} {w(k)} {wl([float(t) for t in phi.real])} {wl([float(t) for t in uk])}").split(" ")
    sc_s = k * df_i * float(np.sum(np.abs(phi.real * uk)))
    ok = ok and len(out_s) == 2 and close(p_small, rd(out_s[0]), scale=max(sc_s, 1e-300))
    vk = 2 / (b - a) * COSPricer.psi(np.arange(n), a, b, 0.0, b)
    vk_model = []
    psi_b = COSPricer.psi(np.arange(n), a, b, 0.0, b)
    for j in range(0, n, 7):
        vk_model.append((vk[j], rd(ctx.lean(f"vdig {w(a)} {w(b)} {w(float(psi_b[j]))}"))))
    ok = ok and all(close(p, q, scale=max(abs(fr(p)), fr(1) / 10 ** 300)) for p, q in vk_model)
    dterms = (phi * vk).real
    out_d = ctx.lean(f"terms {w(df_i)} 1 {wl([float(t) for t in dterms])}")
    d_small = float(np.asarray(small.digital(k, T)).reshape(-1)[0])
    ok = ok and close(d_small, rd(out_d), scale=max(df_i * float(np.sum(np.abs(dterms))), 1e-300))
    if not ok:
        ctx.fail("corr", "c18.model.series", dict(case, k=k, n=n), {"name": "Drivers/C18 terms (first term halved) vs COSPricer(n=24).put/digital",
                                                                    "impl": [p_small, d_small], "model": [out, out_d]}, cls=B.cls)


# ---------------------------------------------------------------------------------------------------- exactness of COS (theorem tie)
class _FakeCumulant:
    def __init__(self, c1, c2):
        self.c1, self.c2 = c1, c2

    def cumulant1(self, t):
        return self.c1

    def cumulant2(self, t):
        return self.c2

    def cumulant4(self, t):
        return 0.0

    def cumulant6(self, t):
        return 0.0


class _CosPolyModel:
    """a duck-typed model whose log-return X has, for ONE chosen strike, a log-moneyness density y = log(spot/K) + X that
    vanishes outside the pricer's interval [a,b] and is an N-term cosine polynomial there (hypotheses (T) and (S) of
    cos_put_exact / cos_digital_exact).  Only what COSPricer reads is provided: spot, cumulant, x0_value, df,
    characteristic_function (of log S_T)."""

    def __init__(self, spot, r, c1, c2):
        self.spot, self.r = spot, r
        self.cumulant = _FakeCumulant(c1, c2)
        self.A = None

    def x0_value(self):
        return math.log(self.spot)

    def df(self, t):
        return math.exp(-self.r * t)

    def set_density(self, a, b, A, x):
        self.a, self.b, self.A, self.x = a, b, np.asarray(A, dtype=float), x

    def characteristic_function(self, t, x):
        """E exp(i u log S_T) = exp(i u (log spot - x_shift)) * int_a^b f(y) exp(i u y) dy, f = sum' A_k cos(w_k (y-a))"""
        u = np.asarray(x, dtype=float)
        L = self.b - self.a
        tot = np.zeros(u.shape, dtype=complex)
        for k, Ak in enumerate(self.A):
            wk = k * np.pi / L
            part = np.zeros(u.shape, dtype=complex)
            for sgn in (1.0, -1.0):
                z = u + sgn * wk
                small = np.abs(z) * L < 1e-9
                zz = np.where(small, 1.0, z)
                val = np.where(small, L + 0j, (np.exp(1j * zz * L) - 1.0) / (1j * zz))
                part += 0.5 * val
            tot += (0.5 if k == 0 else 1.0) * Ak * part
        return tot * np.exp(1j * u * self.a) * np.exp(1j * u * (math.log(self.spot) - self.x))


def draw_exact_case(rng):
    N = rng.randint(2, 7)
    lo, hi = round(rng.uniform(0.3, 1.5), 3), round(rng.uniform(0.3, 1.5), 3)
    return dict(kind="exact", spot=round(rng.uniform(20, 200), 2), r=round(rng.uniform(0, 0.08), 3), T=round(rng.uniform(0.1, 3), 2),
                ratio=round(rng.uniform(0.7, 1.4), 3), lo=lo, hi=hi, nterms=N + rng.choice([0, 1, 9, 40]),
                A=[round(rng.uniform(-0.6, 0.6), 3) for _ in range(N - 1)])


def exact_density_probe(ctx, case):
    """replays cos_put_exact / cos_digital_exact (Proofs/C18.lean) on the implementation: for a density satisfying (T) and
    (S) the real COSPricer must return df*K*int (1-e^y)^+ f(y) dy and df*int_{y>0} f(y) dy up to rounding, the transform values
    it evaluates must be (b-a)/2 * A_k (orthogonality), and M's `series` (halved-first sum of reCoef_k * V_k, then cosPut /
    cosDigital) fed with those exact reCoef_k and the code's own coefficients must give the same numbers"""
    import mpmath
    spot, r, T = case["spot"], case["r"], case["T"]
    K = spot * case["ratio"]
    x = math.log(spot / K)
    lo, hi = case["lo"], case["hi"]                       # intended a = -lo, b = hi
    model = _CosPolyModel(spot, r, c1=(hi - lo) / 2, c2=((hi + lo) / 20.0) ** 2)
    n = case["nterms"]
    cos = COSPricer(model, n=n)                           # l = 10: delta = 10*sqrt(c2) = (hi+lo)/2
    a, b = (float(v) for v in cos._interval_a_b(T))
    ctx.count("c18.cos.exact_density", case, nontrivial=True, branch=f"N={len(case['A']) + 1}")
    if not (a < 0 < b):
        raise RuntimeError("exact-density generator: interval does not contain 0")
    L = b - a
    A = [2.0 / L] + [v * 2.0 / L for v in case["A"]]      # mass 1
    model.set_density(a, b, A, x)
    df = math.exp(-r * T)
    put = float(np.asarray(cos.put(K, T)).reshape(-1)[0])
    dig = float(np.asarray(cos.digital(K, T)).reshape(-1)[0])
    # reference integrals, 30 digits
    mpmath.mp.dps = 30
    f = lambda y: sum((0.5 if k == 0 else 1.0) * mpmath.mpf(Ak) * mpmath.cos(k * mpmath.pi * (y - a) / L) for k, Ak in enumerate(A))
    ref_put = df * K * mpmath.quad(lambda y: (1 - mpmath.exp(y)) * f(y), [a, 0])
    ref_dig = df * mpmath.quad(f, [0, b])
    sc = df * K * sum(abs(v) for v in A) * L
    e1, e2 = abs(put - float(ref_put)), abs(dig - float(ref_dig))
    note("cos.exact_put", e1, 1e-11 * sc)
    note("cos.exact_digital", e2, 1e-11 * sc / K)
    if not (e1 <= 1e-11 * sc and e2 <= 1e-11 * sc / K):
        ctx.fail("corr", "c18.model.exact_density", case, {"name": "theorem cos_put_exact / cos_digital_exact vs COSPricer on a density with no "
                                                                   "truncation and no series error", "put": put, "expected_put": float(ref_put),
                                                           "digital": dig, "expected_digital": float(ref_dig), "a": a, "b": b, "K": K},
                 cls=dict(family="cospoly"))
        return
    # M: series of exact reCoef_k = (b-a)/2 * A_k (k < N, 0 beyond: orthogonality) times the code's own coefficients
    ks = np.arange(n)
    re_exact = [fr(L) / 2 * fr(A[k]) if k < len(A) else fr(0) for k in range(n)]
    up = COSPricer.u_put(ks, a, b)
    vd = 2 / (b - a) * COSPricer.psi(ks, a, b, 0.0, b)
    out_p = ctx.lean(f"series {w(df)} {w(K)} {wl(re_exact)} {wl([float(v) for v in up])}").split(" ")
    out_d = ctx.lean(f"series {w(df)} 1 {wl(re_exact)} {wl([float(v) for v in vd])}").split(" ")
    scp = K * df * float(sum(abs(float(q)) * abs(v) for q, v in zip(re_exact, up)))
    scd = df * float(sum(abs(float(q)) * abs(v) for q, v in zip(re_exact, vd)))
    ok = (len(out_p) == 2 and len(out_d) == 2 and abs(fr(put) - rd(out_p[0])) <= fr(1e-11) * fr(max(scp, 1e-300))
          and abs(fr(dig) - rd(out_d[1])) <= fr(1e-11) * fr(max(scd, 1e-300)))
    # the transform values the code evaluates, against the orthogonality prediction
    cst = ks * np.pi / (b - a)
    re_code = (model.characteristic_function(T, cst) * np.exp(-1j * cst * model.x0_value()) * np.exp(1j * (x - a) * cst)).real
    if ok and float(np.max(np.abs(re_code - np.array([float(q) for q in re_exact])))) > 1e-12 * sum(abs(v) for v in A) * L:
        ok = False
    if not ok:
        ctx.fail("corr", "c18.model.exact_density", case, {"name": "Drivers/C18 series (exact reCoef x code coefficients) vs COSPricer.put/digital",
                                                           "put": put, "digital": dig, "model_put": out_p, "model_digital": out_d}, cls=dict(family="cospoly"))


# ---------------------------------------------------------------------------------------------------- size regimes
# The property quantifies over "vector and scalar strikes" without a bound on the length of the vector.  The pricers are
# element-wise in the strike (COSPricer builds a len(strikes) x n matrix, FFTPricer interpolates, the closed form is a numpy
# expression), so: pricing a vector == pricing each of its elements alone, at EVERY length, and the statement's own oracles
# (parity, bounds, monotone, convex, digital a decreasing discounted probability, COS ~ closed form ~ FFT) hold on the long
# vector as a whole.  Generated: lengths 1, 2, 3, ... around powers of two, odd / even / prime, a few hundred, and lengths
# with len * n in [2^22, 2^23.75] (n = COS terms: the default 10000 and 128 ... 16384), sorted or shuffled.
SIZE_SMALL = [1, 2, 3, 4, 5, 7, 8, 16, 31, 32, 33, 64, 97, 127, 128, 129, 255, 256, 257]
SIZE_N = [128, 512, 2048, 4096, 16384]      # non-default numbers of COS terms
SIZE_N_DEFAULT = 10_000
SIZE_PART = 2 ** 18                         # a part of the element-wise reference holds at most this many matrix entries (>= 32 strikes)


def _next_prime(m):
    m = max(2, int(m))
    while any(m % q == 0 for q in range(2, int(math.isqrt(m)) + 1)):
        m += 1
    return m


def draw_size_case(rng, regime, fam=None, n=None):
    """regime 'small': a length of SIZE_SMALL; 'hundreds': 200..420; 'large': len * n log-uniform in [2^22, 2^23.75] (default n)
    resp. [2^22, 2^23.25] (other n).  The length is taken as drawn (odd or even) or moved to the next prime (always for the
    default-n large case: a prime length is divisible by no block count)."""
    fam = fam or rng.choice(FAMS)
    if n is None:
        n = SIZE_N_DEFAULT if (regime != "small" or rng.random() < 0.5) else rng.choice(SIZE_N)
    base = draw_case(rng, fam, y_branch=rng.choice([0.5, 1.0, 1.5]) if fam == "cgmy" else None)
    if regime == "small":
        m = rng.choice(SIZE_SMALL)
    elif regime == "hundreds":
        m = rng.randint(200, 420)
    else:
        top = 23.75 if n == SIZE_N_DEFAULT else 23.25
        m = int(2 ** rng.uniform(22.03, top) / n) + 1
        if n == SIZE_N_DEFAULT or rng.random() < 0.5:
            m = _next_prime(m)
    return dict(kind="size", regime=regime, fam=fam, params=base["params"], spot=base["spot"], r=base["r"], d=base["d"], T=base["T"],
                n=n, m=m, order=rng.choice(["sorted", "sorted", "shuffled"]), part_seed=rng.randint(0, 10 ** 6))


def _parts(rng, m, cmax):
    """a partition of range(m) into consecutive parts of random sizes 1..cmax"""
    sizes, i = [], 0
    while i < m:
        s = min(rng.randint(1, cmax), m - i)
        sizes.append(s)
        i += s
    return sizes


def _elementwise(fn, X, sizes):
    """fn on the parts of X one after the other; a part of size one is handed over as a python float (a scalar strike)"""
    out, i = [], 0
    for s in sizes:
        arg = float(X[i]) if s == 1 else X[i:i + s]
        out.append(np.asarray(fn(arg)).reshape(-1))
        i += s
    return np.concatenate(out)


def _worst(x):
    x = np.abs(np.asarray(x, dtype=float))
    if not np.all(np.isfinite(x)):
        return int(np.argmax(~np.isfinite(x))), float("inf")
    i = int(np.argmax(x))
    return i, float(x[i])


def size_probe(ctx, case):
    import random
    B = Built(case)
    cos, T, K, spot, df, F, n, m = B.cos, B.T, B.K, B.spot, B.df, B.F, case["n"], case["m"]
    prng = random.Random(case["part_seed"])
    cls = dict(B.cls, regime=case["regime"], default_n=(n == SIZE_N_DEFAULT))
    info = {"len(strikes)": m, "n": n, "len*n / 2^22": m * n / 2 ** 22, "order": case["order"], "K[0]": float(K[0]), "K[-1]": float(K[-1])}
    ctx.count("c18.size.vector_elementwise", case, nontrivial=True,
              branch=f"{case['regime']}:{'n=default' if n == SIZE_N_DEFAULT else 'n=other'}:{'box' if B.inbox else 'out'}")
    ctx.branches[f"c18.size:len*n>=2^{min(24, max(0, int(math.log2(m * n))))}"] += 1

    def fail(probe, what, **detail):
        ctx.fail("oracle", probe, case, dict(info, what=what, **detail), cls=cls)

    # the vector as handed to the pricers: sorted, or in a random order (results are put back into strike order)
    perm = np.arange(m)
    if case["order"] == "shuffled":
        perm = np.array(prng.sample(range(m), m), dtype=int)
    Kv = K[perm]

    def vec(fn):
        out = np.asarray(fn(Kv), dtype=float).reshape(-1)
        if out.shape != (m,):
            return np.full(m, np.nan)
        back = np.empty(m)
        back[perm] = out
        return back

    # element-wise reference: every element alone for short vectors, otherwise consecutive parts of random sizes (>= 32 strikes
    # possible, <= SIZE_PART matrix entries, size-one parts as python floats) plus the ends and random single strikes
    cmax = 1 if m <= 33 else max(32, SIZE_PART // n)
    sizes = _parts(prng, m, cmax)
    singles = sorted({0, m - 1, m // 2} | {prng.randrange(m) for _ in range(8)})
    call, put, dig, fwdc = (vec(lambda k, f=f: f(k, T)) for f in (cos.call, cos.put, cos.digital, cos.forward))
    for name, fn, v, sc in (("put", cos.put, put, spot), ("digital", cos.digital, dig, 1.0)):
        ref = _elementwise(lambda k: fn(k, T), K, sizes)
        i, err = _worst(v - ref)
        note("size.elementwise", err, 1e-11 * sc)
        if not err <= 1e-11 * sc:
            fail("c18.size.vector_elementwise", f"COSPricer.{name} of a strike vector != the same strikes priced alone / in short parts",
                 index=i, K=K[i], vector=v[i], alone=ref[i], tol=1e-11 * sc, nb_differing=int(np.sum(~(np.abs(v - ref) <= 1e-11 * sc))))
            break
    else:
        one = np.array([np.asarray(cos.call(float(K[i]), T)).reshape(-1)[0] for i in singles])
        i, err = _worst(call[singles] - one)
        if not err <= 1e-11 * spot:
            fail("c18.size.vector_elementwise", "COSPricer.call of a strike vector != the same strikes priced alone (scalar strikes)",
                 index=singles[i], K=K[singles[i]], vector=call[singles[i]], alone=one[i], tol=1e-11 * spot)
    # parity / forward against the independent forward on the whole vector
    ref = df * (F - K)
    i, err = _worst(call - put - ref)
    j, err2 = _worst(fwdc - ref)
    note("size.parity", max(err, err2), 1e-10 * spot)
    if not max(err, err2) <= 1e-10 * spot:
        i = i if err >= err2 else j
        fail("c18.size.parity", "call - put or forward != df*(F-K) on the long vector", index=i, K=K[i], call=call[i], put=put[i],
             forward=fwdc[i], expected=ref[i], tol=1e-10 * spot)
    # the statement's shape oracles on the whole vector (box only)
    if B.inbox:
        tol = 1e-9 * spot
        bad = None
        if m >= 3:
            bad = shape_violation(K, call, put, df, F, spot)
        elif not max(np.max(df * np.maximum(F - K, 0.0) - call), np.max(call - df * F), np.max(df * np.maximum(K - F, 0) - put),
                     np.max(put - df * K)) <= tol:
            bad = "bounds: intrinsic <= call <= df*F or df*(K-F)^+ <= put <= df*K violated"
        if bad is None and not (np.max(-dig) <= 1e-9 and np.max(dig - df) <= 1e-9 and (m < 2 or np.max(np.diff(dig)) <= 1e-9)):
            bad = "digital outside [0, df] or increasing in the strike"
        if bad:
            fail("c18.size.shape", bad + " on the long vector", call_min=float(np.min(call)), call_max=float(np.max(call)),
                 max_call_increment=float(np.max(np.diff(call))) if m > 1 else 0.0,
                 min_second_difference=float(np.min(np.diff(call, 2))) if m > 2 else 0.0,
                 digital_range=[float(np.min(dig)), float(np.max(dig))], df=df, F=F)
    # the implied log-density on a long vector of points: vector == parts; non-negative in the box
    if case.get("density", True):
        u = math.log(spot) + np.linspace(B.a, B.b, m + 2)[1:-1]
        dv = np.asarray(cos.density_log(T, u[perm]), dtype=float).reshape(-1)
        dens = np.empty(m)
        dens[perm] = dv if dv.shape == (m,) else np.nan
        ref = np.concatenate([np.asarray(cos.density_log(T, u[i:i + s])).reshape(-1) for i, s in zip(np.cumsum([0] + sizes[:-1]), sizes)])
        top = max(1.0, float(np.max(np.abs(ref))))
        i, err = _worst(dens - ref)
        if not err <= 1e-11 * top:
            fail("c18.size.density", "COSPricer.density_log of a vector of points != the same points evaluated in short parts",
                 index=i, u=u[i], vector=dens[i], parts=ref[i], tol=1e-11 * top)
        elif B.inbox and np.min(dens) < -1e-8:
            fail("c18.size.density", "implied log-density negative below -1e-8 on the long vector", min=float(np.min(dens)))
    # Black-Scholes closed form on the same long vector: vector == elements, COS ~ closed form (all elements, independent reference)
    if case["fam"] == "bs":
        cf = B.model.closed_form
        cc, cp, cg = (vec(lambda k, f=f: f(k, T)) for f in (cf.call, cf.put, cf.digital))
        rc = _elementwise(lambda k: cf.call(k, T), K, sizes)
        rg = _elementwise(lambda k: cf.digital(np.atleast_1d(k), T), K, sizes)
        i, err = _worst(cc - rc)
        j, err2 = _worst(cg - rg)
        if not (err <= 1e-11 * spot and err2 <= 1e-11):
            fail("c18.size.closed_form", "CFBlackScholes call / digital of a strike vector != the same strikes priced alone",
                 index=i, K=K[i], vector=cc[i], alone=rc[i], digital_vector=cg[j], digital_alone=rg[j])
        elif not np.max(np.abs(cc - cp - df * (F - K))) <= 1e-11 * spot:
            fail("c18.size.closed_form", "closed-form parity on the long vector")
        elif B.inbox:
            i, err = _worst(cc - call)
            j, err2 = _worst(cg - dig)
            note("size.bs_cos", err, 1e-10 * spot)
            if not (err <= 1e-10 * spot and np.max(np.abs(cp - put)) <= 1e-10 * spot and err2 <= 1e-9):
                fail("c18.size.closed_form", "COS != Black-Scholes closed form on the long vector", index=i, K=K[i], cos_call=call[i],
                     cf_call=cc[i], cos_digital=dig[j], cf_digital=cg[j], tol=1e-10 * spot)
    # FFT pricer on the same long vector: parity, vector == a few parts and single strikes, COS ~ FFT in the FFT box
    if case.get("fft"):
        fft = FFTPricer(B.model)
        try:
            fc, fp = vec(lambda k: fft.call(k, T)), vec(lambda k: fft.put(k, T))
            cuts = sorted({0, m, prng.randrange(m + 1)})
            rf = np.concatenate([np.asarray(fft.call(float(K[a0]) if b0 - a0 == 1 else K[a0:b0], T)).reshape(-1)
                                 for a0, b0 in zip(cuts[:-1], cuts[1:])])
            js = singles[len(singles) // 2]
            one = float(np.asarray(fft.call(float(K[js]), T)))
        except ValueError as e:
            if "sufficient condition" not in str(e):
                raise
            ctx.branches["c18.fft.alpha_condition_rejected"] += 1
            return B
        i, err = _worst(fc - rf)
        if not (err <= 1e-11 * spot and abs(one - fc[js]) <= 1e-11 * spot):
            fail("c18.size.fft", "FFTPricer.call of a strike vector != the same strikes priced in parts / alone", index=i, K=K[i],
                 vector=fc[i], parts=rf[i])
        elif not np.max(np.abs(fc - fp - df * (F - K))) <= 1e-10 * spot:
            fail("c18.size.fft", "FFT call - put != df*(F-K) on the long vector")
        elif B.fftbox:
            i, err = _worst(fc - call)
            note("size.cos_fft", err, FFT_TOL * spot)
            if not err <= FFT_TOL * spot:
                fail("c18.size.fft", "COS and FFT calls differ on the long vector", index=i, K=K[i], cos=call[i], fft=fc[i], tol=FFT_TOL * spot)
    return B


def size_cases(ctx, rng):
    """the size regimes of one run (quick: 4 short, 1 of a few hundred, 3 with len * n in [2^22, 2^23.75])"""
    def inbox_case(regime, n=None, fam=None):
        for _ in range(8):
            case = draw_size_case(rng, regime, fam=fam, n=n)
            if Built(dict(case, m=3)).inbox:
                break
        return case

    for _ in range(ctx.n(4, 12)):
        case = draw_size_case(rng, "small")
        case["fft"] = rng.random() < 0.25
        size_probe(ctx, case)
    for _ in range(ctx.n(1, 3)):
        size_probe(ctx, inbox_case("hundreds"))
    # long vectors: the default n first (in the box, so that the shape oracles run; FFT on the same vector), then other n
    for i in range(ctx.n(1, 3)):
        case = inbox_case("large", n=SIZE_N_DEFAULT)
        case["fft"] = i == 0
        size_probe(ctx, case)
    ns = SIZE_N[:]
    rng.shuffle(ns)
    for i, n in enumerate(ns[:ctx.n(2, 5)]):
        case = draw_size_case(rng, "large", n=n) if i % 2 else inbox_case("large", n=n)
        case["density"] = i == 0
        size_probe(ctx, case)


# ---------------------------------------------------------------------------------------------------- driver
def run_case(ctx, case, rng, heavy=True):
    if "hist" not in case:
        case["hist"] = draw_history(rng, case["T"])
    if "live" not in case:
        case["live"] = draw_live(rng, case)
    if "contracts" not in case:
        case["contracts"] = draw_contracts(rng)
    B = Built(case)
    ctx.branches[f"box:{case['fam']}:{'in' if B.inbox else 'out'}"] += 1
    if B.inbox and not B.fftbox:
        ctx.branches["box:fft_excluded_heavy_tail"] += 1
    call, put, fwdc, dig = exact_probes(ctx, B)
    contract_probes(ctx, B)
    composition_corr(ctx, B, call, put, fwdc, dig)
    coefficient_corr(ctx, B, rng)
    cdf_probe(ctx, B, dig)
    reuse_probe(ctx, B, heavy)
    live_probe(ctx, B, call, put, fwdc, dig, heavy)
    fc = fft_probes(ctx, B, call, put, heavy) if heavy or B.inbox else None
    if not B.inbox:
        return B
    shape_probes(ctx, B, call, put, dig)
    if case.get("edge") and case["params"].get("intensity") == 0.0:
        zero_intensity_probe(ctx, B, call, dig)
    if heavy:
        density_probe(ctx, B, dig)
    if case["fam"] == "bs":
        bs_probes(ctx, B, call, put, dig, fc)
    if case["fam"] == "vg":
        vg_cgmy_probe(ctx, B, call)
    return B


def run(ctx):
    import random
    rng = ctx.rng
    per_family = ctx.n(6, 40)
    # defaults of every family first
    for fam in FAMS:
        case = dict(kind="main", fam=fam, params=dict(sigma=0.2) if fam == "bs" else {}, spot=100.0, r=0.02, d=0.01, T=1.0, m=21)
        run_case(ctx, case, rng)
    for i in range(per_family):
        for fam in FAMS:
            case = draw_case(rng, fam)
            if fam != "bs" and i % 3 == 1:
                # the same kind of model, rebuilt through an edited and re-initialised parameter object (calibration idiom)
                case["params"] = dict(case["params"], **{zoo.REINIT: True})
            run_case(ctx, case, rng, heavy=(i % 2 == 0) or ctx.thorough)
    # every CGMY branch of the activity index at least once (y<0 and small-cT y=0 fall outside the box: exact probes only)
    for y in zoo.CGMY_Y_BRANCHES:
        run_case(ctx, draw_case(rng, "cgmy", y), rng, heavy=False)
    for _ in range(ctx.n(4, 20)):
        bs_degenerate_probe(ctx, rng)
    for _ in range(ctx.n(6, 40)):
        exact_density_probe(ctx, draw_exact_case(rng))
    # edge of the declared parameter ranges: zero jump intensity (the model IS Black-Scholes with the same sigma: the BS
    # closed form is the reference), HEM p = 1 (no negative jumps)
    for _ in range(ctx.n(1, 4)):
        for fam, extra in (("merton", dict(intensity=0.0)), ("hem", dict(intensity=0.0)), ("hem", dict(p=1.0))):
            case = draw_case(rng, fam)
            case["params"] = dict(case["params"], **extra)
            if extra.get("intensity") == 0.0:
                case["params"]["sigma"] = max(case["params"]["sigma"], 0.05)
            case["edge"] = True
            run_case(ctx, case, rng, heavy=False)
    # the third settable market datum: `spot` assigned on a live model (alone, so that these histories never shadow the r / d
    # ones).  COS call / put / digital and the closed form read it at call time; known finding C18-spot-assignment-stale-log-spot
    fams = FAMS[1:]
    rng.shuffle(fams)
    for j, fam in enumerate(["bs"] + fams[:ctx.n(2, 4)]):
        case = draw_case(rng, fam, y_branch=1.5 if fam == "cgmy" else None)
        case["live"] = draw_live(rng, case, attrs=["spot"])
        run_case(ctx, case, rng, heavy=(j <= 1) or ctx.thorough)
    # size regimes: strike vectors (and density points) of length 1 ... len * n = 2^23.75, several n, against the elements priced alone
    size_cases(ctx, rng)
    for k, (ratio, val) in sorted(WORST.items()):
        ctx.notes.append(f"worst observed {k}: {val:.3e} = {ratio:.3g} x tolerance")


def search(ctx):
    """extended oracle search when only the tie broke"""
    rng = ctx.rng
    for _ in range(ctx.n(10, 30)):
        for fam in FAMS:
            run_case(ctx, draw_case(rng, fam), rng, heavy=True)


def replay(ctx, rec):
    import random
    case = {k: v for k, v in rec["input"].items() if k not in ("k", "ks", "n", "T_used", "contract")}
    rng = random.Random(0)
    if case.get("kind") == "bsdeg":
        run_bs_degenerate(ctx, case)
    elif case.get("kind") == "exact":
        exact_density_probe(ctx, case)
    elif case.get("kind") == "size":
        size_probe(ctx, case)
    else:
        run_case(ctx, case, rng)
