"""C17 — Payoffs and underlyings are pure functions of the path obeying static identities (DESIGN.md §4 C17).

C (correspondence): random operation sequences `update(rep)` / `underlying_value(times, path, jump_path)` / `__call__`
on one rpylib `Product` object per (underlying class x payoff class), mirrored operation by operation on the Lean state
machine `Rpylib.Payoff.step` through Drivers/C17.lean.
S (property oracle, independent of M): (i) history — every path evaluated on the used object is also evaluated on a
fresh object built from the same terms and updated once with the current representation: the two values must be
identical; (ii) the static identities evaluated on the implementation; (iii) identity vs log representation on the same
spot path.
"""
from __future__ import annotations

import copy
import math
import warnings
from fractions import Fraction

import numpy as np

from ..common import w, wl, wll, rd, rdl, close, fr

from rpylib.process.process import ProcessRepresentation as PR
from rpylib.product import payoff as po
from rpylib.product import underlying as un
from rpylib.product.product import Product

RULE = ("products = every compatible (underlying class x payoff class) pair: Spot/Libors, LogSpot, Asian, Mean, Performances, "
        "MaximumOfPerformances, NthSpot, Indicators, DefaultTime, DefaultTimeNthUnderlying, NthDefaultTimes x FixedCoupon, Forward, "
        "Vanilla (scalar / vector strike), CallSpread, Butterfly, Digital, Barrier (4 types), Rainbow, CDS, Bond, Cap, Ratchet, "
        "Swaption; per product a random sequence of 3..9 operations (update(IDENDITY|LOG) with prob. 0.3, else a path of 2..6 "
        "dates, 1..3 underlyings, entries on the dyadic grid k/8, strikes/barriers on k/8 (hits) or k/16 (no hits), jump paths "
        "made of powers of two / dyadic log increments around dyadic thresholds). Paths are drawn in the representation set by "
        "the last update. non-trivial = the sequence contains >= 2 paths or an update before a path; distinct = distinct "
        "(terms, sequence). Don't-care (generated, checked only for 'no exception, admissible value', not compared with M): "
        "Digital/Indicators with the underlying exactly at the strike/threshold, Barrier with a path value exactly at the "
        "barrier, a jump increment exactly equal to the default threshold. Exact comparison (float == correctly rounded model "
        "rational) for identity-representation underlyings and the elementary payoffs on small dyadic inputs, 2^-40 relative to "
        "the sum of magnitudes otherwise. Excluded: LookBack (process raises ValueError by design: 'it depends on the process "
        "representation'), PayoffOnTheFly, shapes a class was not written for (Barrier / DefaultTime on 2-d paths, NthSpot / "
        "multi-name default times on 1-d paths). Histories: 40 % of the sequences run next to a sibling product of the same classes with "
        "other terms that is switched to the other representation and values another path before each operation, or between "
        "underlying_value and __call__ of the object under test. identity probes of the stateless payoffs: Libor curves of 1..6 "
        "periods on k/64 (zero rates and zero accrual periods included), strike ladders containing a rate of the curve and the "
        "largest rate; baskets of 1..5 performances with ties, zero weights and best-of weights, a random permutation; ratchets "
        "with increment 0 and > 0; CDS with affine or exponential discounting, default before / at / after maturity and none; every "
        "payoff object has valued another argument before the values that are judged, and is asked again afterwards.")
NOT_PROVED = [
    "butterfly non-negativity is proved only for K1 + K3 <= 2 K2 (butterfly_nonneg_partial); for a middle strike below the "
    "midpoint the accepted payoff is negative (butterfly_neg_of_low_mid, known finding C17-butterfly-asymmetric-negative)",
    "identity/log agreement of Performances and MaximumOfPerformances is proved under the explicit hypothesis "
    "exp(x - log s) = exp(x)/s (real_exp_sub_log proves it for the real pair; no strictly monotone Q -> Q pair satisfies it)",
    "exp/log are an abstract inverse pair in M; numpy's exp/log values enter the correspondence as tables and are compared "
    "at 2^-40, not proved",
    "Rainbow, CDS, Bond, Cap, Ratchet, Swaption: proved for all inputs (last section of Proofs/C17.lean) and checked on the "
    "implementation (c17.identity.rates / rainbow / ratchet / cds): sign, call-put / payer-receiver parity, monotonicity in the strike "
    "(first coupon, margin, recovery), bond today = 1 and chain rule, payer swaption at strike 0 = (bond - factor)+, cap = sum of "
    "non-negative caplets, cap = 0 above all rates, ratchet property of the coupons and bounds of the structured leg, CDS affine in "
    "the spread, bond increasing in every rate, rainbow positively homogeneous. NOT proved / not judged: monotonicity of "
    "cap/swaption/ratchet in the rates, and whether the weights adj[::-1] (cumulative accruals of the *first* n-k periods on the k-th cash flow) are the "
    "intended terminal-measure factors - the model mirrors the code",
    "monotonicity / sign theorems of the rate payoffs assume accrual periods >= 0 and rates >= 0 (CurveOK); parity, chain rule and "
    "cap = sum of caplets hold without it",
    "product value vs representation for Barrier: the barrier flag is computed from the raw path (log-spot under LOG), "
    "counted as observation c17.observation:barrier_level_compared_with_raw_log_path (the statement only asks for equal "
    "underlying values across representations); pure_in_path holds with the representation as an argument of the pure function",
]
ASSUMPTIONS = ["len(path) == len(times) == len(jump_path) along the time axis, times[-1] > 0, rows non-empty (as the engines build them)",
               "CDS is exercised with an affine discounting callable df(t) = d0 + d1 t (the discounting function is user supplied)"]
TRUSTED = ["numpy exp/log/maximum/sort/argpartition/cumprod kernels"]

REP = {"id": PR.IDENDITY, "log": PR.LOG}
SENTINEL = Fraction(-123456789)
TIME_UNDS = ("dt", "dtn", "nth")
ELEMENTARY = ("fc", "fwd", "van", "vanv", "cs", "bf", "dig", "bar")


# ----------------------------------------------------------------------------- builders (descriptor -> object / wire)
def b01(x):
    return "1" if x else "0"


def make_und(d):
    k = d["k"]
    if k == "spot":
        return un.Libors() if d.get("libors") else un.Spot()
    if k == "logspot":
        return un.LogSpot()
    if k == "asian":
        return un.Asian()
    if k == "mean":
        return un.Mean()
    if k == "perf":
        return un.Performances(list(d["s0"]))
    if k == "maxperf":
        return un.MaximumOfPerformances(list(d["s0"]))
    if k == "nthspot":
        return un.NthSpot(d["i"])
    if k == "ind":
        return un.Indicators(list(d["thr"]))
    if k == "dt":
        return un.DefaultTime(d["a"])
    if k == "dtn":
        return un.DefaultTimeNthUnderlying(list(d["as"]), d["i"])
    if k == "nth":
        return un.NthDefaultTimes(list(d["as"]), d["i"])
    raise ValueError(k)


def und_wire(d):
    k = d["k"]
    if k in ("spot", "logspot", "asian", "mean"):
        return k
    if k in ("perf", "maxperf"):
        return f"{k}:{wl(d['s0'])}"
    if k == "nthspot":
        return f"nthspot:{d['i']}"
    if k == "ind":
        return f"ind:{wl(d['thr'])}"
    if k == "dt":
        return f"dt:{w(d['a'])}"
    return f"{k}:{wl(d['as'])}:{d['i']}"


def affine_df(d0, d1):
    return lambda t: d0 + d1 * t


BARRIER_TYPES = {(True, True): po.BarrierType.UP_AND_IN, (True, False): po.BarrierType.UP_AND_OUT,
                 (False, True): po.BarrierType.DOWN_AND_IN, (False, False): po.BarrierType.DOWN_AND_OUT}


def make_pay(d):
    k = d["k"]
    cp = lambda c: po.PayoffType.CALL if c else po.PayoffType.PUT
    if k == "fc":
        return po.FixedCoupon(d["c"])
    if k == "fwd":
        return po.Forward(d["K"])
    if k == "van":
        return po.Vanilla(d["K"], cp(d["call"]))
    if k == "vanv":
        return po.Vanilla(list(d["Ks"]) if d.get("as_list") else np.array(d["Ks"]), cp(d["call"]))
    if k == "cs":
        return po.CallSpread(d["K1"], d["K2"])
    if k == "bf":
        return po.Butterfly(d["K1"], d["K2"], d["K3"])
    if k == "dig":
        return po.Digital(d["K"], cp(d["call"]))
    if k == "bar":
        return po.Barrier(d["K"], cp(d["call"]), BARRIER_TYPES[(d["up"], d["in"])], d["B"])
    if k == "rb":
        return po.Rainbow(np.array(d["w"]), d["K"], cp(d["call"]))
    if k == "cds":
        return po.CDS(d["R"], d["s"], d["T"], affine_df(d["d0"], d["d1"]))
    if k == "bond":
        return po.Bond(np.array(d["L0"]), np.array(d["d"]))
    if k == "cap":
        return po.Cap(np.array(d["L0"]), np.array(d["d"]), d["K"])
    if k == "rat":
        return po.Ratchet(np.array(d["d"]), d["g"], d["m"], d["s"], d["inc"], d["first"])
    if k == "swp":
        return po.Swaption(np.array(d["L0"]), np.array(d["d"]), d["K"],
                           po.SwaptionType.PAYER if d["payer"] else po.SwaptionType.RECEIVER)
    raise ValueError(k)


def pay_wire(d, obj=None):
    k = d["k"]
    if k == "fc":
        return f"fc:{w(d['c'])}"
    if k == "fwd":
        return f"fwd:{w(d['K'])}"
    if k == "van":
        return f"van:{b01(d['call'])}:{w(d['K'])}"
    if k == "vanv":
        return f"vanv:{b01(d['call'])}:{wl(d['Ks'])}"
    if k == "cs":
        return f"cs:{w(d['K1'])}:{w(d['K2'])}"
    if k == "bf":
        return f"bf:{w(d['K1'])}:{w(d['K2'])}:{w(d['K3'])}"
    if k == "dig":
        return f"dig:{b01(d['call'])}:{w(d['K'])}"
    if k == "bar":
        return f"bar:{b01(d['call'])}:{w(d['K'])}:{b01(d['up'])}:{b01(d['in'])}:{w(d['B'])}"
    if k == "rb":
        return f"rb:{wl(d['w'])}:{w(d['K'])}:{b01(d['call'])}"
    if k == "cds":
        # r = -log(df(1)) is a value numpy computed in the constructor: it reaches M as the exact rational of that float
        r = float(obj._r) if obj is not None else -math.log(d["d0"] + d["d1"])
        return f"cds:{w(d['R'])}:{w(d['s'])}:{w(d['T'])}:{w(r)}:{w(d['d0'])}:{w(d['d1'])}"
    if k == "bond":
        return f"bond:{wl(d['d'])}:{wl(d['L0'])}"
    if k == "cap":
        return f"cap:{wl(d['d'])}:{wl(d['L0'])}:{w(d['K'])}"
    if k == "rat":
        return f"rat:{wl(d['d'])}:{w(d['g'])}:{w(d['m'])}:{w(d['s'])}:{w(d['inc'])}:{w(d['first'])}"
    if k == "swp":
        return f"swp:{wl(d['d'])}:{wl(d['L0'])}:{w(d['K'])}:{b01(d['payer'])}"
    raise ValueError(k)


def make_product(terms):
    return Product(payoff_underlying=make_und(terms["und"]), payoff=make_pay(terms["pay"]), maturity=1.0,
                   notional=terms["notional"])


def arrays(p):
    t = np.array(p["times"], dtype=float)
    if p["flat"]:
        return t, np.array(p["rows"][0], dtype=float), np.array(p["jrows"][0], dtype=float)
    return t, np.array(p["rows"], dtype=float), np.array(p["jrows"], dtype=float)


# ----------------------------------------------------------------------------- values
def canon(v, is_time):
    """implementation value -> ("t", float) | ("v", [floats])"""
    if is_time:
        return ("t", float(v))
    return ("v", [float(x) for x in np.atleast_1d(np.asarray(v, dtype=float)).ravel()])


def val_wire(cv):
    if cv[0] == "t":
        return "t:inf" if math.isinf(cv[1]) else "t:" + w(cv[1])
    return "v" + wl(cv[1])


def parse_val(s):
    if s == "err":
        return ("err",)
    if s.startswith("t:"):
        return ("t", rd(s[2:]))
    if s.startswith("v"):
        return ("v", rdl(s[1:]))
    raise ValueError(f"driver answered {s!r}")


def same_val(cv, mv, exact, scale):
    """comparison rule impl value vs model value"""
    if mv[0] == "err" or cv[0] != mv[0]:
        return False
    if cv[0] == "t":
        if isinstance(mv[1], float):                  # the model says +inf
            return math.isinf(cv[1]) and cv[1] > 0 and mv[1] > 0
        return math.isfinite(cv[1]) and fr(cv[1]) == mv[1]
    if len(cv[1]) != len(mv[1]):
        return False
    for p, l in zip(cv[1], mv[1]):
        if SENTINEL in (l,):
            return False
        if math.isnan(p) or math.isinf(p):
            return False
        if exact:
            if p != float(l):
                return False
        elif not close(p, l, scale=scale):
            return False
    return True


def small_dyadic(x):
    try:
        f = fr(x)
    except ValueError:
        return False
    d = f.denominator
    return d & (d - 1) == 0 and d <= 2 ** 12 and abs(f) <= 2 ** 8


def pay_numbers(d):
    out = []
    for v in d.values():
        if isinstance(v, (int, float)) and not isinstance(v, bool):
            out.append(v)
        elif isinstance(v, list):
            out += v
    return out


def identical(a, b):
    """bitwise-equal implementation values (history oracle)"""
    x, y = np.atleast_1d(np.asarray(a, dtype=float)), np.atleast_1d(np.asarray(b, dtype=float))
    return x.shape == y.shape and bool(np.array_equal(x, y, equal_nan=True))


# ----------------------------------------------------------------------------- exp / log tables for the driver
def np_exp(q):
    with np.errstate(all="ignore"):
        return float(np.exp(float(q)))


def np_log(q):
    with np.errstate(all="ignore"):
        return float(np.log(float(q)))


def tables(terms, p):
    """every argument M may evaluate exp / log at for this path, with numpy's values"""
    ek, lk = set(), set()
    for r in p["rows"] + p["jrows"]:
        for x in r:
            ek.add(fr(x))
            if x > 0:
                lk.add(fr(x))
    u = terms["und"]
    if u["k"] in ("perf", "maxperf"):
        term = [r[-1] for r in p["rows"]]
        if len(term) == 1:
            term = term * len(u["s0"])
        for x, s in zip(term, u["s0"]):
            lk.add(fr(s))
            ek.add(fr(x) - fr(np_log(s)))
    if u["k"] == "ind":
        lk |= {fr(t) for t in u["thr"]}
    ek, lk = sorted(ek), sorted(lk)
    return (ek, [np_exp(q) for q in ek]), (lk, [np_log(q) for q in lk])


def send_tables(ctx, terms, p):
    (ek, ev), (lk, lv) = tables(terms, p)
    keep = [(k, v) for k, v in zip(ek, ev) if math.isfinite(v)]
    ctx.lean(f"tab exp {wl([k for k, _ in keep])} {wl([v for _, v in keep])}")
    keep = [(k, v) for k, v in zip(lk, lv) if math.isfinite(v)]
    ctx.lean(f"tab log {wl([k for k, _ in keep])} {wl([v for _, v in keep])}")


# ----------------------------------------------------------------------------- don't-care points
def dont_care_uv(terms, rep, p):
    u = terms["und"]
    if u["k"] == "ind":
        term = [r[-1] for r in p["rows"]]
        if len(term) == 1:
            term = term * len(u["thr"])
        if rep == "id":
            return any(x == t for x, t in zip(term, u["thr"]))
        return any(abs(x - np_log(t)) < 1e-12 for x, t in zip(term, u["thr"]))
    if u["k"] in TIME_UNDS:
        levels = [u["a"]] * len(p["jrows"]) if u["k"] == "dt" else u["as"]
        for r, a in zip(p["jrows"], levels):
            vals = r if rep == "log" else [np_log(x) for x in r]
            if any(abs((y - x) - a) < 1e-12 for x, y in zip(vals, vals[1:])):
                return True
    return False


def dont_care_call(terms, p, ucv):
    d = terms["pay"]
    if d["k"] == "dig":
        return ucv[0] == "v" and any(x == d["K"] for x in ucv[1]) or (ucv[0] == "t" and ucv[1] == d["K"])
    if d["k"] == "bar":
        return any(x == d["B"] for x in p["rows"][0])
    return False


def raise_cls(terms, rep, exc):
    """classification of an exception raised by the implementation on a generated (supported) input"""
    u, p = terms["und"], terms["pay"]
    return dict(und=u["k"], pay=p["k"], rep=rep, list_strike=bool(p.get("as_list", False)), exception=type(exc).__name__)


# ----------------------------------------------------------------------------- one sequence (C + history oracle)
def eval_path(prod, terms, p, calls=1, between=None):
    """(underlying value, payoff value) or the exception.  `calls` = how often the processed path is valued: 0 = the path is
    only passed to underlying_value (the fine/coarse pattern of the multilevel engine passes two paths before it values),
    k >= 2 = the same processed path is valued k times; the value returned is the last one, all of them must be identical"""
    t, path, jp = arrays(p)
    with warnings.catch_warnings(), np.errstate(all="ignore"):
        warnings.simplefilter("ignore")
        u = prod.underlying_value(t, path, jp)
        if between is not None:
            between()               # another product works between `underlying_value` and `__call__` (engine with control products)
        v = None
        for k in range(calls):
            vk = prod(u)
            if k and not identical(v, vk):
                raise Revaluation(f"valuation #{k + 1} of the same processed path gives {vk!r}, the first gave {v!r}")
            v = vk
    return u, v


class Revaluation(Exception):
    pass


def sibling_terms(terms):
    """another product of the same classes with different numbers (several objects in one process: a state shared through the
    class or the module, not the instance, shows when the sibling works between two operations of the object under test)"""
    t = copy.deepcopy(terms)
    for k, sh in (("K", 0.375), ("K1", 0.375), ("K2", 0.375), ("K3", 0.375), ("B", 0.625), ("c", 0.375)):
        if k in t["pay"]:
            t["pay"][k] = t["pay"][k] + sh
    if "Ks" in t["pay"]:
        t["pay"]["Ks"] = [x + 0.375 for x in t["pay"]["Ks"]]
    u = t["und"]
    if "a" in u:
        u["a"] = u["a"] - 0.125
    if "as" in u:
        u["as"] = [x - 0.125 for x in u["as"]]
    if "thr" in u:
        u["thr"] = [x + 0.125 for x in u["thr"]]
    if "s0" in u:
        u["s0"] = [x + 0.25 for x in u["s0"]]
    t["notional"] = terms["notional"] * 3.0
    return t


def sibling_work(C, terms, p, cur):
    """the sibling is switched to the *other* representation and values a shifted, time-reversed copy of the path"""
    other = "log" if cur == "id" else "id"
    q = dict(p, rows=[[x + 0.75 for x in r][::-1] for r in p["rows"]], jrows=[list(r[::-1]) for r in p["jrows"]])
    try:
        C.update(REP[other])
        eval_path(C, terms, q)
    except Exception:  # noqa  (the sibling's own value is not under test)
        pass


def run_sequence(ctx, d, model=True):
    terms, ops = d["terms"], d["ops"]
    cls = dict(und=terms["und"]["k"], pay=terms["pay"]["k"])
    is_time = terms["und"]["k"] in TIME_UNDS
    A = make_product(terms)
    C = make_product(sibling_terms(terms)) if d.get("sibling") else None
    if model:
        ans = ctx.lean(f"new {und_wire(terms['und'])} {pay_wire(terms['pay'], A.payoff)} {w(terms['notional'])}")
        if ans != "ok":
            ctx.fail("corr", "c17.seq.model", d, {"name": "Drivers/C17 new", "model": ans}, cls=cls)
            return
    cur = "id"
    npaths = sum(1 for o in ops if o["op"] == "path")
    first_path = next((i for i, o in enumerate(ops) if o["op"] == "path"), len(ops))
    ctx.count("c17.seq", d, nontrivial=npaths >= 2 or first_path > 0, branch=f"{cls['und']}*{cls['pay']}")
    for i, op in enumerate(ops):
        prefix = dict(d, ops=ops[: i + 1])
        if op["op"] == "update":
            cur = op["rep"]
            A.update(REP[cur])
            if model:
                ctx.lean(f"update {cur}")
            continue
        p = op
        scale = 1 + sum(abs(x) for r in p["rows"] for x in r) + sum(abs(x) for x in pay_numbers(terms["pay"]))
        between = None
        if C is not None and d["sibling"] == "between":
            between = lambda: sibling_work(C, terms, p, cur)
            ctx.branches["c17.path:sibling_worked_between_uv_and_call"] += 1
        elif C is not None:
            sibling_work(C, terms, p, cur)
            ctx.branches["c17.path:sibling_worked_before"] += 1
        # ---- implementation, used object
        calls = int(p.get("calls", 1))
        try:
            u, v = eval_path(A, terms, p, calls, between)
            exc = None
        except Revaluation as e:
            ctx.fail("oracle", "c17.history", prefix, {"what": str(e), "op_index": i}, cls=cls)
            return
        except Exception as e:  # noqa
            u = v = None
            exc = e
        # ---- S: history — a fresh object with the same terms, updated once with the current representation
        B = make_product(terms)
        B.update(REP[cur])
        try:
            uB, vB = eval_path(B, terms, p)
            excB = None
        except Exception as e:  # noqa
            uB = vB = None
            excB = e
        if (exc is None) != (excB is None) or (exc is None and not (identical(u, uB) and (calls == 0 or identical(v, vB)))):
            ctx.fail("oracle", "c17.history", prefix,
                     {"what": "value on the used object differs from the value on a fresh object with the same terms and representation",
                      "used": repr((u, v)) if exc is None else f"raises {type(exc).__name__}: {exc}",
                      "fresh": repr((uB, vB)) if excB is None else f"raises {type(excB).__name__}: {excB}", "op_index": i}, cls=cls)
            return
        ctx.branches[f"c17.path:{cur}"] += 1
        if not model:
            if exc is not None:
                ctx.fail("oracle", "c17.raises", prefix, {"raises": f"{type(exc).__name__}: {exc}", "op_index": i},
                         cls=raise_cls(terms, cur, exc))
                return
            continue
        # ---- C: the same operation on M
        send_tables(ctx, terms, p)
        mu = parse_val(ctx.lean(f"uv {wl(p['times'])} {wll(p['rows'])} {wll(p['jrows'])} {b01(p['flat'])}"))
        if exc is not None:
            if mu[0] != "err":
                ctx.fail("oracle", "c17.raises", prefix, {"raises": f"{type(exc).__name__}: {exc}", "model": str(mu), "op_index": i},
                         cls=raise_cls(terms, cur, exc))
                return
            ctx.branches["c17.raises_as_modelled"] += 1
            continue
        ucv = canon(u, is_time)
        if dont_care_uv(terms, cur, p):
            ctx.branches["c17.dont_care:underlying"] += 1
            if is_time and not (math.isinf(ucv[1]) or ucv[1] in p["times"][1:]):
                ctx.fail("oracle", "c17.admissible", prefix, {"value": ucv[1], "what": "default time is neither a grid time nor inf"}, cls=cls)
                return
            if cls["und"] == "ind" and ucv[1] not in ([0.0], [1.0]):
                ctx.fail("oracle", "c17.admissible", prefix, {"value": ucv[1], "what": "indicator is neither 0 nor 1"}, cls=cls)
                return
            # keep M's object in step with the implementation for the rest of the sequence: nothing to do, the
            # underlying value is not part of the state
        else:
            exact_u = cur == "id" and cls["und"] in ("spot", "asian", "mean", "perf", "maxperf", "nthspot", "ind") or is_time \
                or (cur == "log" and cls["und"] == "logspot")
            if not same_val(ucv, mu, exact_u, scale):
                ctx.fail("corr", "c17.seq.underlying", prefix, {"name": "Drivers/C17 uv vs Product.underlying_value", "impl": ucv,
                                                               "model": str(mu), "rep": cur, "op_index": i}, cls=cls)
                return
        if calls == 0:
            ctx.branches["c17.path:passed_not_valued"] += 1
            continue
        for _ in range(calls):
            mv = parse_val(ctx.lean(f"call {val_wire(ucv)}"))
        if calls > 1:
            ctx.branches["c17.path:revalued"] += 1
        vcv = canon(v, False)
        if dont_care_call(terms, p, ucv):
            ctx.branches["c17.dont_care:payoff"] += 1
            ok = all(math.isfinite(x) for x in vcv[1])
            if cls["pay"] == "dig":
                ok = ok and vcv[1] in ([0.0], [terms["notional"]])
            if not ok:
                ctx.fail("oracle", "c17.admissible", prefix, {"value": vcv[1], "what": "payoff at the strike/barrier outside the admissible set"}, cls=cls)
                return
            continue
        exact_v = cls["pay"] in ELEMENTARY and ucv[0] == "v" and all(small_dyadic(x) for x in ucv[1])
        exact_v = exact_v and all(small_dyadic(x) for x in pay_numbers(terms["pay"])) and small_dyadic(terms["notional"])
        if not same_val(vcv, mv, exact_v, scale * max(1.0, abs(terms["notional"]))):
            ctx.fail("corr", "c17.seq.payoff", prefix, {"name": "Drivers/C17 call vs Product.__call__", "impl": vcv, "model": str(mv),
                                                        "underlying": ucv, "op_index": i}, cls=cls)
            return


# ----------------------------------------------------------------------------- generators
def g8(rng, lo, hi):
    """dyadic k/8 in [lo, hi]"""
    return rng.randint(int(lo * 8), int(hi * 8)) / 8


def strike(rng, lo=0.25, hi=3.5):
    if rng.random() < 0.3:
        return g8(rng, lo, hi)                      # on the path grid: exact hits happen
    return (2 * rng.randint(int(lo * 8), int(hi * 8)) + 1) / 16


def gen_times(rng, n):
    t = [0.0]
    for _ in range(n):
        t.append(t[-1] + rng.choice([0.125, 0.25, 0.25, 0.5, 1.0]))
    return t


def gen_path(rng, rep, d, flat, n=None):
    n = n or rng.randint(1, 5)
    times = gen_times(rng, n)
    if rep == "id":
        rows = [[g8(rng, 0.125, 4) for _ in range(n + 1)] for _ in range(d)]
        jrows = []
        for _ in range(d):
            j, e = [1.0], 0
            for _ in range(n):
                e += rng.choice([0, 0, 0, 1, 1, 2, 3, -1])
                j.append(2.0 ** (-e))
            jrows.append(j)
    else:
        rows = [[g8(rng, -2, 1.5) for _ in range(n + 1)] for _ in range(d)]
        jrows = []
        for _ in range(d):
            j = [0.0]
            for _ in range(n):
                j.append(j[-1] + rng.choice([0, 0, 0, -0.25, -0.5, -0.75, -1, -2, 0.25]))
            jrows.append(j)
    return dict(op="path", rep=rep, times=times, rows=rows, jrows=jrows, flat=flat)


LEVELS = [-0.25, -0.5, -0.75, -1.0, -1.5, -2.0, -0.375, -0.625, -1.25, -0.375, -0.625, -1.25]


def gen_pay(rng, family, d):
    call = rng.random() < 0.5
    if family in ("scalar_flat", "scalar_2d"):
        kinds = ["fc", "fwd", "van", "van", "vanv", "cs", "bf", "dig", "dig"] + (["bar"] * 4 if family == "scalar_flat" else [])
    elif family == "vector":
        kinds = ["fc", "fwd", "van", "vanv", "rb", "bond", "cap", "rat", "swp"]
    elif family == "indicator":
        kinds = ["fc", "fwd", "van", "dig"]
    else:
        kinds = ["cds", "cds", "dig", "fc"]
    k = rng.choice(kinds)
    if k == "fc":
        return dict(k=k, c=g8(rng, -2, 2))
    if k == "fwd":
        return dict(k=k, K=strike(rng))
    if k == "van":
        return dict(k=k, call=call, K=strike(rng, -1, 3.5) if family != "indicator" else rng.choice([0.0, 0.5, 1.0]))
    if k == "vanv":
        m = d if family == "vector" else rng.randint(1, 4)
        return dict(k=k, call=call, Ks=[strike(rng) for _ in range(m)], as_list=rng.random() < 0.4)
    if k == "cs":
        a, b = sorted(rng.sample(range(1, 56), 2))
        return dict(k=k, K1=a / 16, K2=b / 16)
    if k == "bf":
        a, b, c = sorted(rng.sample(range(1, 56), 3))
        return dict(k=k, K1=a / 16, K2=b / 16, K3=c / 16)
    if k == "dig":
        if family == "time":
            return dict(k=k, call=call, K=rng.choice([0.25, 0.5, 1.0, 2.0]))
        return dict(k=k, call=call, K=strike(rng) if family != "indicator" else rng.choice([0.0, 0.5, 1.0]))
    if k == "bar":
        return dict(k=k, call=call, K=strike(rng), up=rng.random() < 0.5, **{"in": rng.random() < 0.5}, B=strike(rng, -1, 3.5))
    if k == "rb":
        ws = [rng.randint(0, 8) / 8 for _ in range(d)]
        return dict(k=k, w=ws, K=strike(rng), call=call)
    if k == "cds":
        return dict(k=k, R=rng.choice([0.25, 0.375, 0.5]), s=rng.choice([0.0078125, 0.015625, 0.125]),
                    T=rng.choice([0.5, 1.0, 2.0, 4.0]), d0=1.0, d1=-rng.choice([1, 2, 3]) / 64)
    deltas = [rng.choice([0.25, 0.5, 1.0, 1.0, 0.5, 0.0 if rng.random() < 0.15 else 0.25]) for _ in range(d)]    # a zero accrual period is legal
    L0 = [rng.randint(0, 8) / 32 for _ in range(d)]
    if k == "bond":
        return dict(k=k, d=deltas, L0=L0)
    if k == "cap":
        return dict(k=k, d=deltas, L0=L0, K=rng.randint(0, 40) / 16)
    if k == "rat":
        return dict(k=k, d=deltas, g=rng.choice([0.5, 1.0, 2.0]), m=rng.randint(0, 4) / 16, s=rng.randint(0, 8) / 16,
                    inc=rng.randint(0, 4) / 16, first=rng.randint(0, 16) / 16)
    return dict(k="swp", d=deltas, L0=L0, K=rng.randint(0, 24) / 16, payer=rng.random() < 0.5)


def gen_terms(rng):
    family = rng.choice(["scalar_flat"] * 4 + ["scalar_2d"] * 2 + ["vector"] * 3 + ["indicator", "time", "time"])
    d = 1 if family == "scalar_flat" else rng.randint(2, 3)
    if family == "vector" and rng.random() < 0.2:
        d = 1                                           # a one-rate curve / one-asset basket given as a 1 x (n+1) array
    flat = family == "scalar_flat"
    if family == "scalar_flat":
        u = dict(k=rng.choice(["spot", "spot", "logspot", "asian", "asian", "mean"]))
    elif family == "scalar_2d":
        k = rng.choice(["mean", "maxperf", "nthspot"])
        u = dict(k=k)
        if k == "maxperf":
            u["s0"] = [g8(rng, 0.5, 3) for _ in range(d)]
        if k == "nthspot":
            u["i"] = rng.randint(1, d)
    elif family == "vector":
        k = rng.choice(["spot", "spot", "logspot", "asian", "perf"])
        u = dict(k=k)
        if k == "spot":
            u["libors"] = rng.random() < 0.5
        if k == "perf":
            u["s0"] = [g8(rng, 0.5, 3) for _ in range(d)]
    elif family == "indicator":
        if rng.random() < 0.3:
            d, flat = 1, True
        u = dict(k="ind", thr=[g8(rng, 0.25, 3) for _ in range(d if not flat else rng.randint(1, 2))])
    else:
        k = rng.choice(["dt", "dtn", "nth"])
        if k == "dt":
            d, flat = 1, True
            u = dict(k=k, a=rng.choice(LEVELS))
        else:
            u = dict(k=k, i=rng.randint(1, d))
            u["as"] = [rng.choice(LEVELS) for _ in range(d)]
    pay = gen_pay(rng, family, d if family != "indicator" else 1)
    notional = rng.choice([1.0, 1.0, 2.0, 0.5, 100.0, -1.0, 12.5])
    return dict(und=u, pay=pay, notional=notional), d, flat


def gen_sequence(rng):
    terms, d, flat = gen_terms(rng)
    ops, cur = [], "id"
    n = rng.randint(3, 9)
    for _ in range(n):
        if rng.random() < 0.3:
            cur = rng.choice(["id", "log", "log"]) if cur == "id" else rng.choice(["id", "id", "log"])
            ops.append(dict(op="update", rep=cur))
        else:
            ops.append(gen_path(rng, cur, d, flat))
            # how often the processed path is valued: mostly once; sometimes passed without being valued (the multilevel
            # engine passes the fine and the coarse path before valuing) or valued repeatedly
            x = rng.random()
            if x < 0.2:
                ops[-1]["calls"] = 0
            elif x < 0.4:
                ops[-1]["calls"] = rng.choice([2, 2, 3])
    if not any(o["op"] == "path" for o in ops):
        ops.append(gen_path(rng, cur, d, flat))
    return dict(kind="seq", terms=terms, ops=ops, sibling=rng.choice([False, False, False, "before", "between"]))


def directed_sequences(rng):
    """the three histories the fixes are about, with fresh numbers every run"""
    out = []
    for _ in range(3):
        # a knocking path, then a quiet one, on every barrier type
        up, isin, call = rng.random() < 0.5, rng.random() < 0.5, rng.random() < 0.5
        B = (2 * rng.randint(12, 20) + 1) / 16
        quiet = [g8(rng, 1.0, 1.375) for _ in range(4)] if up else [g8(rng, 3.0, 3.5) for _ in range(4)]
        knock = list(quiet)
        knock[rng.randint(0, 3)] = B + 0.5 if up else B - 0.5
        t = gen_times(rng, 3)
        mk = lambda rows: dict(op="path", rep="id", times=t, rows=[rows], jrows=[[1.0] * 4], flat=True)
        terms = dict(und=dict(k=rng.choice(["spot", "asian"])), pay=dict(k="bar", call=call, K=strike(rng), up=up, **{"in": isin}, B=B),
                     notional=1.0)
        out.append(dict(kind="seq", terms=terms, ops=[mk(quiet), mk(knock), mk(quiet), mk(quiet)]))
        # the same, with the knocking path passed but not valued before the quiet one, and the quiet one valued twice
        out.append(dict(kind="seq", terms=terms, ops=[dict(mk(knock), calls=0), dict(mk(quiet), calls=2), dict(mk(knock), calls=2),
                                                      dict(mk(quiet), calls=1)]))
    for k in ("spot", "logspot", "asian", "mean"):
        # log pricing, then identity pricing with the same object
        terms = dict(und=dict(k=k), pay=dict(k="fwd", K=strike(rng)), notional=1.0)
        out.append(dict(kind="seq", terms=terms, ops=[dict(op="update", rep="log"), gen_path(rng, "log", 1, True),
                                                      dict(op="update", rep="id"), gen_path(rng, "id", 1, True),
                                                      dict(op="update", rep="log"), gen_path(rng, "log", 1, True)]))
    for k in ("maxperf", "nthspot", "mean"):
        # scalar underlyings of a multi-dimensional path against a plain Python list of strikes, in both representations
        u = dict(k=k)
        if k == "maxperf":
            u["s0"] = [g8(rng, 0.5, 3), g8(rng, 0.5, 3)]
        if k == "nthspot":
            u["i"] = rng.randint(1, 2)
        terms = dict(und=u, pay=dict(k="vanv", call=rng.random() < 0.5, Ks=[strike(rng), strike(rng)], as_list=True), notional=2.0)
        out.append(dict(kind="seq", terms=terms, ops=[gen_path(rng, "id", 2, False), dict(op="update", rep="log"),
                                                      gen_path(rng, "log", 2, False)]))
    # n-th to default in the identity representation (jump path given as spot-scale factors), then in the log one
    for n in (1, 2, 3):
        terms = dict(und=dict(k="nth", i=n, **{"as": [rng.choice(LEVELS) for _ in range(3)]}),
                     pay=dict(k="cds", R=0.25, s=0.015625, T=2.0, d0=1.0, d1=-0.03125), notional=1.0)
        out.append(dict(kind="seq", terms=terms, ops=[gen_path(rng, "id", 3, False), dict(op="update", rep="log"),
                                                      gen_path(rng, "log", 3, False)]))
    return out


# ----------------------------------------------------------------------------- S: static identities on the implementation
def feq(a, b, scale=1.0):
    return abs(a - b) <= 2.0 ** -40 * max(1.0, scale)


def scalar_u(rng):
    r = rng.random()
    if r < 0.5:
        return g8(rng, -1, 4.5)
    if r < 0.8:
        return rng.uniform(-1, 5)
    return float(np.exp(g8(rng, -2, 1.5)))


def identity_vanilla(ctx, d):
    u, Ks = d["u"], d["Ks"]
    probe = "c17.identity.parity"
    ctx.count(probe, d, branch="vector" if len(Ks) > 1 else "scalar")
    uu = np.float64(u)
    if len(Ks) == 1:
        c, p, f = po.Vanilla(Ks[0], po.PayoffType.CALL)(uu), po.Vanilla(Ks[0], po.PayoffType.PUT)(uu), po.Forward(Ks[0])(uu)
        c, p, f = [float(c)], [float(p)], [float(f)]
    else:
        st = list(Ks) if d.get("as_list") else np.array(Ks)
        c = [float(x) for x in po.Vanilla(st, po.PayoffType.CALL)(uu)]
        p = [float(x) for x in po.Vanilla(st, po.PayoffType.PUT)(uu)]
        f = [float(po.Forward(K)(uu)) for K in Ks]
    if len(c) != len(Ks) or len(p) != len(Ks) or not all(feq(ci - pi, fi, abs(u) + abs(K)) for ci, pi, fi, K in zip(c, p, f, Ks)):
        ctx.fail("oracle", probe, d, {"call": c, "put": p, "forward": f, "what": "call - put != forward"}, cls=dict(n=len(Ks)))
    if any(x < 0 for x in c + p):
        ctx.fail("oracle", probe, d, {"call": c, "put": p, "what": "negative vanilla payoff"}, cls=dict(n=len(Ks)))


def identity_callspread(ctx, d):
    u, K1, K2 = np.float64(d["u"]), d["K1"], d["K2"]
    probe = "c17.identity.callspread"
    ctx.count(probe, d)
    v = float(po.CallSpread(K1, K2)(u))
    ref = float(po.Vanilla(K1, po.PayoffType.CALL)(u)) - float(po.Vanilla(K2, po.PayoffType.CALL)(u))
    if not feq(v, ref, abs(d["u"]) + K2) or v < 0 or v > K2 - K1 + 1e-12:
        ctx.fail("oracle", probe, d, {"callspread": v, "call(K1)-call(K2)": ref, "what": "call spread != call combination, negative, or above K2-K1"},
                 cls=dict(region="above" if d["u"] > K2 else "below"))


def identity_butterfly(ctx, d):
    u, K1, K2, K3 = np.float64(d["u"]), d["K1"], d["K2"], d["K3"]
    ctx.count("c17.identity.butterfly", d, branch="low_mid" if 2 * K2 < K1 + K3 else "high_mid")
    v = float(po.Butterfly(K1, K2, K3)(u))
    cs = [float(po.Vanilla(K, po.PayoffType.CALL)(u)) for K in (K1, K2, K3)]
    ref = cs[0] - 2 * cs[1] + cs[2]
    if not feq(v, ref, abs(d["u"]) + K3):
        ctx.fail("oracle", "c17.identity.butterfly", d, {"butterfly": v, "combination": ref}, cls={})
    if v < -2.0 ** -40 * (abs(d["u"]) + K3):
        # inside the recorded class only as long as the implementation still computes the modelled value
        ctx.lean(f"new spot {pay_wire(dict(k='bf', K1=K1, K2=K2, K3=K3))} 1")
        mv = parse_val(ctx.lean(f"call v[{w(float(u))}]"))
        mirrors = mv[0] == "v" and close(v, mv[1][0], scale=abs(d["u"]) + K3)
        ctx.fail("oracle", "c17.identity.butterfly_nonneg", d, {"butterfly": v, "what": "negative butterfly payoff"},
                 cls=dict(mid_below_center=bool(2 * K2 < K1 + K3)), mirrors_model=mirrors)


def identity_digital(ctx, d):
    u, K = np.float64(d["u"]), d["K"]
    ctx.count("c17.identity.digital", d, branch="at_strike" if d["u"] == K else "off_strike")
    c, p = float(po.Digital(K, po.PayoffType.CALL)(u)), float(po.Digital(K, po.PayoffType.PUT)(u))
    bad = c + p != 1.0 or c not in (0.0, 1.0)
    if d["u"] != K:                                   # away from the strike the values themselves are fixed
        bad = bad or c != (1.0 if d["u"] > K else 0.0)
    if bad:
        ctx.fail("oracle", "c17.identity.digital", d, {"call": c, "put": p, "what": "digital call + put != 1 (or wrong side)"},
                 cls=dict(at_strike=bool(d["u"] == K)))


def identity_barrier(ctx, d):
    """knock-in + knock-out = vanilla on the same path, through Product objects; flag = 'some value strictly beyond B'"""
    p = d["path"]
    ctx.count("c17.identity.ki_ko", d, branch=("up" if d["up"] else "down") + ":" + d["und"])
    cp = po.PayoffType.CALL if d["call"] else po.PayoffType.PUT
    mk = lambda pay: Product(make_und(dict(k=d["und"])), pay, 1.0, d["notional"])
    prods = [mk(po.Barrier(d["K"], cp, BARRIER_TYPES[(d["up"], True)], d["B"])),
             mk(po.Barrier(d["K"], cp, BARRIER_TYPES[(d["up"], False)], d["B"])), mk(po.Vanilla(d["K"], cp))]
    try:
        vals = [float(eval_path(P, None, p)[1]) for P in prods]
    except Exception as e:  # noqa
        ctx.fail("oracle", "c17.raises", d, {"raises": f"{type(e).__name__}: {e}"}, cls=dict(und=d["und"], pay="bar", rep="id"))
        return
    row = p["rows"][0]
    touched = any(x == d["B"] for x in row)
    beyond = any(x > d["B"] for x in row) if d["up"] else any(x < d["B"] for x in row)
    ok = feq(vals[0] + vals[1], vals[2], abs(vals[2]))
    if not touched:                                     # the event itself is fixed by the path away from the barrier
        ok = ok and (feq(vals[0], vals[2]) if beyond else vals[0] == 0.0)
    if not ok:
        ctx.fail("oracle", "c17.identity.ki_ko", d, {"in": vals[0], "out": vals[1], "vanilla": vals[2], "crossed": beyond},
                 cls=dict(up=d["up"], touched=touched))


def identity_asian(ctx, d):
    p = d["path"]
    ctx.count("c17.identity.asian", d, branch=d["rep"])
    U = un.Asian()
    U.update(REP[d["rep"]])
    t, path, jp = arrays(p)
    try:
        with np.errstate(all="ignore"):
            v = np.atleast_1d(np.asarray(U.value(times=t, path=path, jump_path=jp), dtype=float))
    except Exception as e:  # noqa
        ctx.fail("oracle", "c17.raises", d, {"raises": f"{type(e).__name__}: {e}"}, cls=dict(und="asian", pay="-", rep=d["rep"]))
        return
    rows = p["rows"] if d["rep"] == "id" else [[np_exp(x) for x in r] for r in p["rows"]]
    if len(v) != len(rows):
        ctx.fail("oracle", "c17.identity.asian", d, {"value": v.tolist(), "what": "one average per underlying expected"}, cls={})
        return
    for a, r in zip(v, rows):
        lo, hi = min(r[1:]), max(r[1:])                 # the values that carry weight; a fortiori inside [min, max] of the path
        ref = sum(x * (tb - ta) for x, ta, tb in zip(r[1:], p["times"], p["times"][1:])) / p["times"][-1]
        if not (lo - 1e-12 * abs(lo) <= a <= hi + 1e-12 * abs(hi)) or not feq(a, ref, abs(hi)):
            ctx.fail("oracle", "c17.identity.asian", d, {"average": float(a), "min": lo, "max": hi, "time_weighted": ref}, cls={})
            return


def first_below(vals, times, a):
    for k, (x, y) in enumerate(zip(vals, vals[1:])):
        if y - x < a:
            return times[k + 1]
    return math.inf


def identity_default(ctx, d):
    """default time = first time a jump increment falls below the threshold; n-th default = order statistics"""
    p, levels, rep = d["path"], d["as"], d["rep"]
    ctx.count("c17.identity.default", d, branch=rep)
    t, path, jp = arrays(p)
    logs = [r if rep == "log" else [np_log(x) for x in r] for r in p["jrows"]]
    if any(abs((y - x) - a) < 1e-12 for r, a in zip(logs, levels) for x, y in zip(r, r[1:])):
        ctx.branches["c17.dont_care:default_threshold"] += 1
        return
    expected = [first_below(r, p["times"], a) for r, a in zip(logs, levels)]
    got = []
    try:
        for i in range(len(levels)):
            U = un.DefaultTimeNthUnderlying(list(levels), i + 1)
            U.update(REP[rep])
            got.append(float(U.value(times=t, path=path, jump_path=jp)))
        U = un.DefaultTime(levels[0])
        U.update(REP[rep])
        single = float(U.value(times=t, path=path[0], jump_path=jp[0]))
    except Exception as e:  # noqa
        ctx.fail("oracle", "c17.raises", d, {"raises": f"{type(e).__name__}: {e}"}, cls=dict(und="dtn", pay="-", rep=rep))
        return
    if got != expected or single != expected[0]:
        ctx.fail("oracle", "c17.identity.default", d, {"default_times": got, "single": single, "first_below": expected}, cls=dict(rep=rep))
        return
    nth = []
    for n in range(1, len(levels) + 1):
        U = un.NthDefaultTimes(list(levels), n)
        U.update(REP[rep])
        try:
            nth.append(float(U.value(times=t, path=path, jump_path=jp)))
        except Exception as e:  # noqa
            ctx.fail("oracle", "c17.raises", d, {"raises": f"{type(e).__name__}: {e}"}, cls=dict(und="nth", pay="-", rep=rep))
            return
    if nth != sorted(expected) or any(a > b for a, b in zip(nth, nth[1:])):
        ctx.fail("oracle", "c17.identity.nth_default", d, {"nth": nth, "individual": expected}, cls=dict(rep=rep))


def identity_notional(ctx, d):
    terms, p = d["terms"], d["path"]
    ctx.count("c17.identity.notional", d, branch=terms["pay"]["k"])
    one = make_product(dict(terms, notional=1.0))
    many = make_product(terms)
    for P in (one, many):
        P.update(REP[p["rep"]])
    try:
        v1 = np.atleast_1d(np.asarray(eval_path(one, terms, p)[1], dtype=float))
        vn = np.atleast_1d(np.asarray(eval_path(many, terms, p)[1], dtype=float))
    except Exception as e:  # noqa
        ctx.fail("oracle", "c17.raises", d, {"raises": f"{type(e).__name__}: {e}"}, cls=raise_cls(terms, p["rep"], e))
        return
    if v1.shape != vn.shape or not all(feq(b, terms["notional"] * a, abs(terms["notional"] * a)) for a, b in zip(v1, vn)):
        ctx.fail("oracle", "c17.identity.notional", d, {"notional_1": v1.tolist(), "notional_n": vn.tolist()}, cls={})


def rep_agreement(ctx, d):
    """identity representation on the spot path vs log representation on its logarithm: same underlying value; the same
    for the product value (second probe)"""
    terms, p = d["terms"], d["path"]                   # p is a LOG path x; the spot path is exp(x)
    uk, pk = terms["und"]["k"], terms["pay"]["k"]
    ctx.count("c17.rep_agree", d, branch=uk)
    spot = dict(p, rep="id", rows=[[np_exp(x) for x in r] for r in p["rows"]], jrows=[[np_exp(x) for x in r] for r in p["jrows"]])
    if uk == "ind" and any(abs(r[-1] - np_log(t)) < 1e-9 for r in p["rows"] for t in terms["und"]["thr"]):
        return
    if uk in TIME_UNDS:
        lv = [terms["und"]["a"]] if uk == "dt" else terms["und"]["as"]
        if any(abs((y - x) - a) < 1e-9 for r in p["jrows"] for a in lv for x, y in zip(r, r[1:])):
            return
    res = {}
    for rep, pp in (("id", spot), ("log", p)):
        P = make_product(terms)
        P.update(REP[rep])
        try:
            res[rep] = eval_path(P, terms, pp)
        except Exception as e:  # noqa
            res[rep] = e
    bad = [r for r in res if isinstance(res[r], Exception)]
    if bad:
        detail = {r: (f"raises {type(v).__name__}: {v}" if isinstance(v, Exception) else repr(v)) for r, v in res.items()}
        # one representation has a value and the other raises: the two do not agree on this spot path
        ctx.fail("oracle", "c17.rep_agree", d, detail, cls=dict(raise_cls(terms, bad[0], res[bad[0]]), raises="+".join(bad)))
        return
    is_time = uk in TIME_UNDS
    a, b = canon(res["id"][0], is_time), canon(res["log"][0], is_time)
    sc = 1 + sum(abs(x) for r in spot["rows"] for x in r)
    same = a[0] == b[0] and (a[1] == b[1] if is_time else len(a[1]) == len(b[1]) and all(feq(x, y, sc) for x, y in zip(a[1], b[1])))
    if not same:
        ctx.fail("oracle", "c17.rep_agree", d, {"identity_on_spot_path": a, "log_on_log_path": b}, cls=dict(und=uk, raises=""))
        return
    # product value: same spot path => same value, whichever representation the pricing process uses
    va, vb = canon(res["id"][1], False), canon(res["log"][1], False)
    near = pk == "dig" and a[0] == "v" and any(abs(x - terms["pay"]["K"]) < 1e-9 for x in a[1])
    if near:
        return
    if not (len(va[1]) == len(vb[1]) and all(feq(x, y, sc * abs(terms["notional"])) for x, y in zip(va[1], vb[1]))):
        cls = dict(pay=pk, und=uk)
        mirrors = None
        if pk == "bar":
            B, up = terms["pay"]["B"], terms["pay"]["up"]
            ev = lambda row: any(x > B for x in row) if up else any(x < B for x in row)
            cls["event_differs"] = bool(ev(spot["rows"][0]) != ev(p["rows"][0]))
            ctx.lean(f"new {und_wire(terms['und'])} {pay_wire(terms['pay'])} {w(terms['notional'])}")
            send_tables(ctx, terms, p)
            mv = parse_val(ctx.lean(f"pure log {wl(p['times'])} {wll(p['rows'])} {wll(p['jrows'])} 1"))
            mirrors = same_val(vb, mv, False, sc * abs(terms["notional"]))
            if cls["event_differs"] and mirrors:
                # C17 asks for the same *underlying* value in both representations (checked above); that the barrier level is
                # compared with the raw (log) path is outside the statement: recorded as an observation (DESIGN.md §8.4), and the
                # model mirrors it (theorem barrier_flag_depends_on_representation), so a change of it still breaks the tie
                ctx.branches["c17.observation:barrier_level_compared_with_raw_log_path"] += 1
                return
        ctx.fail("oracle", "c17.value_rep_agree", d, {"identity_on_spot_path": va, "log_on_log_path": vb,
                                                    "what": "product value differs between representations for the same spot path"},
                 cls=cls, mirrors_model=mirrors)


# ----------------------------------------------------------------------------- S: identities of the stateless multi-underlying payoffs
# (theorems of the last section of Proofs/C17.lean; references are exact rationals computed here, never another instance of
# the code under test; every payoff object is used again after other work and must return the identical value)
F0, F1 = Fraction(0), Fraction(1)


def frs(xs):
    return [fr(float(x)) for x in xs]


def qclose(x, q, scale):
    """float of the implementation vs exact rational reference, 2^-40 relative to `scale`"""
    x = float(x)
    return math.isfinite(x) and abs(fr(x) - q) <= Fraction(1, 2 ** 40) * max(F1, abs(Fraction(scale)))


def curve_ref(dl, L):
    """exact accruals 1 + delta L, their cumulative products, and the reversed cumulative products (`adj[::-1]`)"""
    acc = [1 + a * b for a, b in zip(frs(dl), frs(L))]
    cp, p = [], F1
    for a in acc:
        p *= a
        cp.append(p)
    return acc, cp, cp[::-1]


def arr(x):
    return np.array(x, dtype=float)


def same_again(ctx, probe, d, cls, f, x, first):
    """object reuse: the same payoff object on the same argument after other evaluations"""
    again = f(x)
    if not identical(first, again):
        ctx.fail("oracle", "c17.history", d, {"what": f"{probe}: second evaluation of the same payoff object on the same argument differs",
                                              "first": repr(first), "again": repr(again)}, cls=cls)
        return False
    return True


def identity_rates(ctx, d):
    """Bond / Swaption / Cap on one Libor curve: bond_today, bond_pos, bond_chain, bond_monotone_rates, swaption_parity, swaption_nonneg,
    swaption_monotone_strike, swaption_zero_strike_bond, cap_nonneg, cap_antitone_strike, cap_zero_of_rates_le,
    cap_eq_sum_caplets, cap_single_period"""
    dl, L0, L, L2, Ks = d["d"], d["L0"], d["L"], d["L2"], sorted(d["Ks"])
    n = len(dl)
    ctx.count("c17.identity.rates", d, branch=f"n{n}")
    acc0, cp0, _ = curve_ref(dl, L0)
    acc, cp, rev = curve_ref(dl, L)
    acc2, cp2, _ = curve_ref(dl, L2)
    factor = 1 / cp0[-1]
    scale = cp[-1] * factor + 1
    fail = lambda name, pay, detail: ctx.fail("oracle", "c17.identity." + name, d, detail, cls=dict(pay=pay))
    try:
        with np.errstate(all="ignore"):
            # two objects of every class exist before any of them is evaluated
            bond, bond_mid = po.Bond(arr(L0), arr(dl)), po.Bond(arr(L), arr(dl))
            swp = {(K, p): po.Swaption(arr(L0), arr(dl), K, po.SwaptionType.PAYER if p else po.SwaptionType.RECEIVER)
                   for K in Ks + [0.0] for p in (True, False)}
            caps = {K: po.Cap(arr(L0), arr(dl), K) for K in Ks}
            for o in [bond_mid] + list(swp.values()) + list(caps.values()):
                o(arr(L2))                                   # other work first: the values judged below come from used objects
            b_today, b1, b2 = float(bond(arr(L0))), float(bond(arr(L))), float(bond(arr(L2)))
            chain = float(bond_mid(arr(L2)))
            if not same_again(ctx, "Bond", d, dict(pay="bond"), lambda x: bond(arr(x)), L, bond(arr(L))):
                return
            pay = {K: float(swp[(K, True)](arr(L))) for K in Ks + [0.0]}
            rec = {K: float(swp[(K, False)](arr(L))) for K in Ks + [0.0]}
            for K in Ks[:1]:
                swp[(K, True)](arr(L2))
                if not same_again(ctx, "Swaption", d, dict(pay="swp"), lambda x: swp[(K, True)](arr(x)), L, swp[(K, True)](arr(L))):
                    return
            capv = {K: float(caps[K](arr(L))) for K in Ks}
            for K in Ks[:1]:
                caps[K](arr(L2))
                if not same_again(ctx, "Cap", d, dict(pay="cap"), lambda x: caps[K](arr(x)), L, caps[K](arr(L))):
                    return
    except Exception as e:  # noqa
        ctx.fail("oracle", "c17.raises", d, {"raises": f"{type(e).__name__}: {e}"}, cls=dict(und="libors", pay="rates", rep="id"))
        return
    # ---- Bond
    if not (qclose(b_today, F1, 1) and b1 > 0 and qclose(b1, cp[-1] * factor, scale)):
        return fail("bond", "bond", {"bond(today)": b_today, "bond(L)": b1, "expected": float(cp[-1] * factor),
                                    "what": "bond on today's curve != 1, or bond not positive / not prod(1+dL)/prod(1+dL0)"})
    if not qclose(b1 * chain, fr(b2), float(scale) * max(1.0, abs(b2))):
        return fail("bond", "bond", {"bond(L0->L)*bond(L->L2)": b1 * chain, "bond(L0->L2)": b2, "what": "bond values do not chain"})
    up = list(L)
    up[d.get("bump", 0) % n] += 0.03125                     # bond_monotone_rates: one rate raised
    with np.errstate(all="ignore"):
        b_up = float(bond(arr(up)))
    if b_up < b1:
        return fail("bond", "bond", {"bond(L)": b1, "bond(one rate raised)": b_up, "what": "bond not increasing in the rates"})
    # ---- Swaption
    annuity = sum(a * b for a, b in zip(frs(dl), rev))
    for i, K in enumerate(Ks + [0.0]):
        swap = (cp[-1] - 1 - fr(K) * annuity) * factor
        sc = (cp[-1] + 1 + abs(fr(K)) * annuity) * factor
        if pay[K] < 0 or rec[K] < 0 or pay[K] * rec[K] != 0.0 or not qclose(pay[K] - rec[K], swap, sc):
            return fail("swaption_parity", "swp", {"K": K, "payer": pay[K], "receiver": rec[K], "swap": float(swap),
                                                   "what": "payer - receiver != swap value, negative value, or both in the money"})
    for K, K2 in zip(Ks, Ks[1:]):
        if pay[K2] > pay[K] + 1e-15 * abs(pay[K]) or rec[K] > rec[K2] + 1e-15 * abs(rec[K2]):
            return fail("swaption_monotone", "swp", {"K": K, "K'": K2, "payer": [pay[K], pay[K2]], "receiver": [rec[K], rec[K2]],
                                                     "what": "payer not decreasing / receiver not increasing in the strike"})
    if not qclose(pay[0.0], max(cp[-1] * factor - factor, F0), scale):
        return fail("swaption_bond", "swp", {"payer(K=0)": pay[0.0], "max(bond - factor, 0)": float(max(cp[-1] * factor - factor, F0))})
    # ---- Cap
    for K in Ks:
        terms = [dk * max(lk - fr(K), F0) * rk * factor for dk, lk, rk in zip(frs(dl), frs(L), rev)]
        if capv[K] < 0 or not qclose(capv[K], sum(terms), sum(abs(t) for t in terms) + 1):
            return fail("cap_caplets", "cap", {"K": K, "cap": capv[K], "caplets": [float(t) for t in terms],
                                               "what": "cap negative or != sum of its caplets"})
        if K >= max(L) and capv[K] != 0.0:
            return fail("cap_caplets", "cap", {"K": K, "cap": capv[K], "what": "cap with no rate above the strike is not 0"})
    for K, K2 in zip(Ks, Ks[1:]):
        if capv[K2] > capv[K] + 1e-15 * abs(capv[K]):
            return fail("cap_monotone", "cap", {"K": K, "K'": K2, "cap": [capv[K], capv[K2]], "what": "cap not decreasing in the strike"})


def identity_rainbow(ctx, d):
    """rainbow_nonneg, rainbow_parity, rainbow_monotone_strike, rainbow_perm, rainbow_single, rainbow_homogeneous"""
    wts, u, Ks, perm = d["w"], d["u"], sorted(d["Ks"]), d["perm"]
    ctx.count("c17.identity.rainbow", d, branch=f"n{len(u)}" + (":ties" if len(set(u)) < len(u) else ""))
    basket = sum(a * b for a, b in zip(frs(wts), sorted(frs(u), reverse=True)))      # weights run from the best performance down
    sc = sum(abs(a * b) for a, b in zip(frs(wts), sorted(frs(u), reverse=True)))
    fail = lambda name, detail: ctx.fail("oracle", "c17.identity." + name, d, detail, cls=dict(pay="rb"))
    try:
        objs = {(K, c): po.Rainbow(arr(wts), K, po.PayoffType.CALL if c else po.PayoffType.PUT) for K in Ks for c in (True, False)}
        for o in objs.values():
            o(arr([x + 0.5 for x in u][::-1]))               # other work first
        call = {K: float(objs[(K, True)](arr(u))) for K in Ks}
        put = {K: float(objs[(K, False)](arr(u))) for K in Ks}
        shuffled = float(objs[(Ks[0], True)](arr([u[i] for i in perm])))
        if not same_again(ctx, "Rainbow", d, dict(pay="rb"), lambda x: objs[(Ks[0], True)](arr(x)), u, objs[(Ks[0], True)](arr(u))):
            return
        single = [float(po.Rainbow(arr([1.0]), Ks[0], t)(arr([u[0]]))) for t in (po.PayoffType.CALL, po.PayoffType.PUT)]
        van = [float(po.Vanilla(Ks[0], t)(np.float64(u[0]))) for t in (po.PayoffType.CALL, po.PayoffType.PUT)]
    except Exception as e:  # noqa
        ctx.fail("oracle", "c17.raises", d, {"raises": f"{type(e).__name__}: {e}"}, cls=dict(und="perf", pay="rb", rep="id"))
        return
    for K in Ks:
        if call[K] < 0 or put[K] < 0 or call[K] * put[K] != 0.0 or not qclose(call[K] - put[K], basket - fr(K), sc + abs(fr(K))):
            return fail("rainbow_parity", {"K": K, "call": call[K], "put": put[K], "basket": float(basket),
                                           "what": "call - put != weighted basket - strike, or a negative value"})
    for K, K2 in zip(Ks, Ks[1:]):
        if call[K2] > call[K] or put[K] > put[K2]:
            return fail("rainbow_monotone", {"K": K, "K'": K2, "call": [call[K], call[K2]], "put": [put[K], put[K2]]})
    for c in (2.0, 0.5):                                     # rainbow_homogeneous (scaling by a power of two is exact in floats)
        for t, ref in ((po.PayoffType.CALL, call[Ks[0]]), (po.PayoffType.PUT, put[Ks[0]])):
            scaled = float(po.Rainbow(arr(wts), c * Ks[0], t)(arr([c * x for x in u])))
            if scaled != c * ref:
                return fail("rainbow_homogeneous", {"c": c, "rainbow(c K)(c u)": scaled, "c rainbow(K)(u)": c * ref})
    if shuffled != call[Ks[0]]:
        return fail("rainbow_perm", {"value": call[Ks[0]], "value on permuted underlyings": shuffled, "perm": perm})
    if single != van:
        return fail("rainbow_single", {"rainbow([1])": single, "vanilla": van})


def identity_ratchet(ctx, d):
    """ratchet_funding_split, ratchet_monotone, ratchet_structured_bounds"""
    dl, L, g, m, sp, inc, first = d["d"], d["L"], d["g"], d["m"], d["s"], d["inc"], d["first"]
    n = len(dl)
    ctx.count("c17.identity.ratchet", d, branch=f"n{n}:" + ("inc0" if inc == 0 else "inc+"))
    acc, cp, rev = curve_ref(dl, L)
    fail = lambda name, detail: ctx.fail("oracle", "c17.identity." + name, d, detail, cls=dict(pay="rat"))
    mk = lambda g_, m_, f_=first: po.Ratchet(arr(dl), g_, m_, sp, inc, f_)
    try:
        objs = [mk(g, m), mk(0.0, 0.0), mk(g, m + 0.125), mk(g, m, first + 0.25)]
        for o in objs:
            o(arr([x + 0.25 for x in L]))                    # other work first
        v, v00, vm, vf = (float(o(arr(L))) for o in objs)
        objs[0](arr([x + 0.125 for x in L]))
        if not same_again(ctx, "Ratchet", d, dict(pay="rat"), lambda x: objs[0](arr(x)), L, objs[0](arr(L))):
            return
    except Exception as e:  # noqa
        ctx.fail("oracle", "c17.raises", d, {"raises": f"{type(e).__name__}: {e}"}, cls=dict(und="libors", pay="rat", rep="id"))
        return
    funding = sum(dk * (fr(g) * lk + fr(m)) * rk for dk, lk, rk in zip(frs(dl), frs(L), rev))
    sumadj = sum(rev)
    sc = (abs(fr(first)) + n * abs(fr(inc)) + max(frs(L)) + fr(sp) + 1) * sumadj * (1 + abs(fr(g)) + abs(fr(m)))
    if not qclose(v00 - v, funding, sc):
        return fail("ratchet_funding", {"ratchet(0,0) - ratchet(g,m)": v00 - v, "funding leg": float(funding)})
    if vm > v + 2.0 ** -40 * float(sc) or vf < v - 2.0 ** -40 * float(sc):
        return fail("ratchet_monotone", {"value": v, "margin raised": vm, "first coupon raised": vf,
                                         "what": "not decreasing in the margin / not increasing in the first coupon"})
    tol = Fraction(1, 2 ** 40) * sc
    if not (fr(first) * sumadj - tol <= fr(v00) <= (fr(first) + n * fr(inc)) * sumadj + tol):
        return fail("ratchet_bounds", {"structured leg": v00, "lower": float(fr(first) * sumadj),
                                       "upper": float((fr(first) + n * fr(inc)) * sumadj)})


def cds_df(d):
    if d["df"] == "affine":
        return affine_df(d["d0"], d["d1"])
    r = d["r"]
    return lambda t: math.exp(-r * t)


def identity_cds(ctx, d):
    """cds_affine_spread, cds_after_maturity, cds_protection, cds_antitone_recovery on one CDS payoff"""
    R, s, T, taus = d["R"], d["s"], d["T"], d["taus"]
    ctx.count("c17.identity.cds", d, branch=d["df"])
    df = cds_df(d)
    fail = lambda name, detail: ctx.fail("oracle", "c17.identity." + name, d, detail, cls=dict(pay="cds"))
    tv = lambda t: math.inf if t == "inf" else t
    try:
        with np.errstate(all="ignore"):
            objs = {k: po.CDS(rr, ss, T, df) for k, (rr, ss) in
                    dict(base=(R, s), zero=(R, 0.0), one=(R, 1.0), twice=(R, 2 * s), rec=(min(R + 0.125, 1.0), s)).items()}
            for o in objs.values():
                o.evaluate(T / 3)                            # other work first
            vals = {k: [float(o.evaluate(tv(t))) for t in taus] for k, o in objs.items()}
            if not same_again(ctx, "CDS", d, dict(pay="cds"), lambda t: objs["base"].evaluate(t), tv(taus[0]), objs["base"].evaluate(tv(taus[0]))):
                return
            v_inf = float(objs["base"].evaluate(math.inf))
    except Exception as e:  # noqa
        ctx.fail("oracle", "c17.raises", d, {"raises": f"{type(e).__name__}: {e}"}, cls=dict(und="dt", pay="cds", rep="id"))
        return
    for i, t in enumerate(taus):
        tau = tv(t)
        if tau == T:                                        # default exactly at maturity: nothing is stated, finite value only
            ctx.branches["c17.dont_care:cds_default_at_maturity"] += 1
            if not all(math.isfinite(vals[k][i]) for k in vals):
                return fail("cds", {"tau": t, "what": "non-finite value for a default at maturity"})
            continue
        base, zero, one, twice, rec = (vals[k][i] for k in ("base", "zero", "one", "twice", "rec"))
        annuity = zero - one
        sc = abs(zero) + abs(annuity) * (1 + 2 * abs(s)) + 1
        if not (abs(base - (zero - s * annuity)) <= 2.0 ** -40 * sc and abs(twice - (zero - 2 * s * annuity)) <= 2.0 ** -40 * sc):
            return fail("cds_affine", {"tau": t, "v(s)": base, "v(0)": zero, "v(1)": one, "v(2s)": twice, "what": "payoff not affine in the spread"})
        if tau > T and base != v_inf:
            return fail("cds_after_maturity", {"tau": t, "value": base, "value(no default)": v_inf})
        want = (1 - R) * df(tau) / df(T) if tau <= T else 0.0
        if abs(zero - want) > 2.0 ** -40 * (abs(want) + 1):
            return fail("cds_protection", {"tau": t, "value at zero spread": zero, "(1-R) df(tau)/df(T)": want})
        if rec > base + 2.0 ** -40 * sc:
            return fail("cds_recovery", {"tau": t, "value": base, "value at higher recovery": rec})


LEAN_VALUES = [  # the literal `example`s at the end of Proofs/C17.lean, replayed on the implementation
    ("bond", lambda: po.Bond(arr([1 / 32, 1 / 16]), arr([0.5, 1.0]))(arr([1 / 16, 1 / 8])), Fraction(1188, 1105)),
    ("cap", lambda: po.Cap(arr([1 / 32, 1 / 16]), arr([0.5, 1.0]), 1 / 16)(arr([1 / 16, 1 / 8])), Fraction(66, 1105)),
    ("swp", lambda: po.Swaption(arr([1 / 32, 1 / 16]), arr([0.5, 1.0]), 1 / 16, po.SwaptionType.PAYER)(arr([1 / 16, 1 / 8])), Fraction(487, 8840)),
    ("swp", lambda: po.Swaption(arr([1 / 32, 1 / 16]), arr([0.5, 1.0]), 1 / 16, po.SwaptionType.RECEIVER)(arr([1 / 16, 1 / 8])), Fraction(0)),
    ("rat", lambda: po.Ratchet(arr([0.5, 1.0]), 1.0, 1 / 16, 1 / 8, 1 / 16, 0.25)(arr([1 / 16, 1 / 8])), Fraction(1155, 4096)),
    ("rb", lambda: po.Rainbow(arr([1.0]), 1.0, po.PayoffType.CALL)(arr([1.5])), Fraction(1, 2)),
    ("rat_coupons_negative_increment", lambda: po.Ratchet(arr([1.0]), 0.0, 0.0, 0.0, -1.0, 1.0)(arr([0.0])), Fraction(0)),
]


def identity_lean_values(ctx, d):
    name, f, want = LEAN_VALUES[d["i"]]
    ctx.count("c17.identity.lean_values", d, branch=name)
    try:
        got = float(f())
    except Exception as e:  # noqa
        ctx.fail("oracle", "c17.raises", d, {"raises": f"{type(e).__name__}: {e}"}, cls=dict(und="libors", pay=name, rep="id"))
        return
    if not qclose(got, want, abs(want) + 1):
        ctx.fail("corr", "c17.lean_values", d, {"name": "literal example of Proofs/C17.lean vs the implementation", "which": name,
                                                "impl": got, "lean": str(want)}, cls=dict(pay=name))


PROBES = {"seq": run_sequence, "parity": identity_vanilla, "callspread": identity_callspread, "butterfly": identity_butterfly,
          "digital": identity_digital, "ki_ko": identity_barrier, "asian": identity_asian, "default": identity_default,
          "notional": identity_notional, "rep": rep_agreement, "rates": identity_rates, "rainbow": identity_rainbow,
          "ratchet": identity_ratchet, "cds": identity_cds, "lean_values": identity_lean_values}


def gen_identity(rng, kind):
    if kind == "parity":
        m = rng.choice([1, 1, 2, 3, 5])
        return dict(kind=kind, u=scalar_u(rng), Ks=[strike(rng, -1, 4) for _ in range(m)], as_list=rng.random() < 0.5)
    if kind == "callspread":
        a, b = sorted(rng.sample(range(1, 64), 2))
        u = scalar_u(rng) if rng.random() < 0.7 else rng.choice([a / 16, b / 16])
        return dict(kind=kind, u=u, K1=a / 16, K2=b / 16)
    if kind == "butterfly":
        a, b, c = sorted(rng.sample(range(1, 64), 3))
        if rng.random() < 0.5:
            b2 = (a + c) / 2                            # the symmetric butterfly
            if a < b2 < c:
                b = b2
        u = scalar_u(rng) if rng.random() < 0.7 else rng.choice([a, b, c]) / 16 + rng.choice([0, 0.5, 2])
        return dict(kind=kind, u=u, K1=a / 16, K2=b / 16, K3=c / 16)
    if kind == "digital":
        K = strike(rng)
        return dict(kind=kind, u=K if rng.random() < 0.2 else scalar_u(rng), K=K)
    if kind == "ki_ko":
        return dict(kind=kind, und=rng.choice(["spot", "asian", "mean", "logspot"]), call=rng.random() < 0.5, up=rng.random() < 0.5,
                    K=strike(rng), B=strike(rng, 0.25, 4), notional=rng.choice([1.0, 2.0, -0.5]), path=gen_path(rng, "id", 1, True))
    if kind == "asian":
        rep = rng.choice(["id", "log"])
        d = rng.choice([1, 1, 2, 3])
        return dict(kind=kind, rep=rep, path=gen_path(rng, rep, d, d == 1))
    if kind == "default":
        rep = rng.choice(["id", "log", "log"])
        d = rng.randint(1, 4)
        return dict(kind=kind, rep=rep, path=gen_path(rng, rep, d, False), **{"as": [rng.choice(LEVELS) for _ in range(d)]})
    if kind == "notional":
        terms, d, flat = gen_terms(rng)
        terms["notional"] = rng.choice([2.0, -1.0, 0.5, 100.0, 12.5, 0.0])
        return dict(kind=kind, terms=terms, path=gen_path(rng, rng.choice(["id", "log"]), d, flat))
    if kind == "rep":
        terms, d, flat = gen_terms(rng)
        return dict(kind=kind, terms=terms, path=gen_path(rng, "log", d, flat))
    if kind == "rates":
        n = rng.choice([1, 1, 2, 3, 4, 6])
        dl = [rng.choice([0.25, 0.5, 1.0, 1.0, 0.0 if rng.random() < 0.1 else 0.5]) for _ in range(n)]
        curve = lambda: [rng.choice([0, 1, 2, 3, 5, 8, 13]) / 64 for _ in range(n)]
        L = curve()
        Ks = sorted({rng.randint(0, 16) / 64 for _ in range(rng.randint(2, 4))} | ({rng.choice(L)} if rng.random() < 0.4 else set())
                    | ({max(L), max(L) + 1 / 64} if rng.random() < 0.3 else set()))
        return dict(kind=kind, d=dl, L0=curve(), L=L, L2=curve(), Ks=[K for K in Ks if K > 0] or [1 / 64], bump=rng.randrange(n))
    if kind == "rainbow":
        n = rng.choice([1, 2, 3, 3, 4, 5])
        u = [g8(rng, 0.25, 3) for _ in range(n)]
        if n > 1 and rng.random() < 0.3:
            u[1] = u[0]                                  # ties among the performances
        wts = [rng.randint(0, 8) / 8 for _ in range(n)]
        if rng.random() < 0.2:
            wts = [1.0] + [0.0] * (n - 1)               # best-of
        perm = list(range(n))
        rng.shuffle(perm)
        return dict(kind=kind, w=wts, u=u, Ks=sorted({strike(rng, 0.25, 3) for _ in range(3)}), perm=perm)
    if kind == "ratchet":
        n = rng.choice([1, 2, 3, 4, 6])
        return dict(kind=kind, d=[rng.choice([0.25, 0.5, 1.0]) for _ in range(n)], L=[rng.randint(0, 13) / 64 for _ in range(n)],
                    g=rng.choice([0.0, 0.5, 1.0, 2.0]), m=rng.randint(0, 4) / 16, s=rng.randint(0, 8) / 16,
                    inc=rng.choice([0, 0, 1, 2, 4]) / 16, first=rng.randint(0, 16) / 16)
    if kind == "cds":
        T = rng.choice([0.5, 1.0, 2.0, 4.0])
        taus = ["inf", T * rng.choice([1.25, 1.5, 3.0]), T * rng.choice([0.125, 0.25, 0.5, 0.75]), T * rng.choice([0.875, 0.9375, 1.0])]
        rng.shuffle(taus)
        base = dict(kind=kind, R=rng.choice([0.0, 0.25, 0.375, 0.5, 0.875]), s=rng.choice([0.0, 0.0078125, 0.015625, 0.125]), T=T, taus=taus)
        if rng.random() < 0.5:
            return dict(base, df="affine", d0=1.0, d1=-rng.choice([1, 2, 3]) / 64)
        return dict(base, df="exp", r=rng.choice([0.005, 0.02, 0.08, 1e-6]))
    raise ValueError(kind)


IDENTITY_KINDS = ["parity", "callspread", "butterfly", "digital", "ki_ko", "asian", "default", "notional", "rep", "rates", "rainbow",
                  "ratchet", "cds"]


def lean_witnesses():
    """the literal inputs of the negation witnesses / examples of Proofs/C17.lean, replayed on the implementation"""
    t = [0.0, 1.0]
    mk = lambda rep, row: dict(op="path", rep=rep, times=t, rows=[row], jrows=[[1.0, 1.0] if rep == "id" else [0.0, 0.0]], flat=True)
    bar = dict(und=dict(k="spot"), pay=dict(k="bar", call=True, K=1.0, up=True, **{"in": False}, B=2.0), notional=1.0)
    fwd = dict(und=dict(k="spot"), pay=dict(k="fwd", K=0.0), notional=1.0)
    asian = dict(und=dict(k="asian"), pay=dict(k="fwd", K=0.0), notional=1.0)
    seqs = [dict(kind="seq", terms=bar, ops=[mk("id", [1.0, 3.0]), mk("id", [1.0, 1.5])]),                  # sticky_flag_witness
            dict(kind="seq", terms=fwd, ops=[dict(op="update", rep="log"), dict(op="update", rep="id"), mk("id", [1.0, 1.5])]),
            dict(kind="seq", terms=asian, ops=[mk("id", [1.0, 1.5])])]                                      # asian_old_witness
    ids = [dict(kind="butterfly", u=3.0, K1=1.0, K2=1.5, K3=3.0),                                           # butterfly_negative_witness
           dict(kind="rep", terms=bar, path=mk("log", [0.0, 1.125])),                                       # barrier_flag_depends_on_representation
           dict(kind="rep", terms=dict(und=dict(k="nth", i=1, **{"as": [-1.0]}), pay=dict(k="fc", c=1.0), notional=1.0),
                path=dict(op="path", rep="log", times=t, rows=[[0.0, 0.0]], jrows=[[0.0, -2.0]], flat=False))]  # nthDefault_disagree_witness
    return seqs, ids


def run(ctx):
    rng = ctx.rng
    seqs, ids = lean_witnesses()
    for d in seqs:
        run_sequence(ctx, d)
    for d in ids:
        PROBES[d["kind"]](ctx, d)
    for i in range(len(LEAN_VALUES)):
        identity_lean_values(ctx, dict(kind="lean_values", i=i))
    for d in directed_sequences(rng):
        run_sequence(ctx, d)
    for _ in range(ctx.n(260, 2600)):
        run_sequence(ctx, gen_sequence(rng))
    for kind in IDENTITY_KINDS:
        for _ in range(ctx.n(120, 1200) if kind not in ("rep", "notional") else ctx.n(250, 2500)):
            PROBES[kind](ctx, gen_identity(rng, kind))


def search(ctx):
    """the tie broke but no oracle fired: more histories and identities on the implementation alone"""
    rng = ctx.rng
    for _ in range(ctx.n(1500, 6000)):
        run_sequence(ctx, gen_sequence(rng), model=False)
        if any(f["kind"] == "oracle" for f in ctx.failures):
            return
    for kind in IDENTITY_KINDS:
        for _ in range(ctx.n(400, 2000)):
            PROBES[kind](ctx, gen_identity(rng, kind))


def replay(ctx, rec):
    d = rec["input"]
    PROBES[d["kind"]](ctx, d)
