"""C14 — Index/state enumerations are bijections: every admissible state exactly once (DESIGN.md §4 C14).

C: implementation vs the Lean model (Drivers/C14.lean executing RpylibModel/Model/Pairing.lean), exact (integers).
S: the property itself on the implementation: pair(project(i)) == i, project(pair(x)) == x, exactly-once enumerations.
"""
from __future__ import annotations

import itertools
import random
import math

import numpy as np

from .. import zoo

from rpylib.distribution import pairing as pg
from rpylib.distribution.pairing import (Cantor, RosenbergStrong, Szudzik, PepisKalmar, HyperbolicPairing, PairingToZd,
                                         PairingToZ1d, Domain, Boundary, StatesManager, mapping_to_z, projection_to_z)
from rpylib.distribution.samplingfactory import create_sampling_inversion_method
from rpylib.tools.generic import lazy_indices_product

RULE = ("indices: every index below the tier bound (quick 4096, thorough 262144) for every pairing (d=2; d=3,4 for "
        "Rosenberg-Strong, d=3 for Szudzik/Pepis-Kalmar), plus directed indices within +-3 of m^2, m^3, m^4, m(m+1)/2, 2^k "
        "for m up to 2^32 (powers of two +-1 and seeded random m in every binade); tuples: every point of a square/cube "
        "and seeded random large coordinates; hyperbolic pairing: every index < 3000 (thorough 20000) and a 25x25 (40x40) square "
        "against the Lean model, d=3,4 through the base-class fold and Z^2, Z^3 through PairingToZd, and the sieve-found indices "
        "where the inverse of the divisor-summatory function is hardest; intervals: every (L,R) with 1<=L,R<=12, omit_zero in "
        "{True,False}, increasing "
        "order and seeded random call histories on fresh objects, plus long asymmetric intervals (long side 1100..5000, short "
        "side 1..8) enumerated in order and then asked again, and 1-d grids 4|1400, 1400|3 drained and probed after exhaustion; sizes: every list over {1..4} of length 1..3, lists with "
        "zeros/ones and seeded random unequal lists; grids: the six 1-d constructors x model families through "
        "create_sampling_inversion_method (h from 0.05 up to 4.0, i.e. beyond the truncation range), synthetic (L,R), box grids d=2,3 "
        "(fixed-size, copula credit incl. d=3 with unequal thresholds, corner-origin boxes with axes of size 1) x every pairing; "
        "real grids d=3,4 (fixed-size nb 3..6, asymmetric-origin unequal axes, copula credit symmetric/asymmetric) with the factory's "
        "Rosenberg-Strong pairing drained to exhaustion; "
        "StatesManager call histories: seeded random histories with skips and max_logged resets, never-skipping and non-decreasing "
        "histories, the Lean negation witnesses; object reuse: one pairing object shared by two managers on two grid objects, "
        "drained interleaved, plus a deep copy taken half-way; several objects of ONE configuration in one process (c14.z1d_twins, "
        "c14.sm_twins, generated before any other PairingToZ1d exists, every scenario on an interval no earlier object of the run mapped): "
        "2..6 PairingToZ1d objects with identical (left, right, omit_zero), resp. StatesManagers on equal 1-d grids (own grid / pairing / "
        "Domain each, built directly or by create_sampling_inversion_method), short side 1..12, long side short+1..30 or +100..600, "
        "symmetric controls; earlier objects asked 0..depth-1 with depth = 0 / before / exactly at / 1-2 past / well past the switch "
        "index 2*min(L,R) / everything, later ones to seeded random depths and the last one to the end; built-and-driven one after the "
        "other, all built first, or asked round robin; always increasing order per object; each object judged on its own answers. "
        "non-trivial = index >= 2 / at least two states; distinct = distinct (probe, pairing, d, block or shape)")
NOT_PROVED = ["HyperbolicPairing: bijectivity N <-> N^2 (and N^d, Z^d through the base-class fold) IS proved for the model "
              "(pair_proj_hyperbolic, proj_pair_hyperbolic, hyperbolic_ndBij) in which a_n is the closed form as coded (proved equal to the "
              "divisor summatory function: aN_hyperbola, aN_divisor_summatory) and the mixed-radix digits enumerate the divisors "
              "(offsets_enumerate_divisors_once); NOT proved, only compared: that numbers.upper_bound_a_n (Halley guess, heuristic bracket "
              "z -+ 3 z^(1/4), bisection) returns the exact inverse upperBound of a_n for every z (checked on every index < 3000/20000 and on "
              "the sieve-found hardest indices up to n = 4e5 quick / 3e6 thorough), that floor(sqrt(n)) in a_n and the float division "
              "floor((z - a_n(n-1)) / np.prod(..)) in projection2d are exact (they are for the magnitudes reached: below 2^52), and that "
              "sympy.factorint / multiplicity agree with the trial division of the model (compared on n < 120 and selected n)",
              "PairingToZ1d.project for arbitrary call orders: false as coded - it holds in increasing order (theorem "
              "z1d_machine_increasing); z1d_order_counterexample is the negation witness (known finding C14-z1d-call-order)",
              "StatesManager on a box: exactly-once-then-exhaustion is proved with the bound the code computes since /repo 94bedf1 "
              "(max of frontier indices and Domain.max_inside_index) for EVERY pairing kind, Rosenberg-Strong included, every dimension >= 2, "
              "any origin index and axis sizes (states_manager_box_all, code_bound_exceeds_box); the pre-fix bound max(frontier)+1 was "
              "adequate only for the monotone pairings (monotone_frontier_bound; rs_frontier_bound_prefix_witness documents the old failure, "
              "finding C14-rs-frontier-bound now fixed). Not proved: domains with a boundary other than Boundary() (max_inside_index then "
              "ranges over the inside states only; the model has no boundary)",
              "the @cache of PairingToZ1d.project is modelled as a memo of the first answer per index that is never evicted "
              "(theorem z1d_memo_stable: a repeated ask returns the first answer for every history); functools itself is trusted. "
              "M has ONE memo and ONE switch state per object: that objects of equal configuration living in one process do not "
              "share either (the cache key is the object's identity) is not a statement of M; it is oracle-checked per object on "
              "multi-object histories (c14.z1d_twins, c14.sm_twins) and each object is compared with M's single-object run",
              "StatesManager for arbitrary call histories: proved for every history without max_logged reset: no index twice, returned "
              "indices strictly increasing, sticky exhaustion (sm_history_invariant, sm_history_at_most_once, sm_history_exhaustion_sticky); "
              "histories with x_k <= k (the sampler's use; all non-decreasing histories without jumps) answer exactly like 0,1,2,... so "
              "exactly-once-then-exhaustion transfers (sm_history_never_skipping, sm_history_no_jump, sm_history_never_skipping_complete). "
              "FALSE for histories that jump ahead (skipped indices are lost: sm_history_skipped_lost, witness sm_history_skip_witness) and once "
              "the reset is used (a reset call answers like a fresh object: sm_reset_is_fresh; an index can come twice and exhaustion is not "
              "sticky: sm_reset_witnesses); the witnesses are replayed on the implementation (probe c14.sm_history, phenomenon=...). These are "
              "consequences of the documented pointer/reset design, not recorded as findings; in 1-d the model uses the pure projection, so "
              "1-d histories are generated never-skipping inside the switched region (see C14-z1d-call-order)",
              "Domain boundaries other than `Boundary()` (Rectangle/Simplex/MyBoundary) are not modelled",
              "the float estimate inside _integer_root is modelled by its exact result (the code corrects it with integers); "
              "Python-level exceptions (dim = 0, empty size list) are outside M"]
ASSUMPTIONS = ["indices and coordinates are Python ints (arbitrary precision); grids have one common origin index "
               "(CTMCGrid stores a single origin_coordinate)",
               "HyperbolicPairing: indices small enough that float sqrt / float division inside a_n and projection2d are exact (< 2^52)"]
TRUSTED = ["sympy.factorint / multiplicity (modelled by trial division, compared) and scipy root_scalar inside numbers.inv_guess_a "
           "(only the final result of upper_bound_a_n is compared with the exact inverse)",
           "functools.cache / lru_cache semantics (the model keeps an explicit cache list)"]

KINDS = ["cantor", "rs2", "rs", "szudzik", "pepis"]


# ------------------------------------------------------------------------------------------- implementation adapters
def impl_proj(kind, z, d):
    if kind == "rs2":
        assert d == 2
        return tuple(int(v) for v in RosenbergStrong.projection2d(z))
    obj = {"cantor": Cantor, "rs": RosenbergStrong, "szudzik": Szudzik, "pepis": PepisKalmar}[kind]()
    return tuple(int(v) for v in obj.projection(z, d))


def impl_pair(kind, xs):
    if kind == "rs2":
        return int(RosenbergStrong.pairing2d(*xs))
    obj = {"cantor": Cantor, "rs": RosenbergStrong, "szudzik": Szudzik, "pepis": PepisKalmar}[kind]()
    return int(obj.pairing(tuple(xs)))


def impl_zd(kind, d):
    cls = {"cantor": Cantor, "rs": RosenbergStrong, "szudzik": Szudzik, "pepis": PepisKalmar}[kind]
    return PairingToZd(cls(), dimension=d, omit_zero=True)


def ill(ans):
    """parse `[a,b;c,d]` into a list of int tuples"""
    inner = ans.strip()[1:-1]
    if inner == "":
        return []
    return [tuple(int(t) for t in part.split(",")) if part else () for part in inner.split(";")]


def il(ans):
    inner = ans.strip()[1:-1]
    return [] if inner == "" else [int(t) for t in inner.split(",")]


def wi(xs):
    return "[" + ",".join(str(int(x)) for x in xs) + "]"


def wii(xss):
    return "[" + ";".join(",".join(str(int(x)) for x in xs) for xs in xss) + "]"


def bad_answer(ctx, probe, inp, ans):
    if ans == "bad-op" or ans == "":
        ctx.fail("corr", probe, inp, {"name": "Drivers/C14 refused the request", "answer": ans})
        return True
    return False


# ------------------------------------------------------------------------------------------- probes: N <-> N^d
def probe_proj_block(ctx, inp):
    """indices start .. start+count-1: implementation projection vs M; oracle pairing(projection(i)) == i"""
    kind, d, start, count = inp["kind"], inp["d"], inp["start"], inp["count"]
    probe = "c14.proj_block"
    cls = dict(kind=kind, d=d)
    ctx.count(probe, inp, nontrivial=start + count > 2, branch=f"{kind}:d{d}:{inp.get('why', 'range')}")
    ctx.evaluations += count - 1
    impl = []
    for i in range(start, start + count):
        ok, res = ctx.guard(probe, inp, impl_proj, kind, i, d)
        if not ok:
            ctx.fail("oracle", probe, dict(inp, index=i), {"what": "projection raised", "exception": repr(res)}, cls=cls)
            return
        impl.append(res)
    # S: the property on the implementation
    for i, t in zip(range(start, start + count), impl):
        if len(t) != d or any(c < 0 for c in t):
            ctx.fail("oracle", probe, dict(inp, index=i), {"what": "projection is not a d-tuple of naturals", "got": list(t)}, cls=cls)
            return
        ok, back = ctx.guard(probe, inp, impl_pair, kind, t)
        if not ok or back != i:
            ctx.fail("oracle", probe, dict(inp, index=i), {"what": "pairing(projection(i)) != i", "projection": [str(c) for c in t],
                                                            "back": repr(back)}, cls=cls)
            return
    # C: against M
    ans = ctx.lean(f"projrange {kind} {d} {start} {count}")
    if bad_answer(ctx, probe, inp, ans):
        return
    model = ill(ans)
    if model != impl:
        k = next(j for j, (a, b) in enumerate(itertools.zip_longest(model, impl)) if a != b)
        ctx.fail("corr", "c14.proj_block.model", dict(inp, index=start + k),
                 {"name": "Drivers/C14 projrange vs Pairing.projection", "impl": [str(c) for c in impl[k]],
                  "model": [str(c) for c in model[k]] if k < len(model) else None}, cls=cls)


def probe_pair_tuples(ctx, inp):
    """tuples: implementation pairing vs M; oracle projection(pairing(x)) == x and injectivity on the batch"""
    kind, tuples = inp["kind"], [tuple(int(c) for c in t) for t in inp["tuples"]]
    d = len(tuples[0])
    probe = "c14.pair_tuples"
    cls = dict(kind=kind, d=d)
    ctx.count(probe, dict(kind=kind, d=d, first=list(map(str, tuples[0])), n=len(tuples), why=inp.get("why")),
              nontrivial=len(tuples) >= 2, branch=f"{kind}:d{d}:{inp.get('why', 'box')}")
    ctx.evaluations += len(tuples) - 1
    impl = []
    for t in tuples:
        ok, z = ctx.guard(probe, inp, impl_pair, kind, t)
        if not ok or z < 0:
            ctx.fail("oracle", probe, dict(kind=kind, tuples=[list(map(str, t))]), {"what": "pairing raised / negative", "got": repr(z)}, cls=cls)
            return
        ok, back = ctx.guard(probe, inp, impl_proj, kind, z, d)
        if not ok or tuple(back) != t:
            ctx.fail("oracle", probe, dict(kind=kind, tuples=[list(map(str, t))]),
                     {"what": "projection(pairing(x)) != x", "index": str(z), "back": repr(back)}, cls=cls)
            return
        impl.append(z)
    if len(set(impl)) != len(set(tuples)):
        ctx.fail("oracle", probe, dict(kind=kind, tuples=[list(map(str, t)) for t in tuples[:50]]),
                 {"what": "two different tuples share an index"}, cls=cls)
        return
    ans = ctx.lean(f"pairmany {kind} {wii(tuples)}")
    if bad_answer(ctx, probe, inp, ans):
        return
    model = il(ans)
    if model != impl:
        k = next(j for j, (a, b) in enumerate(itertools.zip_longest(model, impl)) if a != b)
        ctx.fail("corr", "c14.pair_tuples.model", dict(kind=kind, tuples=[list(map(str, tuples[k]))]),
                 {"name": "Drivers/C14 pairmany vs Pairing.pairing", "impl": str(impl[k]), "model": str(model[k])}, cls=cls)


def probe_hyperbolic(ctx, inp):
    """HyperbolicPairing: S round trips + injectivity on all indices < n and a side x side square; C against M
    (Model/PairingHyperbolic.lean: hypProj / hypPair / aN / factor), exact"""
    probe = "c14.hyperbolic"
    n, side = inp["n"], inp["side"]
    ctx.count(probe, inp, branch="range+square")
    ctx.evaluations += n + side * side - 1
    hp = HyperbolicPairing()
    seen = {}
    impl = []
    for i in range(n):
        ok, t = ctx.guard(probe, inp, lambda: tuple(int(v) for v in hp.projection(i)))
        if not ok:
            ctx.fail("oracle", probe, dict(inp, index=i), {"what": "projection raised", "exception": repr(t)})
            return
        ok, back = ctx.guard(probe, inp, lambda: int(hp.pairing(t)))
        if not ok or back != i or min(t) < 0 or t in seen:
            ctx.fail("oracle", probe, dict(inp, index=i), {"what": "pairing(projection(i)) != i or tuple repeated", "tuple": list(t), "back": repr(back)})
            return
        seen[t] = i
        impl.append(t)
    square = [(x, y) for x in range(side) for y in range(side)]
    zs = []
    for x, y in square:
        ok, z = ctx.guard(probe, inp, lambda: int(hp.pairing((x, y))))
        ok2, back = ctx.guard(probe, inp, lambda: tuple(int(v) for v in hp.projection(z))) if ok else (False, None)
        if not ok or not ok2 or back != (x, y):
            ctx.fail("oracle", probe, dict(inp, tuple=[x, y]), {"what": "projection(pairing(x)) != x", "index": repr(z), "back": repr(back)})
            return
        zs.append(z)
    if len(set(zs)) != len(zs):
        ctx.fail("oracle", probe, inp, {"what": "two different tuples share an index"})
        return
    # C: against M
    model = []
    for start in range(0, n, 1000):
        ans = ctx.lean(f"hypproj {start} {min(1000, n - start)}")
        if bad_answer(ctx, probe, inp, ans):
            return
        model += ill(ans)
    if model != impl:
        k = next(j for j, (a, b) in enumerate(itertools.zip_longest(model, impl)) if a != b)
        ctx.fail("corr", probe + ".model", dict(inp, index=k), {"name": "Drivers/C14 hypproj vs HyperbolicPairing.projection2d",
                                                                 "impl": list(impl[k]), "model": repr(model[k] if k < len(model) else None)})
        return
    mz = il(ctx.lean(f"hyppairmany {wii(square)}"))
    if mz != zs:
        k = next(j for j, (a, b) in enumerate(itertools.zip_longest(mz, zs)) if a != b)
        ctx.fail("corr", probe + ".model", dict(inp, tuple=list(square[k])), {"name": "Drivers/C14 hyppairmany vs HyperbolicPairing.pairing2d",
                                                                              "impl": zs[k], "model": mz[k] if k < len(mz) else None})
        return
    from rpylib.numerical.numbers import a_n
    from sympy import factorint
    ns = list(range(0, min(n, 400))) + [k * k + e for k in range(20, 60) for e in (-1, 0, 1)]
    if il(ctx.lean(f"an {wi(ns)}")) != [int(a_n(k)) for k in ns]:
        ctx.fail("corr", probe + ".model", inp, {"name": "Drivers/C14 an vs numbers.a_n"})
        return
    for k in list(range(1, 120)) + [side * side - 1, 2 ** 10, 2 * 3 * 5 * 7 * 11, 997 * 991, 1009 ** 2]:
        if ill(ctx.lean(f"factor {k}")) != [(int(p), int(e)) for p, e in sorted(factorint(k).items())]:
            ctx.fail("corr", probe + ".model", inp, {"name": "Drivers/C14 factor vs sorted(sympy.factorint(n).items())", "n": k})
            return


def _divisor_sums(M):
    """D[n] = sum_{k<=n} d(k) = a_n(n) by a sieve (independent of the implementation's closed form), n = 0..M"""
    d = np.zeros(M + 1, dtype=np.int32)
    for k in range(1, M + 1):
        d[k::k] += 1
    return np.cumsum(d.astype(np.int64))


def probe_hyperbolic_hard(ctx, inp):
    """oracle only: the hyperbolic projection inverts the divisor-summatory function inside a heuristic bracket
    (numbers.upper_bound_a_n); the indices where that can go wrong are those where the error term
    D(n) - (n log n + (2 gamma - 1) n) is largest relative to D(n)^(1/4).  They are found with a sieve (or given explicitly
    in a replay record) and checked exactly: upper_bound_a_n(z) is the n with a_n(n-1) <= z < a_n(n), and
    pairing(projection(z)) = z with projection(z) not already taken by z-1 / z+1."""
    from rpylib.numerical.numbers import upper_bound_a_n, a_n, euler_gamma
    probe = "c14.hyperbolic_hard"
    hp = HyperbolicPairing()
    if "indices" in inp:
        zs = [int(z) for z in inp["indices"]]
    else:
        M, top, seed = inp["M"], inp["top"], inp["seed"]
        D = _divisor_sums(M)
        n = np.arange(1, M + 1, dtype=np.float64)
        ratio = np.abs(D[1:] - (n * np.log(n) + (2 * euler_gamma - 1) * n)) / np.maximum(D[1:], 1) ** 0.25
        hard = list(np.argsort(-ratio)[:top] + 1)
        r = random.Random(seed)
        hard += [r.randrange(2, M) for _ in range(top // 8)]
        zs = sorted({int(z) for nn in hard for z in (D[nn - 1], D[nn] - 1, D[nn]) if z > 0})
        ctx.branches["c14.hyperbolic_hard:max_error_ratio_x1000"] = int(1000 * float(ratio.max()))
    ctx.count(probe, {k: v for k, v in inp.items()}, branch="sieve" if "indices" not in inp else "explicit")
    ctx.evaluations += len(zs) - 1
    impl = []
    for z in zs:
        ok, nn = ctx.guard(probe, inp, lambda: int(upper_bound_a_n(z)))
        if not ok or not (a_n(nn - 1) <= z < a_n(nn)):
            ctx.fail("oracle", probe, dict(indices=[z]), {"what": "upper_bound_a_n(z) is not the n with a_n(n-1) <= z < a_n(n)", "returned": repr(nn),
                                                         "a_n(n-1)": int(a_n(nn - 1)) if ok else None, "a_n(n)": int(a_n(nn)) if ok else None})
            return
        ok, t = ctx.guard(probe, inp, lambda: tuple(int(v) for v in hp.projection(z)))
        ok2, back = ctx.guard(probe, inp, lambda: int(hp.pairing(t))) if ok else (False, None)
        if not ok or not ok2 or back != z or min(t) < 0:
            ctx.fail("oracle", probe, dict(indices=[z]), {"what": "pairing(projection(z)) != z", "tuple": repr(t), "back": repr(back)})
            return
        impl.append((t[0], t[1], nn))
    # C: against M (projection and the exact inverse of the divisor summatory function), in batches
    step = max(1, len(zs) // ctx.n(600, 4000)) if "indices" not in inp else 1
    sub = zs[::step]
    subimpl = impl[::step]
    model = []
    for a in range(0, len(sub), 200):
        ans = ctx.lean(f"hypprojmany {wi(sub[a:a + 200])}")
        if bad_answer(ctx, probe, inp, ans):
            return
        model += ill(ans)
    if model != subimpl:
        k = next(j for j, (a, b) in enumerate(itertools.zip_longest(model, subimpl)) if a != b)
        ctx.fail("corr", probe + ".model", dict(indices=[sub[k]]), {"name": "Drivers/C14 hypprojmany vs HyperbolicPairing.projection2d / upper_bound_a_n",
                                                                   "impl": list(subimpl[k]), "model": repr(model[k] if k < len(model) else None)})



def probe_hyperbolic_nd(ctx, inp):
    """HyperbolicPairing through the base-class extension to d coordinates and through PairingToZd: S round trips,
    distinctness; C against M (hyperbolic.projD / pairN / zdProject), exact"""
    probe = "c14.hyperbolic_nd"
    d, start, count = inp["d"], inp["start"], inp["count"]
    cls = dict(kind="hyperbolic", d=d)
    ctx.count(probe, inp, nontrivial=start + count > 2, branch=f"d{d}:{inp.get('via', 'N')}")
    ctx.evaluations += count - 1
    hp = HyperbolicPairing()
    if inp.get("via") == "zd":
        p = PairingToZd(hp, dimension=d, omit_zero=True)
        proj, pair, req = (lambda i: p.project(i)), (lambda t: p.pair(t)), f"hypzdproj {d} {start} {count}"
    else:
        proj, pair, req = (lambda i: hp.projection(i, d)), (lambda t: hp.pairing(t)), f"hypprojd {d} {start} {count}"
    impl = []
    for i in range(start, start + count):
        ok, t = ctx.guard(probe, inp, lambda: tuple(int(v) for v in proj(i)))
        ok2, back = ctx.guard(probe, inp, lambda: int(pair(t))) if ok else (False, None)
        bad_shape = ok and (len(t) != d or (inp.get("via") == "zd" and not any(t)) or (inp.get("via") != "zd" and min(t) < 0))
        if not ok or not ok2 or back != i or bad_shape:
            ctx.fail("oracle", probe, dict(inp, index=i), {"what": "pair(project(i)) != i, wrong shape, or an exception", "state": repr(t),
                                                            "back": repr(back)}, cls=cls)
            return
        impl.append(t)
    if len(set(impl)) != len(impl):
        ctx.fail("oracle", probe, inp, {"what": "a tuple is enumerated twice"}, cls=cls)
        return
    ans = ctx.lean(req)
    if bad_answer(ctx, probe, inp, ans):
        return
    model = ill(ans)
    if model != impl:
        k = next(j for j, (a, b) in enumerate(itertools.zip_longest(model, impl)) if a != b)
        ctx.fail("corr", probe + ".model", dict(inp, index=start + k), {"name": "Drivers/C14 " + req.split(" ")[0] + " vs HyperbolicPairing (d coordinates)",
                                                                         "impl": list(impl[k]), "model": repr(model[k] if k < len(model) else None)}, cls=cls)
        return
    if inp.get("via") != "zd":
        sample = impl[:: max(1, len(impl) // 80)]
        if il(ctx.lean(f"hyppairn {wii(sample)}")) != [int(hp.pairing(t)) for t in sample]:
            ctx.fail("corr", probe + ".model", inp, {"name": "Drivers/C14 hyppairn vs HyperbolicPairing.pairing"}, cls=cls)


# ------------------------------------------------------------------------------------------- probes: N <-> Z, Z^d
def probe_fold(ctx, inp):
    probe = "c14.fold"
    vals = [int(v) for v in inp["values"]]
    ctx.count(probe, dict(first=str(vals[0]), n=len(vals), why=inp.get("why")), branch=inp.get("why", "range"))
    ctx.evaluations += len(vals) - 1
    for n in vals:
        z = mapping_to_z(n)
        if not (isinstance(z, (int, np.integer)) and z >= 0) or projection_to_z(z) != n:
            ctx.fail("oracle", probe, dict(values=[str(n)]), {"what": "projection_to_z(mapping_to_z(n)) != n", "z": repr(z), "back": repr(projection_to_z(z))})
            return
        if int(ctx.lean(f"ofz {n}")) != z:
            ctx.fail("corr", "c14.fold.model", dict(values=[str(n)]), {"name": "Drivers/C14 ofz vs mapping_to_z", "impl": str(z)})
            return
        if n >= 0:
            v = projection_to_z(n)
            if mapping_to_z(v) != n:
                ctx.fail("oracle", probe, dict(values=[str(n)]), {"what": "mapping_to_z(projection_to_z(z)) != z", "v": repr(v)})
                return
            if int(ctx.lean(f"toz {n}")) != v:
                ctx.fail("corr", "c14.fold.model", dict(values=[str(n)]), {"name": "Drivers/C14 toz vs projection_to_z", "impl": str(v)})
                return


def probe_zd_block(ctx, inp):
    """PairingToZd.project over a block of indices vs M; oracle: non-zero, pair(project(i)) == i"""
    kind, d, start, count = inp["kind"], inp["d"], inp["start"], inp["count"]
    probe = "c14.zd_block"
    cls = dict(kind=kind, d=d)
    ctx.count(probe, inp, nontrivial=start + count > 2, branch=f"{kind}:d{d}")
    ctx.evaluations += count - 1
    p = impl_zd(kind, d)
    impl = []
    for i in range(start, start + count):
        ok, v = ctx.guard(probe, inp, lambda: tuple(int(c) for c in p.project(i)))
        if not ok:
            ctx.fail("oracle", probe, dict(inp, index=i), {"what": "project raised", "exception": repr(v)}, cls=cls)
            return
        ok, back = ctx.guard(probe, inp, lambda: int(p.pair(v)))
        if len(v) != d or not any(v) or not ok or back != i:
            ctx.fail("oracle", probe, dict(inp, index=i), {"what": "project(i) is the origin / not a d-tuple, or pair(project(i)) != i",
                                                            "state": list(map(str, v)), "back": repr(back)}, cls=cls)
            return
        impl.append(v)
    if len(set(impl)) != len(impl):
        ctx.fail("oracle", probe, inp, {"what": "a state is enumerated twice"}, cls=cls)
        return
    ans = ctx.lean(f"zdproj {kind} 1 {d} {start} {count}")
    if bad_answer(ctx, probe, inp, ans):
        return
    model = ill(ans)
    if model != impl:
        k = next(j for j, (a, b) in enumerate(itertools.zip_longest(model, impl)) if a != b)
        ctx.fail("corr", "c14.zd_block.model", dict(inp, index=start + k),
                 {"name": "Drivers/C14 zdproj vs PairingToZd.project", "impl": list(map(str, impl[k])), "model": repr(model[k] if k < len(model) else None)}, cls=cls)


def probe_zd_states(ctx, inp):
    """every non-zero state of a cube [-b, b]^d: project(pair(v)) == v, indices distinct, vs M"""
    kind, d, b = inp["kind"], inp["d"], inp["b"]
    probe = "c14.zd_states"
    cls = dict(kind=kind, d=d)
    ctx.count(probe, inp, branch=f"{kind}:d{d}")
    p = impl_zd(kind, d)
    idx = {}
    states = [v for v in itertools.product(range(-b, b + 1), repeat=d) if any(v)]
    ctx.evaluations += len(states) - 1
    for v in states:
        ok, i = ctx.guard(probe, inp, lambda: int(p.pair(v)))
        ok2, back = ctx.guard(probe, inp, lambda: tuple(int(c) for c in p.project(i))) if ok and i >= 0 else (False, None)
        if not ok or i < 0 or not ok2 or back != v or i in idx:
            ctx.fail("oracle", probe, dict(inp, state=list(v)), {"what": "project(pair(v)) != v, negative or repeated index",
                                                               "index": repr(i), "back": repr(back)}, cls=cls)
            return
        idx[i] = v
    origin = int(p.pair((0,) * d))
    sample = states[:: max(1, len(states) // 60)]
    model = [int(ctx.lean(f"zdpair {kind} 1 {wi(v)}")) for v in sample]
    if model != [int(p.pair(v)) for v in sample]:
        ctx.fail("corr", "c14.zd_states.model", inp, {"name": "Drivers/C14 zdpair vs PairingToZd.pair"}, cls=cls)
        return
    if origin != -1 or int(ctx.lean(f"zdpair {kind} 1 {wi((0,) * d)}")) != origin:
        ctx.fail("corr", "c14.zd_states.model", inp, {"name": "Drivers/C14 zdpair at the origin", "impl": origin}, cls=cls)


# ------------------------------------------------------------------------------------------- probes: the interval
def interval_states(L, R, omit):
    return [v for v in range(-L, R + 1) if v != 0 or not omit]


def probe_z1d_increasing(ctx, inp):
    L, R, omit = inp["L"], inp["R"], inp["omit"]
    probe = "c14.z1d_increasing"
    o = 1 if omit else 0
    n = L + R + 1 - o
    cls = dict(symmetric=(L == R), history_increasing=True)
    ctx.count(probe, inp, branch="L<R" if L < R else ("L>R" if L > R else "L=R"))
    p = PairingToZ1d((-L, R), omit_zero=omit)
    ok, impl = ctx.guard(probe, inp, lambda: [int(p.project(i)) for i in range(n)])
    if not ok:
        ctx.fail("oracle", probe, inp, {"what": "project raised", "exception": repr(impl)}, cls=cls)
        return
    want = interval_states(L, R, omit)
    if sorted(impl) != want:
        ctx.fail("oracle", probe, inp, {"what": "indices 0..n-1 in increasing order do not hit every state of the interval exactly once",
                                        "got": impl}, cls=cls)
        return
    pairs = [int(p.pair(v)) for v in want]
    if any(not (0 <= i < n) or impl[i] != v for i, v in zip(pairs, want)) or [int(p.pair(v)) for v in impl] != list(range(n)):
        ctx.fail("oracle", probe, inp, {"what": "pair does not invert project", "project": impl, "pair_of_states": pairs}, cls=cls)
        return
    model = il(ctx.lean(f"z1d {L} {R} {o} {n}"))
    mpairs = il(ctx.lean(f"z1dpair {L} {R} {o} {wi(want)}"))
    mrun = ctx.lean(f"z1drun {L} {R} {o} {wi(range(n))}").split(" ")
    if model != impl or mpairs != pairs or il(mrun[0]) != impl or [int(mrun[1]), int(mrun[2])] != [int(p._switch), int(p._kk)]:
        ctx.fail("corr", "c14.z1d_increasing.model", inp, {"name": "Drivers/C14 z1d / z1dpair / z1drun vs PairingToZ1d", "impl": impl,
                                                           "model": model, "impl_pairs": pairs, "model_pairs": mpairs,
                                                           "impl_state": [int(p._switch), int(p._kk)], "model_run": mrun}, cls=cls)


def probe_z1d_stable(ctx, inp):
    """long asymmetric intervals: one in-order enumeration (bijection, pair inverse), then every index is asked again
    (second in-order pass, then project(pair(v)) for every state): the answers must be the first ones. The `@cache` of
    project is what makes index -> state a function once `_switch/_kk` moved on (M: memo never evicted, z1d_memo_stable)"""
    L, R, omit = inp["L"], inp["R"], inp["omit"]
    probe = "c14.z1d_stable"
    o = 1 if omit else 0
    n = L + R + 1 - o
    cls = dict(symmetric=(L == R), history_increasing=True)
    ctx.count(probe, inp, branch="L<R" if L < R else ("L>R" if L > R else "L=R"))
    ctx.evaluations += 3 * n - 1
    p = PairingToZ1d((-L, R), omit_zero=omit)
    ok, first = ctx.guard(probe, inp, lambda: [int(p.project(i)) for i in range(n)])
    if not ok:
        ctx.fail("oracle", probe, inp, {"what": "project raised", "exception": repr(first)}, cls=cls)
        return
    want = interval_states(L, R, omit)
    if sorted(first) != want or [int(p.pair(v)) for v in first] != list(range(n)):
        bad = next((i for i, v in enumerate(first) if not (-L <= v <= R) or int(p.pair(v)) != i), None)
        ctx.fail("oracle", probe, inp, {"what": "in-order enumeration is not a bijection onto the interval inverted by pair",
                                        "first_bad_index": bad, "state": first[bad] if bad is not None else None}, cls=cls)
        return
    ok, second = ctx.guard(probe, inp, lambda: [int(p.project(i)) for i in range(n)])
    if not ok or second != first:
        k = next((i for i, (a, b) in enumerate(zip(first, second)) if a != b), None) if ok else None
        ctx.fail("oracle", probe, inp, {"what": "project(i) asked a second time (same increasing order) answers a different state: "
                                                "pair(project(i)) != i", "index": k, "first_answer": first[k] if k is not None else None,
                                        "second_answer": second[k] if k is not None else repr(second),
                                        "pair_of_second": int(p.pair(second[k])) if k is not None else None}, cls=cls)
        return
    ok, back = ctx.guard(probe, inp, lambda: [int(p.project(int(p.pair(v)))) for v in want])
    if not ok or back != want:
        k = next((i for i, (a, b) in enumerate(zip(want, back)) if a != b), None) if ok else None
        ctx.fail("oracle", probe, inp, {"what": "project(pair(v)) != v after the full enumeration", "state": want[k] if k is not None else None,
                                        "got": back[k] if k is not None else repr(back)}, cls=cls)
        return
    model = il(ctx.lean(f"z1d {L} {R} {o} {n}"))
    ok_model = model == first
    if ok_model and n <= 1200:      # the object as coded incl. its memo, asked twice (quadratic in M: small shapes only)
        mrun = ctx.lean(f"z1drun {L} {R} {o} {wi(list(range(n)) + list(range(n)))}").split(" ")
        ok_model = il(mrun[0]) == first + second and [int(mrun[1]), int(mrun[2])] == [int(p._switch), int(p._kk)]
    if not ok_model:
        ctx.fail("corr", probe + ".model", inp, {"name": "Drivers/C14 z1d / z1drun (two passes) vs PairingToZ1d.project"}, cls=cls)


def probe_z1d_order(ctx, inp):
    """a call history on a FRESH object: C against the state machine of M; S: the answers must not depend on the order"""
    L, R, omit, hist = inp["L"], inp["R"], inp["omit"], inp["history"]
    probe = "c14.z1d_order"
    o = 1 if omit else 0
    increasing = all(b == a + 1 for a, b in zip([-1] + hist, hist))
    cls = dict(symmetric=(L == R), history_increasing=increasing)
    ctx.count(probe, inp, branch=("increasing" if increasing else "shuffled") + (":sym" if L == R else ":asym"))
    p = PairingToZ1d((-L, R), omit_zero=omit)
    ok, impl = ctx.guard(probe, inp, lambda: [int(p.project(i)) for i in hist])
    if not ok:
        ctx.fail("oracle", probe, inp, {"what": "project raised", "exception": repr(impl)}, cls=cls)
        return
    mrun = ctx.lean(f"z1drun {L} {R} {o} {wi(hist)}").split(" ")
    mirrors = il(mrun[0]) == impl and [int(mrun[1]), int(mrun[2])] == [int(p._switch), int(p._kk)]
    if not mirrors:
        ctx.fail("corr", "c14.z1d_order.model", inp, {"name": "Drivers/C14 z1drun vs PairingToZ1d.project (object as coded)",
                                                      "impl": impl, "impl_state": [int(p._switch), int(p._kk)], "model": mrun}, cls=cls)
    pure = il(ctx.lean(f"z1d {L} {R} {o} {max(hist) + 1}"))
    fresh = PairingToZ1d((-L, R), omit_zero=omit)
    ordered = [int(fresh.project(i)) for i in range(max(hist) + 1)]
    want = [ordered[i] for i in hist]
    if impl != want:
        k = next(j for j, (a, b) in enumerate(zip(impl, want)) if a != b)
        ctx.fail("oracle", probe, inp, {"what": "project(i) depends on the call history", "call": k, "index": hist[k], "got": impl[k],
                                        "in_increasing_order": want[k], "all": impl}, cls=cls, mirrors_model=mirrors and pure == ordered)


def z1d_switch_index(L, R, omit):
    """first index whose state lies beyond the shorter side (the object's one-way switch happens there); none if L == R"""
    n = L + R + (0 if omit else 1)
    return n if L == R else 2 * min(L, R) + (0 if omit else 1)


def twin_depths(rng, n, s, after=0):
    """depths (= number of indices 0..depth-1 asked, in increasing order) for several objects of ONE configuration living in
    one process: earlier objects stop never used / before / exactly at / just after / well after the switch index s / at the
    end n, later ones go anywhere up to the end, the last one to the end (+ `after` calls for a manager's exhaustion signal)"""
    def one(reg):
        if reg == "unused":
            return 0
        if reg == "before":
            return rng.randint(1, max(1, s))
        if reg == "at":
            return s + 1
        if reg == "just_after":
            return s + rng.randint(2, 3)
        if reg == "well_after":
            return rng.randint(min(n, s + 2), n)
        return n + after
    early = [min(n + after, one(rng.choice(["unused", "before", "before", "at", "just_after", "just_after", "well_after", "well_after",
                                              "well_after", "full"]))) for _ in range(rng.randint(1, 3))]
    late = [rng.randint(0, n + after) for _ in range(rng.randint(0, 2))] + [n + after]
    return early + late


def twin_schedule(depths, mode):
    """order in which (object, index) are asked: every object sees its own indices 0,1,2,... in increasing order.
    sequential / prebuilt: one object after the other; interleaved: round robin, an object drops out at its depth"""
    if mode == "interleaved":
        return [(j, k) for k in range(max(depths, default=0)) for j, dj in enumerate(depths) if k < dj]
    return [(j, k) for j, dj in enumerate(depths) for k in range(dj)]


def probe_z1d_twins(ctx, inp):
    """several PairingToZ1d objects with IDENTICAL (left, right, omit_zero) alive in one process, each asked the indices
    0..depth-1 in increasing order (mode: 'sequential' = built and driven one after the other, 'prebuilt' = all built first,
    'interleaved' = all built first and asked round robin).  S, judged per object whatever the other objects did: the
    states it returned are in-interval, non-zero when zero is omitted, pairwise different (so after all L+R(+1) indices:
    every state exactly once) and pair(project(k)) == k for every k it was asked; a fully driven object also satisfies
    project(pair(v)) == v.  C: every object's answers are the pure enumeration of M (z1d)."""
    probe = "c14.z1d_twins"
    L, R, omit, depths, mode = inp["L"], inp["R"], inp["omit"], [int(x) for x in inp["depths"]], inp.get("mode", "sequential")
    o = 1 if omit else 0
    n = L + R + 1 - o
    s = z1d_switch_index(L, R, omit)
    cls = dict(symmetric=(L == R), history_increasing=True, objects=len(depths))
    deepest_early = max(depths[:-1], default=0)
    reach = "none" if L == R else ("before" if deepest_early <= s else ("at" if deepest_early == s + 1 else ("full" if deepest_early >= n else "after")))
    ctx.count(probe, inp, nontrivial=len(depths) >= 2 and n >= 2, branch=f"{mode}:earlier_stop_{reach}_switch")
    ctx.evaluations += sum(depths) - 1
    if any(dj > n for dj in depths):
        ctx.fail("corr", probe + ".model", inp, {"name": "harness: depth beyond the number of states of the interval"}, cls=cls)
        return
    objs = [None] * len(depths)
    if mode != "sequential":
        objs = [PairingToZ1d((-L, R), omit_zero=omit) for _ in depths]
    seqs, backs = [[] for _ in depths], [[] for _ in depths]
    try:
        for j, k in twin_schedule(depths, mode):
            if objs[j] is None:
                objs[j] = PairingToZ1d((-L, R), omit_zero=omit)
            v = int(objs[j].project(k))
            seqs[j].append(v)
            backs[j].append(int(objs[j].pair(v)))
    except Exception as e:  # noqa
        ctx.fail("oracle", probe, dict(inp, object=j, index=k), {"what": "project / pair raised", "exception": repr(e)}, cls=cls)
        return
    want = interval_states(L, R, omit)
    for j, (seq, back) in enumerate(zip(seqs, backs)):
        what = k_bad = None
        seen = {}
        for k, v in enumerate(seq):
            if not (-L <= v <= R) or (omit and v == 0):
                what = "project(k) is not a non-zero state of the interval" if omit else "project(k) is not a state of the interval"
            elif v in seen:
                what = f"project(k) repeats the state already returned for index {seen[v]} by the same object"
            elif back[k] != k:
                what = "pair(project(k)) != k"
            if what:
                k_bad = k
                break
            seen[v] = k
        if what is None and len(seq) == n and sorted(seq) != want:
            what, k_bad = "all indices asked but not every state of the interval returned", n - 1
        if what is None and len(seq) == n:
            try:
                again = [int(objs[j].project(int(objs[j].pair(v)))) for v in want]
            except Exception as e:  # noqa
                again = repr(e)
            if again != want:
                what, k_bad = "project(pair(v)) != v on a fully enumerated object", None
        if what:
            ctx.fail("oracle", probe, dict(inp, object=j, index=k_bad),
                     {"what": what, "object": j, "object_depth": depths[j], "depths_of_the_objects_before_it": depths[:j],
                      "index": k_bad, "state": seq[k_bad] if k_bad is not None else None,
                      "pair_of_state": back[k_bad] if k_bad is not None else None, "returned_by_this_object": seq[:60],
                      "missing_states": sorted(set(want) - set(seq))[:10] if len(seq) == n else None}, cls=cls)
            return
    model = il(ctx.lean(f"z1d {L} {R} {o} {max(depths)}")) if max(depths) > 0 else []
    for j, seq in enumerate(seqs):
        if seq != model[: len(seq)]:
            ctx.fail("corr", probe + ".model", dict(inp, object=j), {"name": "Drivers/C14 z1d vs PairingToZ1d.project of one of several equal objects",
                                                                     "impl": seq[:60], "model": model[: len(seq)][:60]}, cls=cls)
            return


def probe_sm_twins(ctx, inp):
    """several StatesManagers on EQUAL 1-d grids (own grid, own PairingToZ1d of the same interval, own Domain each) alive in one
    process, manager j asked x = 0..depth_j-1 in increasing order (modes as in c14.z1d_twins; via = 'direct' or 'factory' =
    through create_sampling_inversion_method, whose constructor already asks x = 0).  S per manager, whatever the others did:
    before exhaustion only in-grid non-origin states, none twice; exhaustion at call L+R and not earlier, nothing returned
    after it.  C: every manager answers like M (sm1d)."""
    probe = "c14.sm_twins"
    L, R, depths, mode, via = inp["L"], inp["R"], [int(x) for x in inp["depths"]], inp.get("mode", "sequential"), inp.get("via", "direct")
    n = L + R
    s = z1d_switch_index(L, R, True)
    cls = dict(source=via, symmetric=(L == R), managers=len(depths))
    deepest_early = max(depths[:-1], default=0)
    reach = "none" if L == R else ("before" if deepest_early <= s else ("at" if deepest_early == s + 1 else ("full" if deepest_early >= n else "after")))
    ctx.count(probe, inp, nontrivial=len(depths) >= 2 and n >= 2, branch=f"{via}:{mode}:earlier_stop_{reach}_switch")
    ctx.evaluations += sum(depths) - 1

    def build():
        axis = np.array([float(k) for k in range(-L, R + 1)])
        g = zoo.CTMCGrid(h=1.0, origin_coordinate=L, axes=[axis])
        if via == "factory":
            inv = create_sampling_inversion_method(g, zoo.make_levy("hem", {}), 1.0, False)
            return inv.state_manager, as_state(inv._simulated_state_increments[0], 1)
        p = PairingToZ1d((-L, R), omit_zero=True)
        return StatesManager(pairing=p, domain=Domain(boundary=Boundary(), grid=g, pairing=p), grid=g), None

    sms = [None] * len(depths)
    outs = [[] for _ in depths]
    j = k = None
    try:
        if mode != "sequential":
            sms = [build() for _ in depths]
        for j, k in twin_schedule(depths, mode):
            if sms[j] is None:
                sms[j] = build()
            outs[j] += run_manager(sms[j][0], 1, [k], -1, first=sms[j][1])[0]
    except Exception as e:  # noqa
        ctx.fail("oracle", probe, dict(inp, object=j, index=k), {"what": "building / asking a StatesManager raised", "exception": repr(e)}, cls=cls)
        return
    states = set(box_states(L, [L + R + 1]))
    for j, out in enumerate(outs):
        what = k_bad = None
        seen = {}
        for k, st in enumerate(out):
            if st is None:
                if k < n:
                    what = "exhaustion signalled before every in-grid non-origin state was returned"
            elif k >= n or None in out[:k]:
                what = "a state is returned although every in-grid state was already returned / after exhaustion was signalled"
            elif st not in states:
                what = "a returned state is outside the grid or is the origin"
            elif st in seen:
                what = f"the state returned at call {seen[st]} is returned again by the same manager"
            if what:
                k_bad = k
                break
            seen[st] = k
        if what:
            ctx.fail("oracle", probe, dict(inp, object=j, index=k_bad),
                     {"what": what, "manager": j, "manager_calls": depths[j], "calls_of_the_managers_before_it": depths[:j], "call": k_bad,
                      "answer": repr(out[k_bad]), "returned_by_this_manager": repr(out[:60]),
                      "missing_states": sorted(states - set(out))[:10] if len(out) >= n else None}, cls=cls)
            return
    for j, out in enumerate(outs):
        if not out:
            continue
        m_outs, _, _ = parse_sm(ctx.lean(f"sm1d {L} {R} -1 {wi(range(len(out)))}"))
        if m_outs != out:
            ctx.fail("corr", probe + ".model", dict(inp, object=j), {"name": "Drivers/C14 sm1d vs one of several StatesManagers on equal grids",
                                                                     "impl": repr(out)[:300], "model": repr(m_outs)[:300]}, cls=cls)
            return


# ------------------------------------------------------------------------------------------- probes: lazy product
def probe_lazy(ctx, inp):
    sizes = inp["sizes"]
    probe = "c14.lazy"
    cls = dict(equal=len(set(sizes)) == 1)
    ctx.count(probe, inp, nontrivial=math.prod(sizes) >= 2, branch="equal" if cls["equal"] else "unequal")
    ok, impl = ctx.guard(probe, inp, lambda: [tuple(int(c) for c in t) for t in lazy_indices_product(list(sizes))])
    if not ok:
        ctx.fail("oracle", probe, inp, {"what": "lazy_indices_product raised", "exception": repr(impl)}, cls=cls)
        return
    want = list(itertools.product(*[range(s) for s in sizes]))
    if len(impl) != len(want) or set(impl) != set(want) or len(set(impl)) != len(impl):
        ctx.fail("oracle", probe, inp, {"what": "not every index tuple exactly once", "n": len(impl), "expected_n": len(want),
                                        "missing": sorted(set(want) - set(impl))[:5], "extra": sorted(set(impl) - set(want))[:5]}, cls=cls)
        return
    model = ill(ctx.lean(f"lazy {wi(sizes)}"))
    if model != impl:
        ctx.fail("corr", "c14.lazy.model", inp, {"name": "Drivers/C14 lazy vs lazy_indices_product (order included)",
                                                 "impl": impl[:8], "model": model[:8]}, cls=cls)


# ------------------------------------------------------------------------------------------- probes: StatesManager
def as_state(s, d):
    if d == 1:
        return (int(s),)
    return tuple(int(c) for c in s)


def run_manager(sm, d, xs, max_logged, first=None):
    """returns list of (state tuple | None on exhaustion); after-exhaustion values are kept apart (don't-care)"""
    outs, after = [], []
    for x in xs:
        if first is not None and x == 0:
            outs.append(first)
            continue
        s, brk = sm.project_index_to_state_increment(x, max_logged)
        if brk:
            outs.append(None)
            after.append(as_state(s, d))
        else:
            outs.append(as_state(s, d))
    return outs, after


def parse_sm(ans):
    body, last, mf = ans.rsplit(" ", 2)
    outs = [None if t == "X" else tuple(int(c) for c in t.split(",")) for t in body.split(";")] if body else []
    return outs, int(last), int(mf)


def box_states(o, ns):
    return [v for v in itertools.product(*[range(-o, n - o) for n in ns]) if any(v)]


def sm_check(ctx, probe, inp, cls, sm, d, o, ns, model_req, first=None, after_calls=3):
    """increasing calls x = 0,1,2,… until exhaustion (+3): S exactly-once-then-exhaustion, C against M"""
    states = box_states(o, ns)
    limit = int(sm.max_frontier_indices) + 5
    outs, after = [], []
    x = 0
    exhausted_at = None
    try:
        while x <= limit + after_calls:
            o1, a1 = run_manager(sm, d, [x], -1, first=first)
            outs += o1
            after += a1
            if o1[0] is None and exhausted_at is None:
                exhausted_at = x
            if exhausted_at is not None and x >= exhausted_at + after_calls:
                break
            x += 1
    except Exception as e:  # noqa
        ctx.fail("oracle", probe, inp, {"what": "project_index_to_state_increment raised", "call": x, "exception": repr(e)}, cls=cls)
        return
    ans = ctx.lean(model_req(list(range(len(outs)))))
    if bad_answer(ctx, probe, inp, ans):
        return
    m_outs, m_last, m_mf = parse_sm(ans)
    mirrors = (m_outs == outs and m_last == int(sm._last_projected_index) and m_mf == int(sm.max_frontier_indices))
    if not mirrors:
        k = next((j for j, (a, b) in enumerate(itertools.zip_longest(m_outs, outs)) if a != b), None)
        ctx.fail("corr", probe + ".model", inp, {"name": "Drivers/C14 sm1d/smbox vs StatesManager.project_index_to_state_increment",
                                                 "first_difference_at_call": k, "impl": repr(outs[k]) if k is not None else None,
                                                 "model": repr(m_outs[k]) if k is not None and k < len(m_outs) else None,
                                                 "impl_last": int(sm._last_projected_index), "model_last": m_last,
                                                 "impl_max_frontier": int(sm.max_frontier_indices), "model_max_frontier": m_mf}, cls=cls)
    returned = [s for s in outs if s is not None]
    first_none = outs.index(None) if None in outs else len(outs)
    what = None
    if exhausted_at is None:
        what = "exhaustion is never signalled"
    elif any(s is not None for s in outs[first_none:]):
        what = "a state is returned after exhaustion was signalled"
    elif len(set(returned)) != len(returned):
        what = "a state is returned twice"
    elif set(returned) - set(states):
        what = "a returned state is outside the grid or is the origin"
    elif set(states) - set(returned):
        what = "exhaustion signalled before every in-grid non-origin state was returned"
    elif any(s not in states and not ((o == 0 or o == ns[-1] - 1) and not any(s)) for s in after):   # origin at an end of the last axis: it is a frontier state itself
        what = "the state handed back at exhaustion is not an in-grid state"
    if what:
        miss = sorted(set(states) - set(returned))
        ctx.fail("oracle", probe, inp, {"what": what, "returned": len(returned), "in_grid_states": len(states), "missing": miss[:6],
                                        "n_missing": len(miss), "exhausted_at_call": exhausted_at}, cls=cls, mirrors_model=mirrors)


def probe_sm_1d(ctx, inp):
    """1-d grids. source = 'factory' (real grid + create_sampling_inversion_method) or 'synthetic' (L, R)"""
    probe = "c14.sm_1d"
    if inp["source"] == "factory":
        model = zoo.make_levy(inp["family"], inp["params"])
        try:
            g, _ = zoo.make_grid(inp["grid_kind"], model, inp["h"], **inp.get("kw", {}))
        except Exception as e:  # noqa  constructor rejected the arguments
            ctx.branches[f"c14.sm_1d.ctor_raises:{inp['grid_kind']}:{type(e).__name__}"] += 1
            return
        if g.dimension != 1:
            return
        L = int(g.origin_coordinate.value)
        R = len(g.axes[0]) - L - 1
        cls = dict(source="factory", grid_kind=inp["grid_kind"])
        ctx.count(probe, inp, nontrivial=L + R >= 2, branch=f"factory:{inp['grid_kind']}")
        if L < 1 or R < 1:
            ctx.branches["c14.sm_1d.one_sided_grid_skipped"] += 1
            return
        try:
            inv = create_sampling_inversion_method(g, model, 1.0, False)
        except Exception as e:  # noqa
            ctx.fail("oracle", probe, inp, {"what": "create_sampling_inversion_method raised", "exception": repr(e)}, cls=cls)
            return
        sm = inv.state_manager
        first = as_state(inv._simulated_state_increments[0], 1)
    else:
        L, R = inp["L"], inp["R"]
        cls = dict(source="synthetic")
        ctx.count(probe, inp, nontrivial=L + R >= 2, branch="synthetic")
        axis = np.array([float(k) for k in range(-L, R + 1)])
        g = zoo.CTMCGrid(h=1.0, origin_coordinate=L, axes=[axis])
        p = PairingToZ1d((-L, R), omit_zero=True)
        sm = StatesManager(pairing=p, domain=Domain(boundary=Boundary(), grid=g, pairing=p), grid=g)
        first = None
    ctx.evaluations += L + R
    sm_check(ctx, probe, dict(inp, L=L, R=R), cls, sm, 1, L, [L + R + 1],
             lambda xs: f"sm1d {L} {R} -1 {wi(xs)}", first=first)


def probe_sm_frontier_after_exhaustion(ctx, inp):
    """real 1-d CTMCGrid, very asymmetric: drain the StatesManager, then the states handed back at exhaustion
    (`_sample_frontier_state_increment` re-projects the two frontier indices) must be in-grid frontier states"""
    probe = "c14.sm_frontier_after_exhaustion"
    L, R = inp["L"], inp["R"]
    cls = dict(source="synthetic", L=L, R=R)
    ctx.count(probe, inp, branch="L<R" if L < R else "L>R")
    ctx.evaluations += L + R
    np.random.seed((ctx.seed * 7919 + 31 * L + R) % (2 ** 32))     # frontier choice is np.random.choice: make it repeatable
    axis = np.array([float(k) for k in range(-L, R + 1)])
    g = zoo.CTMCGrid(h=1.0, origin_coordinate=L, axes=[axis])
    p = PairingToZ1d((-L, R), omit_zero=True)
    sm = StatesManager(pairing=p, domain=Domain(boundary=Boundary(), grid=g, pairing=p), grid=g)
    sm_check(ctx, probe, inp, cls, sm, 1, L, [L + R + 1], lambda xs: f"sm1d {L} {R} -1 {wi(xs)}", after_calls=24)
    # every post-exhaustion state must be one of the two frontier states
    try:
        post = [as_state(sm.project_index_to_state_increment(L + R + 50 + k)[0], 1)[0] for k in range(24)]
    except Exception as e:  # noqa
        ctx.fail("oracle", probe, inp, {"what": "project_index_to_state_increment raised after exhaustion", "exception": repr(e)}, cls=cls)
        return
    if any(v not in (-L, R) for v in post):
        ctx.fail("oracle", probe, inp, {"what": "state handed back after exhaustion is not a frontier state of the grid",
                                        "got": sorted(set(post)), "frontier": [-L, R]}, cls=cls)


def make_box_grid(inp):
    if inp["grid"] == "fixed":
        return zoo.CTMCUniformGrid.create_from_fixed_nb_of_points(h=0.1, nb_of_points=inp["nb"], dimension=inp["d"]), None
    if inp["grid"] == "axes":      # CTMCGrid accepts axes of different lengths around one origin index
        axes = [np.array([float(k - inp["o"]) for k in range(n)]) for n in inp["ns"]]
        return zoo.CTMCGrid(h=1.0, origin_coordinate=inp["o"], axes=axes), None
    margins = [zoo.make_levy(f, {}) for f in inp["margins"]]
    cm = zoo.make_copula_model(margins, zoo.make_copula(inp["copula"]))
    return zoo.CTMCCredit(h=inp["h"], level_a=list(inp["a"]), model=cm, symmetric_grid=inp["sym"]), cm


def probe_sm_box(ctx, inp, probe="c14.sm_box"):
    """box grids d = 2, 3, 4. pairing = explicit kind, or 'factory' (create_sampling_inversion_method chooses)"""
    try:
        g, cm = make_box_grid(inp)
    except Exception as e:  # noqa
        ctx.branches[f"c14.sm_box.ctor_raises:{inp['grid']}:{type(e).__name__}"] += 1
        return
    d = g.dimension
    o = int(g.origin_coordinate[0])
    ns = [len(a) for a in g.axes]
    first = None
    if inp["pairing"] == "factory":
        if cm is None:
            cm = zoo.make_copula_model([zoo.make_levy("hem", {}) for _ in range(d)], zoo.make_copula("clayton"))
        try:
            inv = create_sampling_inversion_method(g, cm, 1.0, True)
        except Exception as e:  # noqa
            ctx.fail("oracle", probe, inp, {"what": "create_sampling_inversion_method raised", "exception": repr(e)},
                     cls=dict(pairing="factory", d=d))
            return
        sm = inv.state_manager
        kind = {Szudzik: "szudzik", RosenbergStrong: "rs", Cantor: "cantor", PepisKalmar: "pepis"}.get(type(sm.pairing.n_pairing))
        first = as_state(inv._simulated_state_increments[0], d)
        if kind is None:
            ctx.fail("corr", probe + ".model", inp, {"name": "pairing chosen by create_sampling_inversion_method is not modelled",
                                                     "got": type(sm.pairing.n_pairing).__name__}, cls=dict(pairing="factory", d=d))
            return
    else:
        kind = inp["pairing"]
        p = impl_zd(kind, d)
        sm = StatesManager(pairing=p, domain=Domain(boundary=Boundary(), grid=g, pairing=p), grid=g)
    cls = dict(pairing=kind, d=d, via=("factory" if inp["pairing"] == "factory" else "direct"))
    if inp.get("require_rs") and kind != "rs":
        ctx.fail("corr", probe + ".model", inp, {"name": "the factory no longer chooses Rosenberg-Strong for d >= 3", "got": kind}, cls=cls)
        return
    ctx.count(probe, inp, branch=f"{kind}:d{d}:{inp['grid']}:{cls['via']}")
    ctx.evaluations += math.prod(ns) - 2
    # C: the two ingredients of the bound (since 94bedf1): the frontier list (unchanged) and Domain.max_inside_index
    ans = ctx.lean(f"smfrontier {kind} {o} {wi(ns)}").split(" ")
    impl_mf, impl_mi = int(max(sm.frontier_states_indices)), getattr(sm.domain, "max_inside_index", None)
    if [int(ans[0]), int(ans[1])] != [impl_mf, impl_mi if impl_mi is None else int(impl_mi)]:
        ctx.fail("corr", probe + ".model", inp, {"name": "Drivers/C14 smfrontier vs max(frontier_states_indices) / Domain.max_inside_index",
                                                 "impl": [impl_mf, repr(impl_mi)], "model": ans}, cls=cls)
    sm_check(ctx, probe, inp, cls, sm, d, o, ns, lambda xs: f"smbox {kind} {o} {wi(ns)} -1 {wi(xs)}", first=first)


def probe_sm_factory_nd(ctx, inp):
    """real grids of dimension >= 3 with the pairing create_sampling_inversion_method chooses (Rosenberg-Strong): every inside
    non-origin state exactly once before exhaustion (false before /repo 94bedf1: theorem rs_frontier_bound_prefix_witness; true
    of M now: states_manager_box_all).  Same checks as c14.sm_box, own probe name so that the case is counted and replayable."""
    probe_sm_box(ctx, dict(inp, pairing="factory", require_rs=True), probe="c14.sm_factory_nd")


def probe_sm_history(ctx, inp):
    """arbitrary call histories (skip pointer, max_logged reset) on a fresh StatesManager of a box grid: C against M; S for the
    parts proved of M: no state twice and sticky exhaustion without reset (any history), never-skipping histories answer
    like 0,1,2,...; `phenomenon` = a Lean negation witness that must show on the implementation as well"""
    probe = "c14.sm_history"
    kind, o, ns, xs, ml = inp["pairing"], inp["o"], inp["ns"], inp["xs"], inp["max_logged"]
    d = len(ns)
    cls = dict(pairing=kind, d=d)
    ctx.count(probe, inp, branch=f"{kind}:d{d}")
    axes = [np.array([float(k - o) for k in range(n)]) for n in ns]
    g = zoo.CTMCGrid(h=1.0, origin_coordinate=o, axes=axes)
    if d == 1:
        L, R = o, ns[0] - o - 1
        p = PairingToZ1d((-L, R), omit_zero=True)
        req = f"sm1d {L} {R} {ml} {wi(xs)}"
    else:
        p = impl_zd(kind, d)
        req = f"smbox {kind} {o} {wi(ns)} {ml} {wi(xs)}"
    sm = StatesManager(pairing=p, domain=Domain(boundary=Boundary(), grid=g, pairing=p), grid=g)
    try:
        outs, after = run_manager(sm, d, xs, ml)
    except Exception as e:  # noqa
        ctx.fail("oracle", probe, inp, {"what": "project_index_to_state_increment raised", "exception": repr(e)}, cls=cls)
        return
    states = set(box_states(o, ns))
    returned = [s for s in outs if s is not None]
    if set(returned) - states or any(s not in states for s in after):
        ctx.fail("oracle", probe, inp, {"what": "a returned state is outside the grid or is the origin", "outs": repr(outs)[:400]}, cls=cls)
        return
    m_outs, m_last, m_mf = parse_sm(ctx.lean(req))
    mirrors = not (m_outs != outs or m_last != int(sm._last_projected_index) or m_mf != int(sm.max_frontier_indices))
    if not mirrors:
        k = next((j for j, (a, b) in enumerate(itertools.zip_longest(m_outs, outs)) if a != b), None)
        ctx.fail("corr", probe + ".model", inp, {"name": "Drivers/C14 sm1d/smbox (history) vs StatesManager", "first_difference_at_call": k,
                                                 "impl": repr(outs)[:300], "model": repr(m_outs)[:300],
                                                 "impl_last": int(sm._last_projected_index), "model_last": m_last}, cls=cls)
    no_reset = ml not in xs
    cls = dict(cls, reset=not no_reset)
    if no_reset:
        # theorem sm_history_at_most_once / sm_history_exhaustion_sticky: any history without reset
        if len(set(returned)) != len(returned):
            ctx.fail("oracle", probe, inp, {"what": "a state is returned twice although max_logged is never hit", "outs": repr(outs)[:400]},
                     cls=cls, mirrors_model=mirrors)
            return
        if None in outs and any(s is not None for s in outs[outs.index(None):]):
            ctx.fail("oracle", probe, inp, {"what": "a state is returned after exhaustion was signalled (no reset)", "outs": repr(outs)[:400]},
                     cls=cls, mirrors_model=mirrors)
            return
        if all(x <= k for k, x in enumerate(xs)):
            # theorem sm_history_never_skipping: the answers are those of the calls 0, 1, ..., len-1 on a fresh object
            ctx.branches["c14.sm_history:never_skipping"] += 1
            if d == 1:
                p2 = PairingToZ1d((-L, R), omit_zero=True)
            else:
                p2 = impl_zd(kind, d)
            sm2 = StatesManager(pairing=p2, domain=Domain(boundary=Boundary(), grid=g, pairing=p2), grid=g)
            ref, _ = run_manager(sm2, d, list(range(len(xs))), -1)
            if ref != outs:
                k = next(j for j, (a, b) in enumerate(zip(ref, outs)) if a != b)
                ctx.fail("oracle", probe, inp, {"what": "a history that never asks beyond the number of calls made answers differently from 0,1,2,...",
                                                "call": k, "got": repr(outs[k]), "in_order": repr(ref[k])}, cls=cls, mirrors_model=mirrors)
    ph = inp.get("phenomenon")
    if ph:
        # the Lean negation witnesses (sm_history_skip_witness, sm_reset_witnesses) replayed on the implementation
        def shows(o):
            r = [s for s in o if s is not None]
            if ph == "skip":
                return None in o and len(set(r)) < len(states)
            if ph == "repeat":
                return len(set(r)) < len(r)
            if ph == "revive":
                return None in o and any(s is not None for s in o[o.index(None):])
            return False
        ctx.branches[f"c14.sm_history:witness:{ph}:{'reproduced' if shows(outs) else 'NOT-reproduced'}"] += 1
        if shows(outs) != shows(m_outs) or not shows(m_outs):
            ctx.fail("corr", probe + ".model", inp, {"name": f"negation witness '{ph}' of the Lean model is not reproduced by the implementation",
                                                     "impl": repr(outs)[:300], "model": repr(m_outs)[:300]}, cls=cls)


def probe_sm_shared(ctx, inp):
    """object reuse: two StatesManagers sharing ONE pairing object (1-d: the stateful, cached PairingToZ1d; n-d: one
    PairingToZd / one lru_cached RosenbergStrong) drained interleaved; then a deep copy taken half-way is drained too.
    S: each manager returns every in-grid non-origin state exactly once, then exhaustion; both agree call by call."""
    import copy
    probe = "c14.sm_shared"
    kind, o, ns = inp["pairing"], inp["o"], inp["ns"]
    d = len(ns)
    cls = dict(pairing=kind, d=d)
    ctx.count(probe, inp, branch=f"{kind}:d{d}:{inp.get('mode', 'interleaved')}")
    axes = [np.array([float(k - o) for k in range(n)]) for n in ns]
    g = zoo.CTMCGrid(h=1.0, origin_coordinate=o, axes=axes)
    g2 = zoo.CTMCGrid(h=0.5, origin_coordinate=o, axes=[a / 2 for a in axes])      # a second grid object of the same shape
    if d == 1:
        L, R = o, ns[0] - o - 1
        p = PairingToZ1d((-L, R), omit_zero=True)
        req = lambda xs: f"sm1d {L} {R} -1 {wi(xs)}"
    else:
        p = impl_zd(kind, d)
        req = lambda xs: f"smbox {kind} {o} {wi(ns)} -1 {wi(xs)}"
    try:
        sm1 = StatesManager(pairing=p, domain=Domain(boundary=Boundary(), grid=g, pairing=p), grid=g)
        sm2 = StatesManager(pairing=p, domain=Domain(boundary=Boundary(), grid=g2, pairing=p), grid=g2)
        limit = int(sm1.max_frontier_indices) + 4
        o1, o2, o3 = [], [], []
        sm3 = None
        half = max(1, limit // 2)
        for x in range(limit + 1):
            if x == half:
                sm3 = copy.deepcopy(sm1)
                o3 = list(o1)
            o1 += run_manager(sm1, d, [x], -1)[0]
            o2 += run_manager(sm2, d, [x], -1)[0]
            if sm3 is not None:
                o3 += run_manager(sm3, d, [x], -1)[0]
    except Exception as e:  # noqa
        ctx.fail("oracle", probe, inp, {"what": "StatesManager raised", "exception": repr(e)}, cls=cls)
        return
    ctx.evaluations += 3 * len(o1) - 1
    m_outs, _, _ = parse_sm(ctx.lean(req(list(range(limit + 1)))))
    mirrors = m_outs == o1
    if not mirrors:
        ctx.fail("corr", probe + ".model", inp, {"name": "Drivers/C14 sm1d/smbox vs the first of two StatesManagers sharing a pairing object",
                                                 "impl": repr(o1)[:300], "model": repr(m_outs)[:300]}, cls=cls)
    if o2 != o1 or o3 != o1:
        who = "second manager sharing the pairing object" if o2 != o1 else "deep copy taken half-way"
        other = o2 if o2 != o1 else o3
        k = next(j for j, (a, b) in enumerate(zip(o1, other)) if a != b)
        ctx.fail("oracle", probe, inp, {"what": f"the {who} enumerates differently from the first manager", "call": k,
                                        "first": repr(o1[k]), "other": repr(other[k])}, cls=cls, mirrors_model=mirrors)
        return
    returned = [s for s in o1 if s is not None]
    if len(set(returned)) != len(returned) or None not in o1:
        ctx.fail("oracle", probe, inp, {"what": "a state twice or no exhaustion with a shared pairing object"}, cls=cls, mirrors_model=mirrors)


PROBES = {"c14.proj_block": probe_proj_block, "c14.pair_tuples": probe_pair_tuples, "c14.hyperbolic": probe_hyperbolic,
          "c14.hyperbolic_hard": probe_hyperbolic_hard,
          "c14.fold": probe_fold, "c14.zd_block": probe_zd_block, "c14.zd_states": probe_zd_states,
          "c14.z1d_increasing": probe_z1d_increasing, "c14.z1d_order": probe_z1d_order, "c14.z1d_stable": probe_z1d_stable,
          "c14.sm_frontier_after_exhaustion": probe_sm_frontier_after_exhaustion, "c14.lazy": probe_lazy,
          "c14.sm_1d": probe_sm_1d, "c14.sm_box": probe_sm_box, "c14.sm_history": probe_sm_history,
          "c14.hyperbolic_nd": probe_hyperbolic_nd, "c14.sm_shared": probe_sm_shared, "c14.sm_factory_nd": probe_sm_factory_nd,
          "c14.z1d_twins": probe_z1d_twins, "c14.sm_twins": probe_sm_twins}


# ------------------------------------------------------------------------------------------- generators
def directed_centres(rng, per_binade):
    """m up to 2^32: powers of two +-1 and random m in every binade; centres m^2, m^3, m^4, m(m+1)/2, 2^k"""
    ms = set()
    for k in range(1, 33):
        ms.update({2 ** k - 1, 2 ** k, 2 ** k + 1})
        for _ in range(per_binade):
            ms.add(rng.randrange(2 ** (k - 1), 2 ** k) + 1)
    ms.update({94906265, 94906266, 94906267, 67108865, 5749, 5750, 208063, 208064, 2642245, 2642246, 10 ** 6, 10 ** 8, 3 * 10 ** 9})
    out = []
    for m in sorted(x for x in ms if x <= 2 ** 32 + 1):
        out += [("m2", m * m), ("m3", m ** 3), ("tri", m * (m + 1) // 2)]
        if m <= 2 ** 24:
            out.append(("m4", m ** 4))
    for k in range(2, 129, 3):
        out.append(("pow2", 2 ** k))
    return out


def twin_scenarios(ctx, rng):
    used = set()

    def fresh_interval(sym_ok=True):
        for _ in range(50):
            r = rng.random()
            if r < 0.08 and sym_ok:
                L = R = rng.randint(13, 40)                       # control: no switch at all
            else:
                short = rng.randint(1, 12)
                long = short + (rng.randint(1, 30) if r < 0.9 else rng.randint(100, 600))
                L, R = (short, long) if rng.random() < 0.5 else (long, short)
            if (L, R) not in used and not (L <= 12 and R <= 12):
                break
        used.add((L, R))
        return L, R

    for _ in range(ctx.n(150, 1500)):
        L, R = fresh_interval()
        for omit in ((True, False) if rng.random() < 0.3 else (rng.random() < 0.7,)):
            n = L + R + (0 if omit else 1)
            probe_z1d_twins(ctx, dict(L=L, R=R, omit=omit, depths=twin_depths(rng, n, z1d_switch_index(L, R, omit)),
                                      mode=rng.choice(["sequential", "sequential", "prebuilt", "interleaved"])))
    for _ in range(ctx.n(100, 1000)):
        L, R = fresh_interval()
        probe_sm_twins(ctx, dict(L=L, R=R, depths=twin_depths(rng, L + R, z1d_switch_index(L, R, True), after=3),
                                 mode=rng.choice(["sequential", "sequential", "prebuilt", "interleaved"]),
                                 via=rng.choice(["direct", "direct", "factory"])))


def run(ctx):
    rng = ctx.rng
    bound = ctx.n(4096, 262144)
    block = 4096
    combos = [("cantor", 2), ("rs2", 2), ("rs", 2), ("szudzik", 2), ("pepis", 2), ("rs", 3), ("rs", 4), ("szudzik", 3), ("pepis", 3)]
    # 1. every index below the bound
    for kind, d in combos:
        b = bound if d <= 3 or ctx.thorough else bound
        for start in range(0, b, block):
            probe_proj_block(ctx, dict(kind=kind, d=d, start=start, count=min(block, b - start)))
    # 2. directed indices around perfect powers / triangular numbers / powers of two
    centres = directed_centres(rng, ctx.n(2, 12))
    for kind, d in combos:
        for why, c in centres:
            if kind == "pepis" and d == 3 and c > 2 ** 70:
                continue
            probe_proj_block(ctx, dict(kind=kind, d=d, start=max(0, c - 3), count=7, why=why))
    # 3. tuples: a full square / cube, and large coordinates next to each other
    side = ctx.n(24, 96)
    for kind in KINDS:
        probe_pair_tuples(ctx, dict(kind=kind, tuples=[list(t) for t in itertools.product(range(side), repeat=2)], why="square"))
    for kind, d, s in (("rs", 3, ctx.n(8, 20)), ("rs", 4, ctx.n(5, 9)), ("szudzik", 3, ctx.n(8, 20)), ("pepis", 3, 5)):
        probe_pair_tuples(ctx, dict(kind=kind, tuples=[list(t) for t in itertools.product(range(s), repeat=d)], why="cube"))
    for _ in range(ctx.n(20, 200)):
        k = rng.randint(2, 32)
        base = rng.randrange(2 ** (k - 1), 2 ** k)
        for kind, d in (("cantor", 2), ("rs2", 2), ("rs", 2), ("szudzik", 2), ("rs", 3), ("rs", 4), ("szudzik", 3)):
            tuples = {tuple(base + rng.randint(-2, 2) if rng.random() < 0.7 else rng.randrange(0, base) for _ in range(d)) for _ in range(6)}
            tuples |= {tuple([base] * d), tuple([base] * (d - 1) + [0]), tuple([0] * (d - 1) + [base])}
            probe_pair_tuples(ctx, dict(kind=kind, tuples=[list(t) for t in sorted(tuples)], why="large"))
    for _ in range(ctx.n(5, 30)):
        tuples = {(rng.randrange(0, 2 ** 20), rng.randint(0, 60)) for _ in range(6)}
        probe_pair_tuples(ctx, dict(kind="pepis", tuples=[list(t) for t in sorted(tuples)], why="large"))
    probe_hyperbolic(ctx, dict(n=ctx.n(3000, 20000), side=ctx.n(25, 40)))
    probe_hyperbolic_hard(ctx, dict(M=ctx.n(400_000, 3_000_000), top=ctx.n(1200, 8000), seed=rng.randrange(2 ** 30)))
    # 3b. the hyperbolic pairing in d coordinates (base-class fold) and on Z^d
    probe_hyperbolic_nd(ctx, dict(d=3, start=0, count=ctx.n(1500, 12000)))
    probe_hyperbolic_nd(ctx, dict(d=4, start=0, count=ctx.n(300, 2000)))
    probe_hyperbolic_nd(ctx, dict(d=2, start=0, count=ctx.n(1500, 12000), via="zd"))
    probe_hyperbolic_nd(ctx, dict(d=3, start=0, count=ctx.n(600, 5000), via="zd"))
    for _ in range(ctx.n(3, 12)):
        probe_hyperbolic_nd(ctx, dict(d=3, start=rng.randrange(10 ** 4, 10 ** 6), count=40, via=rng.choice(["N", "zd"])))
    # 4. folding and Z^d
    probe_fold(ctx, dict(values=list(range(-300, 301)), why="range"))
    probe_fold(ctx, dict(values=[s * (2 ** k + e) for k in range(8, 100, 7) for e in (-1, 0, 1) for s in (1, -1)], why="large"))
    for kind, d in (("cantor", 2), ("rs", 2), ("szudzik", 2), ("pepis", 2), ("rs", 3), ("rs", 4), ("szudzik", 3)):
        zb = min(bound, ctx.n(4096, 65536))
        for start in range(0, zb, block):
            probe_zd_block(ctx, dict(kind=kind, d=d, start=start, count=min(block, zb - start)))
        probe_zd_states(ctx, dict(kind=kind, d=d, b={2: ctx.n(12, 40), 3: ctx.n(4, 8), 4: 2}[d]))
        for why, c in centres[:: ctx.n(12, 3)]:
            if c >= 4:
                probe_zd_block(ctx, dict(kind=kind, d=d, start=c - 4, count=7, why=why))
    # 5. the interval [-L, R]
    # 5a. several objects of one configuration in one process (before anything else builds a PairingToZ1d: every scenario is a
    #     history of the whole process, so each one gets a configuration that no earlier object of this run has mapped)
    twin_scenarios(ctx, random.Random(f"c14-twins-{ctx.seed}"))      # own stream: the later generators keep theirs
    for L in range(1, 13):
        for R in range(1, 13):
            for omit in (True, False):
                probe_z1d_increasing(ctx, dict(L=L, R=R, omit=omit))
    for L, R in ((7, 13), (13, 7), (1, 200), (200, 1), (150, 151), (64, 64)):
        probe_z1d_increasing(ctx, dict(L=L, R=R, omit=True))
    # long asymmetric intervals (more than 2^10 indices after the switch): the answers must be stable when asked again
    for long in (1100, 1500, 3000, 5000):
        for short in (range(1, 9) if ctx.thorough else (1, 2, 4, 8)):
            probe_z1d_stable(ctx, dict(L=short, R=long, omit=True))
            probe_z1d_stable(ctx, dict(L=long, R=short, omit=True))
    for L, R, omit in ((3, 1100, False), (1100, 3, False), (40, 40, True), (7, 13, True), (rng.randint(1, 8), rng.randint(1030, 2500), True),
                       (rng.randint(1030, 2500), rng.randint(1, 8), True)):
        probe_z1d_stable(ctx, dict(L=L, R=R, omit=omit))
    # the Lean negation witness z1d_order_counterexample, replayed on the implementation
    for hist in ([6, 5], [5, 6], [6, 0, 1, 2, 3, 4, 5, 6]):
        probe_z1d_order(ctx, dict(L=2, R=5, omit=True, history=hist))
    for _ in range(ctx.n(150, 1500)):
        L, R = rng.randint(1, 12), rng.randint(1, 12)
        n = L + R
        mode = rng.choice(["perm", "reversed", "sample", "prefix_then_jump", "increasing"])
        if mode == "perm":
            hist = rng.sample(range(n), n)
        elif mode == "reversed":
            hist = list(reversed(range(n)))
        elif mode == "sample":
            hist = [rng.randrange(n) for _ in range(rng.randint(1, 2 * n))]
        elif mode == "prefix_then_jump":
            k = rng.randrange(n)
            hist = list(range(k)) + [n - 1] + list(range(k, n))
        else:
            hist = list(range(n))
        probe_z1d_order(ctx, dict(L=L, R=R, omit=True, history=hist))
    # 6. lazy cartesian product
    for length in (1, 2, 3):
        for sizes in itertools.product(range(1, 5), repeat=length):
            probe_lazy(ctx, dict(sizes=list(sizes)))
    for sizes in ([1, 1], [1, 1, 1], [1, 2], [2, 1], [3, 1, 2], [1, 3, 1, 2], [4, 1, 1, 5], [1, 49], [49, 1, 3], [1, 103, 2]):
        probe_lazy(ctx, dict(sizes=sizes))
    for sizes in ([2, 3], [3, 2], [1, 5, 1], [5, 1, 7], [0, 3], [3, 0], [2, 0, 2], [7, 9, 11], [2, 3, 4, 5], [9, 9], [21, 21], [1], [6, 5, 4, 3, 2]):
        probe_lazy(ctx, dict(sizes=sizes))
    for _ in range(ctx.n(20, 150)):
        probe_lazy(ctx, dict(sizes=[rng.randint(1, 9) for _ in range(rng.randint(1, 4))]))
    # 7. StatesManager: 1-d
    for L in range(1, ctx.n(7, 13)):
        for R in range(1, ctx.n(7, 13)):
            probe_sm_1d(ctx, dict(source="synthetic", L=L, R=R))
    for fam, params in zoo.model_stream(rng, ctx.n(6, 24)):
        for gk in zoo.GRID_KINDS:
            kw = {}
            h = rng.choice([0.2, 0.1, 0.05])
            if gk in ("uniform", "geometric"):
                kw["truncation_probability"] = rng.choice([0.99, 0.999])
            if gk in ("geometric", "geometric_bounds"):
                kw["nb"] = rng.choice([2, 3, 5, 8])
            if gk == "geometric_bounds":
                kw["truncations"] = [-rng.choice([0.5, 1.0, 2.0]), rng.choice([0.75, 1.5, 3.0])]
            if gk == "fixed":
                kw["nb_of_points"] = rng.choice([3, 5, 8, 9, 21])
            if gk == "probstep":
                kw["minimum_probability_step"] = rng.choice([0.05, 0.1, 0.2])
                h = max(h, 0.05)
            if gk == "credit":
                kw["level_a"] = -rng.choice([0.25, 0.3, 0.5])
            probe_sm_1d(ctx, dict(source="factory", family=fam, params=params, grid_kind=gk, h=h, kw=kw))
    # edge arguments: h of the order of / larger than the truncation range (one-sided or 3-point grids, or the constructor refuses)
    for fam, params in zoo.model_stream(rng, ctx.n(2, 6)):
        for gk, kw in (("uniform", dict(truncation_probability=0.99)), ("fixed", dict(nb_of_points=3)), ("credit", dict(level_a=-0.5)),
                       ("geometric_bounds", dict(nb=2, truncations=[-1.0, 1.5]))):
            for h in (0.5, 1.0, 4.0):
                probe_sm_1d(ctx, dict(source="factory", family=fam, params=params, grid_kind=gk, h=h, kw=kw))
    for L, R in ((4, 1400), (1400, 3), (rng.randint(1, 6), rng.randint(1100, 2000))):
        probe_sm_frontier_after_exhaustion(ctx, dict(L=L, R=R))
    # 8. StatesManager: boxes
    for d, nbs in ((2, [3, 4, 5, 6, 9]), (3, [3, 4, 5] + ([6] if ctx.thorough else []))):
        for nb in nbs:
            for kind in (["cantor", "rs", "szudzik", "pepis"] if d == 2 else ["rs", "szudzik"]):
                probe_sm_box(ctx, dict(grid="fixed", nb=nb, d=d, pairing=kind))
            probe_sm_box(ctx, dict(grid="fixed", nb=nb, d=d, pairing="factory"))
    for _ in range(ctx.n(4, 16)):
        d = rng.choice([2, 2, 3])
        o = rng.randint(1, 3)
        ns = [o + rng.randint(2, 4) for _ in range(d)]
        for kind in (["cantor", "rs", "szudzik", "pepis"] if d == 2 else ["rs", "szudzik"]):
            probe_sm_box(ctx, dict(grid="axes", o=o, ns=ns, pairing=kind))
    for _ in range(ctx.n(3, 10)):
        d = rng.choice([2, 2, 3])
        inp = dict(grid="credit", margins=[rng.choice(["hem", "merton", "vg", "cgmy"]) for _ in range(d)],
                   copula=rng.choice(zoo.COPULAS), h=rng.choice([0.1, 0.05]), a=[-rng.choice([0.25, 0.3, 0.4]) for _ in range(d)],
                   sym=rng.choice([True, False]), pairing="factory")
        probe_sm_box(ctx, inp)
    # box grids with the origin in the corner and axes of size 1 (size tuples containing 1)
    for ns in ([1, 3], [3, 1], [2, 1, 3], [1, 4, 1], [1, 1, 2], [4, 1]):
        for kind in (["cantor", "szudzik", "pepis"] if len(ns) == 2 else ["szudzik"]):
            probe_sm_box(ctx, dict(grid="axes", o=0, ns=ns, pairing=kind))
    # dimension 3, unequal per-axis thresholds
    probe_sm_box(ctx, dict(grid="credit", margins=["hem", "merton", "hem"], copula="clayton", h=0.1, a=[-0.25, -0.3, -0.4], sym=False,
                           pairing="factory"))
    # real grids d = 3, 4 with the factory's pairing (Rosenberg-Strong): every inside non-origin state exactly once (repaired by 94bedf1)
    for d, nbs in ((3, [3, 4, 5, 6]), (4, [3, 4] + ([6] if ctx.thorough else []))):
        for nb in nbs:
            probe_sm_factory_nd(ctx, dict(grid="fixed", nb=nb, d=d))
    for d, o, ns in ((3, 1, [3, 5, 4]), (3, 2, [4, 3, 6]), (3, 3, [5, 4, 4]), (3, 1, [2, 2, 7]), (4, 1, [3, 2, 4, 3]), (4, 2, [3, 4, 3, 5]),
                     (3, rng.randint(1, 3), None), (3, rng.randint(1, 3), None), (4, rng.randint(1, 2), None)):
        if ns is None:
            ns = [o + rng.randint(2, 4) for _ in range(d)]          # origin strictly inside every axis, as on every real grid
        probe_sm_factory_nd(ctx, dict(grid="axes", o=o, ns=ns))
    probe_sm_factory_nd(ctx, dict(grid="credit", margins=["hem", "merton", "hem"], copula="clayton", h=0.1, a=[-0.25, -0.3, -0.4], sym=False))
    probe_sm_factory_nd(ctx, dict(grid="credit", margins=["hem", "vg", "cgmy"], copula="independent" if "independent" in zoo.COPULAS else zoo.COPULAS[0],
                                  h=0.05, a=[-0.3, -0.4, -0.25], sym=True))
    if ctx.thorough:
        probe_sm_factory_nd(ctx, dict(grid="credit", margins=["hem", "hem", "merton", "hem"], copula="clayton", h=0.1, a=[-0.25, -0.3, -0.4, -0.3], sym=False))
    # object reuse: one pairing object shared by two managers (two grid objects), and a deep copy taken half-way
    for L, R in ((2, 5), (5, 2), (1, 7), (7, 1), (4, 4), (3, 40), (rng.randint(1, 9), rng.randint(1, 9))):
        probe_sm_shared(ctx, dict(pairing="z1d", o=L, ns=[L + R + 1]))
    for _ in range(ctx.n(6, 30)):
        d = rng.choice([2, 2, 3])
        o = rng.randint(0, 3)
        ns = [o + rng.randint(1 if o == 0 else 2, 4) for _ in range(d)]
        if math.prod(ns) < 3:
            continue
        probe_sm_shared(ctx, dict(pairing=rng.choice(["cantor", "rs", "szudzik", "pepis"] if d == 2 else ["rs", "szudzik"]), o=o, ns=ns))
    # 9. arbitrary call histories of the states manager (skip pointer, reset) against M
    # the Lean negation witnesses replayed on the implementation (theorems sm_history_skip_witness, sm_reset_witnesses)
    for w in (dict(pairing="z1d", o=1, ns=[4], xs=[1, 2, 3, 4], max_logged=-1, phenomenon="skip"),
              dict(pairing="z1d", o=1, ns=[4], xs=[0, 1, 0], max_logged=0, phenomenon="repeat"),
              dict(pairing="z1d", o=1, ns=[3], xs=[0, 1, 2, 0], max_logged=0, phenomenon="revive"),
              dict(pairing="cantor", o=1, ns=[3, 3], xs=[3, 3, 4, 9, 20, 21], max_logged=-1, phenomenon="skip"),
              # the inversion sampler's pattern once its storage (max_logged) is full: calls 0..max_logged-1, then max_logged
              dict(pairing="cantor", o=1, ns=[3, 3], xs=[0, 1, 2, 3, 4, 5, 6], max_logged=6, phenomenon="repeat")):
        probe_sm_history(ctx, w)
    # never-skipping and non-decreasing histories (theorems sm_history_never_skipping, sm_history_at_most_once)
    for _ in range(ctx.n(40, 300)):
        d = rng.choice([1, 2, 2, 3])
        o = rng.randint(1, 3)
        ns = [o + rng.randint(2, 4) for _ in range(d)]
        kind = "z1d" if d == 1 else rng.choice(["cantor", "rs", "szudzik", "pepis"] if d == 2 else ["rs", "szudzik"])
        n_calls = rng.randint(1, math.prod(ns) + 4)
        if d == 1 or rng.random() < 0.6:
            xs = [rng.randint(0, k) for k in range(n_calls)]                          # never skipping
            if rng.random() < 0.5:
                xs = [max(xs[: k + 1]) for k in range(n_calls)]                      # ... and non-decreasing
        else:
            xs = sorted(rng.randrange(3 * math.prod(ns)) for _ in range(n_calls))     # non-decreasing with jumps
        probe_sm_history(ctx, dict(pairing=kind, o=o, ns=ns, xs=xs, max_logged=-1))
    for _ in range(ctx.n(40, 400)):
        d = rng.choice([1, 2, 2, 3])
        o = rng.randint(1, 3)
        ns = [o + rng.randint(2, 4) for _ in range(d)]
        kind = "z1d" if d == 1 else rng.choice(["cantor", "rs", "szudzik", "pepis"] if d == 2 else ["rs", "szudzik"])
        total = math.prod(ns)
        if d == 1:
            xs = [rng.randint(0, k) for k in range(rng.randint(1, total + 3))]     # never skips an index: x_k <= k
            ml = -1
        else:
            top = 4 * total
            xs = [rng.randrange(top) if rng.random() < 0.3 else k for k in range(rng.randint(1, total + 4))]
            ml = rng.choice([-1, -1, rng.choice(xs), 10 ** 6])
        probe_sm_history(ctx, dict(pairing=kind, o=o, ns=ns, xs=xs, max_logged=ml))


def replay(ctx, rec):
    probe = rec["probe"]
    if probe.endswith(".model"):
        probe = probe[: -len(".model")]
    fn = PROBES.get(probe)
    if fn is None:
        ctx.fail("corr", probe, rec.get("input"), {"name": f"no probe named {probe} in harness/props/c14.py"})
        return
    inp = dict(rec["input"])
    if probe in ("c14.proj_block", "c14.zd_block") and "index" in inp:
        inp.update(start=max(0, int(inp.pop("index")) - 3), count=7)
    if probe == "c14.pair_tuples":
        inp["tuples"] = [[int(c) for c in t] for t in inp["tuples"]]
    if probe == "c14.fold":
        inp["values"] = [int(v) for v in inp["values"]]
    for k in ("index", "state", "tuple", "object"):
        inp.pop(k, None)
    fn(ctx, inp)


def search(ctx):
    """extended oracle-only search (called when only the tie broke): more large indices and tuples, round trips"""
    rng = ctx.rng
    for _ in range(400):
        k = rng.randint(3, 64)
        c = rng.randrange(2 ** (k - 1), 2 ** k)
        for kind, d in (("cantor", 2), ("rs2", 2), ("rs", 2), ("szudzik", 2), ("pepis", 2), ("rs", 3), ("szudzik", 3)):
            probe_proj_block(ctx, dict(kind=kind, d=d, start=c, count=3, why="search"))
    for L in range(1, 25):
        for R in range(1, 25):
            probe_z1d_increasing(ctx, dict(L=L, R=R, omit=True))
            probe_sm_1d(ctx, dict(source="synthetic", L=L, R=R))
