"""Source-derived tie (DESIGN.md §9): which functions of /repo are translated to Lean on every run, per property.

`generate(prop, repo_root)` parses the *current* source, writes lean/RpylibModel/Generated/Src<prop>.lean and returns a
report.  The hand-written obligations about the generated definitions live in lean/RpylibModel/ProofsGen/Src<prop>.lean
(target RpylibModel.ProofsGen.Src<prop>) and are audited through lean/Audit/<prop>Src.lean.

Outcomes (harness/main.py):
  * every listed function translates and the obligations build   -> the tie holds; theorems counted in the evidence;
  * a listed function is outside the translatable subset / moved -> its definition is replaced by the *recorded* translation
    of the validated source kept in lean/RpylibModel/Generated/baseline/ ONLY so that the file still elaborates; the function
    is reported as `unavailable` in the evidence, the run gets the boosted budget, and this alone is never a violation (the
    behavioural correspondence still ties the model to the code);
  * it translates but an obligation no longer checks              -> a broken proof: search for a failing input on the
    implementation (the property's own oracles, with the boosted budget); reported as the brief prescribes;
  * the optional alignment file ProofsGen/Src<prop>Model.lean ("translated source = hand-written model", which demands more
    than the property: e.g. the value of a digital exactly at the strike) stops checking while the obligations still do
                                                                   -> "alignment lost": recorded, boosted budget, never a
    violation by itself (the correspondence decides whether model and code still agree where the property constrains them).
"""
from __future__ import annotations

import pathlib

from . import py2lean as P
from .py2lean import Fn, Unit

HERE = pathlib.Path(__file__).resolve().parent.parent
GEN = HERE / "lean" / "RpylibModel" / "Generated"

I, R, B = P.INT, P.RAT, P.BOOL

SPEC: dict[str, list[Unit]] = {
    "C14": [
        Unit("rpylib/distribution/pairing.py", [
            Fn("Cantor.pairing2d"), Fn("Cantor.projection2d", ret="Int × Int"),
            Fn("RosenbergStrong.pairing2d"), Fn("RosenbergStrong.projection2d", ret="Int × Int"),
            Fn("Szudzik.pairing2d"), Fn("Szudzik.projection2d", ret="Int × Int"),
            Fn("PepisKalmar._aux_k", params={"z": I}, fuel="Int.toNat z + 1", err="(0 : Int)"),
            Fn("PepisKalmar._aux_j", params={"z": I}, fuel="Int.toNat z + 1", err="(0 : Int)"),
            Fn("PepisKalmar.pairing2d"), Fn("PepisKalmar.projection2d", ret="Int × Int"),
            Fn("mapping_to_z"), Fn("projection_to_z"),
            Fn("PairingToZ1d.pair", self_attrs={"left": I, "right": I, "_omitting_zero": I}),
        ]),
    ],
    "C03": [
        Unit("rpylib/process/coupling/couplingmarkovchain.py", [
            Fn("CouplingSimulation.probability_to_right_jump",
               params={"grid": "obj", "mass": "fn:Rat → Rat → Rat", "increment": I}, ret=R,
               const_exprs={"grid.origin_coordinate": ("origin", I)},
               opaque_index={"grid": ("grid_at", I, R)},
               opaque_fns={"grid.middle": ("middle", [R, R], R), "grid.left_point": ("left_point", [I], R),
                           "grid.right_point": ("right_point", [I], R)}),
        ]),
    ],
    "C09": [
        Unit("rpylib/model/levymodel/mixed/hem.py", [
            Fn("_HEMLevyMeasure.integrate", **(_HEM := dict(
                params={"a": R, "b": R}, ret=R, err="(0 : Rat)", fuel="2",
                self_attrs={"parameters.intensity": R, "parameters.p": R, "parameters.eta1": R, "parameters.eta2": R},
                const_exprs={"a==-np.inf": ("a_is_neg_inf", B), "b==np.inf": ("b_is_pos_inf", B)},
                fn_params={"np.exp": "exp"}))),
            Fn("_HEMLevyMeasure.integrate_against_x", **_HEM), Fn("_HEMLevyMeasure.integrate_against_xx", **_HEM),
        ]),
    ],
    "C10": [
        Unit("rpylib/model/levymodel/levymodel.py", [
            Fn("LevyTriplet.canonical_drift", **(_T := dict(
                ret=R, err="(0 : Rat)", self_attrs={"a": R}, enum_attrs={"representation": "LevyRepresentation"},
                const_calls={"self.nu.jump_of_finite_variation()": ("fv", B),
                             "self.nu.integrate_against_x(-1,1)": ("m1_unit", R),
                             "self.nu.integrate_against_x(-np.inf,-1)": ("m1_left", R),
                             "self.nu.integrate_against_x(1,np.inf)": ("m1_right", R)}))),
            Fn("LevyTriplet.zero_drift", **_T), Fn("LevyTriplet.center_drift", **_T), Fn("LevyTriplet.tilde_drift", **_T),
        ]),
    ],
    "C18": [
        Unit("rpylib/numerical/closedform/cfblackscholes.py", [
            Fn("CFBlackScholes.forward", **(_BS := dict(
                params={"strike": R, "strike1": R, "strike2": R, "strike3": R, "maturity": R, "flag": I}, ret=R,
                self_attrs={"bs_model.r": R, "bs_model.d": R, "bs_model.spot": R, "bs_model.parameters.sigma": R},
                consts={"CFBlackScholes.eps": ("((1 : Rat) / 100000000)", R)},
                fn_params={"np.exp": "exp", "np.log": "log", "np.sqrt": "sqrt", "norm.cdf": "cdf"}))),
            Fn("CFBlackScholes._call_put", **_BS), Fn("CFBlackScholes.call", **_BS), Fn("CFBlackScholes.put", **_BS),
            Fn("CFBlackScholes.butterfly", **_BS),
        ]),
    ],
    "C19": [
        Unit("rpylib/numerical/closedform/cflevymodel.py", [
            Fn("CFLevyModel.survival_probability", **(_CF := dict(
                params={"level_a": R, "t": R, "recovery_rate": R}, ret=R,
                opaque_fns={"self._theta": ("theta", [R], R)}, fn_params={"np.exp": "exp"}))),
            Fn("CFLevyModel.cds_spread", **_CF),
        ]),
    ],
    "C17": [
        Unit("rpylib/product/payoff.py", [
            Fn("FixedCoupon.evaluate", self_attrs={"coupon": R}),
            Fn("Forward.evaluate", self_attrs={"strike": R}),
            Fn("Vanilla.evaluate", self_attrs={"strike": R, "_call_put": I}),
            Fn("CallSpread.evaluate", self_attrs={"strike1": R, "strike2": R}),
            Fn("Digital.evaluate", params={"underlying": R}, self_attrs={"strike": R},
               enum_attrs={"payoff_type": "PayoffType"}),
        ]),
    ],
}


def _load_plugins():
    """harness/srcspec/Cxx.py: UNITS (appended to SPEC[Cxx]) and an optional search(ctx, lits)"""
    import importlib
    import os
    if os.environ.get("VERIF_NO_SRCPLUGINS") == "1":      # development switch: run a check without the plug-ins being written
        return
    d = pathlib.Path(__file__).resolve().parent / "srcspec"
    for f in sorted(d.glob("C[0-9][0-9].py")):
        m = importlib.import_module(f"harness.srcspec.{f.stem}")
        if f.stem in CORE_PROPS:
            # the property is tied already (SPEC above + ProofsGen/Src<prop>.lean): the plug-in's functions are translated into a
            # second file Generated/Src<prop>b.lean (namespace Rpylib.Src.<prop>b) with their own obligations ProofsGen/Src<prop>b.lean
            # and audit Audit/<prop>Srcb.lean, so that the first tie is untouched by work on the second
            PLUGIN_UNITS[f.stem] = list(getattr(m, "UNITS", []))
        else:
            SPEC[f.stem] = list(getattr(m, "UNITS", []))
        if hasattr(m, "search"):
            prev = globals().get(f"_search_{f.stem}")

            def both(ctx, lits, _prev=prev, _new=m.search):
                if _prev is not None:
                    _prev(ctx, lits)
                _new(ctx, lits)
            PLUGIN_SEARCH[f.stem] = both


PLUGIN_SEARCH: dict = {}
PLUGIN_UNITS: dict = {}
CORE_PROPS = frozenset(SPEC)


def header(prop, units, report):
    lines = [f"/- GENERATED by harness/srctie.py + harness/py2lean.py from /repo's current source — do not edit by hand.",
             f"   Source-derived definitions for {prop}: each `def` is the translation of the named Python function (PyLite subset:",
             "   int -> Int with floor division, float -> Rat read exactly, see harness/py2lean.py for the chosen semantics).", ]
    for u in units:
        for q in u.fns:
            lines.append(f"   {u.path} :: {q} : {report.get(q, '?') if report.get(q) == 'ok' else 'UNAVAILABLE (' + str(report.get(q)) + ')'}")
    lines.append("-/")
    return "\n".join(lines)


def _gen_file(prop: str, suffix: str, units, repo_root):
    """translate `units` into Generated/Src<prop><suffix>.lean; returns (path, report, unavailable)"""
    GEN.mkdir(exist_ok=True)
    body, report = [], {}
    for u in units:
        text, rep = P.translate_unit(repo_root, u, prop)
        body.append(text)
        report.update(rep)
    ns = f"Rpylib.Src.{prop}{suffix}"
    unavailable = {q: r for q, r in report.items() if r != "ok"}
    out = header(prop, units, report) + f"\nimport RpylibModel.Basic.PyPrelude\n\nnamespace {ns}\n\n" + "\n".join(body)
    # functions that could not be translated: keep the file elaborating with the recorded translation of the validated source
    base = GEN / "baseline" / f"Src{prop}{suffix}.lean"
    if unavailable and base.exists():
        btxt = base.read_text()
        for u in units:
            for q, fn in u.fns.items():
                if q in unavailable:
                    for nm in (fn.lean_name + "_fuel", fn.lean_name):
                        blk = _extract_def(btxt, nm)
                        if blk and f"def {nm} " not in out:
                            out += "\n-- RECORDED translation (the current source is outside the translatable subset)\n" + blk + "\n"
    out += f"\nend {ns}\n"
    target = GEN / f"Src{prop}{suffix}.lean"
    if not target.exists() or target.read_text() != out:
        target.write_text(out)
    return target, report, unavailable


def generate(prop: str, repo_root, force=False) -> dict | None:
    units = SPEC.get(prop)
    if not units:
        return None
    pg = HERE / "lean" / "RpylibModel" / "ProofsGen"
    if not (pg / f"Src{prop}.lean").exists() and not force:
        return None                      # no obligations written yet for this property: nothing to tie
    target, report, unavailable = _gen_file(prop, "", units, repo_root)
    info = {"file": str(target.relative_to(HERE)), "functions": report, "unavailable": unavailable,
            "lean_target": f"RpylibModel.ProofsGen.Src{prop}",
            "align_target": f"RpylibModel.ProofsGen.Src{prop}Model" if (pg / f"Src{prop}Model.lean").exists() else None,
            "extra_targets": [], "extra_audits": []}
    if PLUGIN_UNITS.get(prop) and ((pg / f"Src{prop}b.lean").exists() or force):
        t2, rep2, un2 = _gen_file(prop, "b", PLUGIN_UNITS[prop], repo_root)
        info["functions"] = {**report, **rep2}
        info["unavailable"] = {**unavailable, **un2}
        info["file_b"] = str(t2.relative_to(HERE))
        if (pg / f"Src{prop}b.lean").exists():
            info["extra_targets"].append(f"RpylibModel.ProofsGen.Src{prop}b")
            info["extra_audits"].append("Srcb")
    return info


def _extract_def(text: str, name: str):
    lines = text.split("\n")
    for i, l in enumerate(lines):
        if l.startswith(f"def {name} "):
            j = i + 1
            while j < len(lines) and (lines[j].startswith(" ") or lines[j] == "") and not lines[j].startswith("/--"):
                j += 1
            start = i - 1 if i > 0 and lines[i - 1].startswith("/--") else i
            return "\n".join(lines[start:j]).rstrip()
    return None


def record_baseline(prop):
    """developer helper: store the translation of the validated source (python -m harness.srctie C14)"""
    (GEN / "baseline").mkdir(exist_ok=True, parents=True)
    (GEN / "baseline" / f"Src{prop}.lean").write_text((GEN / f"Src{prop}.lean").read_text())
    if (GEN / f"Src{prop}b.lean").exists() and PLUGIN_UNITS.get(prop):
        (GEN / "baseline" / f"Src{prop}b.lean").write_text((GEN / f"Src{prop}b.lean").read_text())


if __name__ == "__main__":
    import os
    import sys
    from harness import srctie as _st       # the imported module (not __main__) owns SPEC and the plug-ins
    SPEC, generate, record_baseline, PLUGIN_UNITS = _st.SPEC, _st.generate, _st.record_baseline, _st.PLUGIN_UNITS
    repo = os.environ.get("VERIF_REPO", "/repo")
    for p in sys.argv[1:] or list(SPEC):
        info = generate(p, repo, force=True)
        print(p, info["functions"])
        if not info["unavailable"]:
            record_baseline(p)


# ---------------------------------------------------------------------------------------------------------------------
# search for a failing input when an obligation about the translated source no longer checks (never a substitute for it):
# numeric literals of the CURRENT source of the translated functions are harvested and used, with their neighbours, as
# directed inputs of the property's identities evaluated on the real implementation.
def harvest_literals(prop, repo_root):
    import ast
    vals = set()
    for u in list(SPEC.get(prop, [])) + list(PLUGIN_UNITS.get(prop, [])):
        try:
            tree = ast.parse((pathlib.Path(repo_root) / u.path).read_text())
        except Exception:
            continue
        for q in u.fns:
            node, _ = P._find(tree, q)
            if node is None:
                continue
            for n in ast.walk(node):
                if isinstance(n, ast.Constant) and isinstance(n.value, (int, float)) and not isinstance(n.value, bool):
                    vals.add(n.value)
                elif isinstance(n, (ast.BinOp, ast.UnaryOp)):
                    v = _fold(n)            # constant sub-expressions such as 10**40 + 7
                    if v is not None:
                        vals.add(v)
    return vals


def _fold(n, depth=0):
    """value of an arithmetic expression made of numeric literals only (None otherwise); sizes are capped"""
    import ast
    if depth > 12:
        return None
    if isinstance(n, ast.Constant):
        return n.value if isinstance(n.value, (int, float)) and not isinstance(n.value, bool) else None
    if isinstance(n, ast.UnaryOp) and isinstance(n.op, (ast.USub, ast.UAdd)):
        v = _fold(n.operand, depth + 1)
        return None if v is None else (-v if isinstance(n.op, ast.USub) else v)
    if isinstance(n, ast.BinOp):
        a, b = _fold(n.left, depth + 1), _fold(n.right, depth + 1)
        if a is None or b is None:
            return None
        try:
            if isinstance(n.op, ast.Add):
                return a + b
            if isinstance(n.op, ast.Sub):
                return a - b
            if isinstance(n.op, ast.Mult):
                return a * b
            if isinstance(n.op, ast.Pow) and abs(b) <= 400 and abs(a) <= 10 ** 6:
                return a ** b
            if isinstance(n.op, ast.FloorDiv) and b != 0:
                return a // b
            if isinstance(n.op, ast.Div) and b != 0:
                return a / b
        except Exception:
            return None
    return None


def search(prop, ctx):
    fn = PLUGIN_SEARCH.get(prop) or globals().get(f"_search_{prop}")
    if fn is None:
        return
    lits = harvest_literals(prop, ctx_repo())
    try:
        fn(ctx, lits)
    except Exception as e:  # the search is best effort
        ctx.notes.append(f"source-tie search raised {type(e).__name__}: {e}")


def ctx_repo():
    import os
    return os.environ.get("VERIF_REPO") or "/repo"


def _search_C17(ctx, lits):
    from rpylib.product.payoff import Vanilla, CallSpread, Digital, Forward, PayoffType
    base = [-3.0, -1.0, 0.0, 0.5, 1.0, 2.0, 7.25, 100.0]
    pts = sorted({float(x) for l in lits for x in (l, l - 1, l + 1, l - 2.0 ** -10, l + 2.0 ** -10, -l)} | set(base))
    pts = [p for p in pts if abs(p) < 1e15][:400]
    ks = sorted(set(base) | {float(l) for l in lits if abs(l) < 1e15})[:40]
    found = 0
    for u in pts:
        for k in ks:
            call, put = Vanilla(k, PayoffType.CALL).evaluate(u), Vanilla(k, PayoffType.PUT).evaluate(u)
            fwd = Forward(k).evaluate(u)
            dc, dp = Digital(k, PayoffType.CALL).evaluate(u), Digital(k, PayoffType.PUT).evaluate(u)
            inp = {"underlying": u, "strike": k}
            ctx.count("c17.src.search", inp, nontrivial=False)
            if abs((call - put) - fwd) > 1e-9 * max(1.0, abs(u), abs(k)) or call < 0 or put < 0:
                ctx.fail("oracle", "c17.src.search.parity", inp, {"call": float(call), "put": float(put), "forward": float(fwd)})
                found += 1
            if dc + dp != 1:
                ctx.fail("oracle", "c17.src.search.digital", inp, {"digital_call": float(dc), "digital_put": float(dp)})
                found += 1
            for k2 in ks:
                if k < k2:
                    cs = CallSpread(k, k2).evaluate(u)
                    comb = Vanilla(k, PayoffType.CALL).evaluate(u) - Vanilla(k2, PayoffType.CALL).evaluate(u)
                    if abs(cs - comb) > 1e-9 * max(1.0, abs(u), abs(k), abs(k2)) or cs < 0:
                        ctx.fail("oracle", "c17.src.search.callspread", {"underlying": u, "strike1": k, "strike2": k2},
                                 {"call_spread": float(cs), "call(K1)-call(K2)": float(comb)})
                        found += 1
            if found > 20:
                return


def _search_C14(ctx, lits):
    from rpylib.distribution.pairing import Cantor, RosenbergStrong, Szudzik, PepisKalmar, mapping_to_z, projection_to_z
    ints = sorted({int(l) for l in lits if isinstance(l, int) and 0 <= l < 10 ** 300})
    zs = sorted({z for l in ints for z in range(max(0, l - 3), l + 4)} | set(range(0, 2000))
                | {m * m + d for m in ints for d in (-1, 0, 1) if m * m + d >= 0})
    found = 0
    for name, P2 in (("cantor", Cantor), ("rs", RosenbergStrong), ("szudzik", Szudzik), ("pepis", PepisKalmar)):
        for z in zs:
            if name == "pepis" and z > 10 ** 6 and (z + 1) % (1 << 64) == 0:
                continue
            ctx.count("c14.src.search", {"pairing": name, "z": z}, nontrivial=False)
            try:
                x, y = P2.projection2d(z)
                back = P2.pairing2d(x, y)
            except Exception as e:
                ctx.fail("oracle", "c14.src.search.roundtrip", {"pairing": name, "z": z}, {"raised": repr(e)})
                found += 1
                continue
            if back != z or x < 0 or y < 0:
                ctx.fail("oracle", "c14.src.search.roundtrip", {"pairing": name, "z": z}, {"projection": [int(x), int(y)], "pairing": int(back)})
                found += 1
            if found > 20:
                return
        small = [v for v in ints if v < 3000][:60] + list(range(0, 40))
        for x in small:
            for y in small:
                if name == "pepis" and y > 200:
                    continue
                z = P2.pairing2d(x, y)
                if tuple(int(v) for v in P2.projection2d(z)) != (x, y):
                    ctx.fail("oracle", "c14.src.search.roundtrip", {"pairing": name, "x": x, "y": y},
                             {"pairing": int(z), "projection": [int(v) for v in P2.projection2d(z)]})
                    found += 1
                    if found > 20:
                        return
    for n in sorted({v for l in ints for v in (l, -l, l + 1, -l - 1)} | set(range(-50, 50))):
        if projection_to_z(mapping_to_z(n)) != n:
            ctx.fail("oracle", "c14.src.search.fold", {"n": n}, {"mapping_to_z": int(mapping_to_z(n))})


def _search_C10(ctx, lits):
    """representation walks on real triplets (every family, every ordered triple of representations): reversible, path-independent"""
    import itertools
    from rpylib.model.levymodel.levymodel import LevyRepresentation as LR
    from . import zoo
    reps = [LR.ZERO, LR.CENTER, LR.ONEONE, LR.TILDE]
    found = 0
    cases = [(f, {}) for f in zoo.FAMILIES] + [("cgmy", zoo.draw_params(__import__("random").Random(7), "cgmy", y)) for y in zoo.CGMY_Y_BRANCHES]
    for fam, prm in cases:
        try:
            fv = bool(zoo.make_levy(fam, prm).levy_triplet.nu.jump_of_finite_variation())
        except Exception:
            fv = True
        # ZERO (no compensator at all) exists only for jumps of finite variation: for an infinite-variation measure the
        # library's own conversion through ZERO is not defined (the first moment over (-1, 1) diverges) - not an input of the walk
        ok_reps = reps if fv else [r for r in reps if r is not LR.ZERO]
        for r1, r2, r3 in itertools.product(ok_reps, repeat=3):
            try:
                m = zoo.make_levy(fam, prm)
                t = m.levy_triplet
                a0, r0 = float(t.a), t.representation
                t.set_representation(r1); t.set_representation(r2)
                a12 = float(t.a)
                t.set_representation(r3)
                a123 = float(t.a)
                m2 = zoo.make_levy(fam, prm)
                m2.levy_triplet.set_representation(r3)
                direct = float(m2.levy_triplet.a)
                t.set_representation(r0)
                back = float(t.a)
            except Exception as e:
                ctx.fail("oracle", "c10.src.search.walk", {"family": fam, "params": prm, "walk": [r.name for r in (r1, r2, r3)]}, {"raised": repr(e)})
                found += 1
                continue
            inp = {"family": fam, "params": prm, "walk": [r.name for r in (r1, r2, r3)]}
            ctx.count("c10.src.search", inp, nontrivial=False)
            sc = max(1.0, abs(a0), abs(a12), abs(a123))
            if abs(a123 - direct) > 1e-9 * sc or abs(back - a0) > 1e-9 * sc:
                ctx.fail("oracle", "c10.src.search.walk", inp, {"after_walk": a123, "direct": direct, "back": back, "start": a0})
                found += 1
            if found > 20:
                return


def _search_C18(ctx, lits):
    from rpylib.model.levymodel.mixed.blackscholes import BlackScholesModel, BlackScholesParameters
    from rpylib.numerical.closedform.cfblackscholes import CFBlackScholes
    import math
    vals = sorted({float(x) for l in lits for x in (l, l * 2, l / 2, l + 1) if 0 < abs(l) < 1e9} | {0.5, 1.0, 50.0, 100.0, 150.0, 1e-9, 0.2})
    found = 0
    for spot in (100.0, 1e-9):
        for sigma in (0.2, 1e-9, 0.6):
            for r, d in ((0.02, 0.0), (0.05, 0.03), (0.0, 0.04)):
                try:
                    pr = CFBlackScholes(BlackScholesModel(spot=spot, r=r, d=d, parameters=BlackScholesParameters(sigma=sigma)))
                except Exception:
                    continue
                for T in (1.0, 0.25, 1e-9, 3.0):
                    for K in [v for v in vals if v > 0][:40]:
                        inp = {"spot": spot, "sigma": sigma, "r": r, "d": d, "T": T, "K": K}
                        ctx.count("c18.src.search", inp, nontrivial=False)
                        try:
                            c, p, f = float(pr.call(K, T)), float(pr.put(K, T)), float(pr.forward(K, T))
                        except Exception:
                            continue
                        if abs((c - p) - f) > 1e-9 * max(1.0, spot, K):
                            ctx.fail("oracle", "c18.src.search.parity", inp, {"call": c, "put": p, "forward": f})
                            found += 1
                            if found > 20:
                                return


_load_plugins()
