"""Tracing of every random draw, seed call, pre-drawn row and path boundary of a pricing run — from the harness, by
wrapping (no change to /repo).  Events are appended as JSON lines to one file per process id under a directory (forked
pathos workers inherit the wrappers and write their own files).

Token semantics (same as lean/RpylibModel/Model/Rng.lean): a draw of `n` scalars from library `lib` in generator state
`src` at position `pos` consumes tokens (lib, src, pos … pos+n-1); `seed(s)` puts the generator in state ("s", s) at
position 0 whatever it did before; a process that has never seeded is in state ("a", pid)."""
from __future__ import annotations

import json
import os
import random as pyrandom
from collections import deque
from contextlib import contextmanager
from pathlib import Path

import numpy as np

_DIR = {"path": None}
_BATCH = {"n": 0}


def _log(ev):
    d = _DIR["path"]
    if d is None:
        return
    with open(os.path.join(d, f"log.{os.getpid()}"), "a") as f:
        f.write(json.dumps(ev) + "\n")


class LogDeque(deque):
    """deque of pre-drawn rows that logs which row (of which batch) every popleft hands out"""

    def __init__(self, items=(), kind="?", batch=-1):
        super().__init__(items)
        self.kind, self.batch, self.popped = kind, batch, 0

    def popleft(self):
        item = super().popleft()
        _log({"e": "pop", "q": self.kind, "batch": self.batch, "row": self.popped})
        self.popped += 1
        return item

    def __getitem__(self, i):
        # a row read without being removed is a consumption of that row as well
        item = super().__getitem__(i)
        if isinstance(i, int):
            _log({"e": "pop", "q": self.kind, "batch": self.batch, "row": self.popped + (i if i >= 0 else len(self) + i)})
        return item

    def pop(self):
        item = super().pop()
        _log({"e": "pop", "q": self.kind, "batch": self.batch, "row": self.popped + len(self)})
        return item

    def __reduce__(self):
        return (_rebuild_logdeque, (list(self), self.kind, self.batch, self.popped))

    def __deepcopy__(self, memo):
        c = LogDeque(list(self), self.kind, self.batch)
        c.popped = self.popped
        return c

    def __copy__(self):
        return self.__deepcopy__({})


def _rebuild_logdeque(items, kind, batch, popped):
    d = LogDeque(items, kind, batch)
    d.popped = popped
    return d


def _count(size):
    if size is None:
        return 1
    return int(np.prod(size))


@contextmanager
def tracing(directory):
    """install the wrappers; yields nothing; restores everything on exit"""
    from rpylib.process import levyprocess
    from rpylib.process.coupling import couplingmarkovchain
    Path(directory).mkdir(parents=True, exist_ok=True)
    for f in Path(directory).glob("log.*"):
        f.unlink()
    _DIR["path"] = str(directory)
    _BATCH["n"] = 0
    saved = []

    def patch(obj, name, new):
        saved.append((obj, name, getattr(obj, name)))
        setattr(obj, name, new)

    def wrap_draw(lib, orig, size_of):
        def f(*a, **k):
            _log({"e": "draw", "lib": lib, "n": size_of(a, k)})
            return orig(*a, **k)
        return f

    npr = np.random
    o_seed = npr.seed
    patch(npr, "seed", lambda s=None: (_log({"e": "seed", "lib": "np", "s": None if s is None else int(s)}), o_seed(s))[1])
    for name in ("normal", "uniform", "random", "random_sample", "poisson", "choice", "exponential"):
        orig = getattr(npr, name)
        if name == "choice":
            patch(npr, name, wrap_draw("np", orig, lambda a, k: _count(k.get("size", a[1] if len(a) > 1 else None))))
        elif name in ("random", "random_sample"):
            patch(npr, name, wrap_draw("np", orig, lambda a, k: _count(k.get("size", a[0] if a else None))))
        elif name == "poisson" or name == "exponential":
            patch(npr, name, wrap_draw("np", orig, lambda a, k: _count(k.get("size", a[1] if len(a) > 1 else None))))
        else:  # normal(loc, scale, size) / uniform(low, high, size)
            patch(npr, name, wrap_draw("np", orig, lambda a, k: _count(k.get("size", a[2] if len(a) > 2 else None))))
    p_seed = pyrandom.seed
    patch(pyrandom, "seed", lambda s=None, *a: (_log({"e": "seed", "lib": "py", "s": None if s is None else int(s)}), p_seed(s, *a))[1])
    patch(pyrandom, "getrandbits", wrap_draw("py", pyrandom.getrandbits, lambda a, k: 1))
    patch(pyrandom, "random", wrap_draw("py", pyrandom.random, lambda a, k: 1))

    # pre-drawn rows: label the two deques of SimulationFixedTimes
    o_pre = levyprocess.SimulationFixedTimes.pre_computation

    def pre_computation(self, mc_paths, product):
        batch = _BATCH["n"] = _BATCH["n"] + 1
        _log({"e": "pre_begin", "batch": batch, "rows": int(mc_paths)})
        o_pre(self, mc_paths, product)
        nb = len(self._times) - 1
        _log({"e": "pre_end", "batch": batch, "rows": int(mc_paths), "nb": nb, "dim": int(self.process.dimension())})
        self._brownian_increments = LogDeque(list(self._brownian_increments), "b", batch)
        self._poisson_rv = LogDeque(list(self._poisson_rv), "p", batch)

    patch(levyprocess.SimulationFixedTimes, "pre_computation", pre_computation)

    # path boundaries
    def wrap_path(orig):
        def f(self, *a, **k):
            _log({"e": "path_begin"})
            try:
                return orig(self, *a, **k)
            finally:
                _log({"e": "path_end"})
        return f

    patch(levyprocess.LevyProcess, "simulate_one_path", wrap_path(levyprocess.LevyProcess.simulate_one_path))
    patch(couplingmarkovchain.CouplingMarkovChain, "simulate_one_path_with_coupling",
          wrap_path(couplingmarkovchain.CouplingMarkovChain.simulate_one_path_with_coupling))
    try:
        yield
    finally:
        for obj, name, old in reversed(saved):
            setattr(obj, name, old)
        _DIR["path"] = None


def read(directory, main_pid=None):
    """-> {pid: [events]}"""
    out = {}
    for f in sorted(Path(directory).glob("log.*")):
        pid = int(f.name.split(".")[1])
        out[pid] = [json.loads(l) for l in f.read_text().splitlines() if l.strip()]
    return out


def analyse(events_by_pid, main_pid):
    """Turn the event streams into consumption tokens.
    Returns dict(paths=[{pid, tokens:[(lib,src,pos)…]}], seeds=[(pid, lib, s, draws_before)], passes=[…structure of the main
    process…], problems=[…])"""
    problems, paths, seeds = [], [], []
    batch_tokens = {}          # (batch, q, row) -> [tokens]   (pre-drawn rows belong to the process that drew them: main)
    passes = []                # structure of the main process for the model: dict(rows, n, fly, predraw)
    for pid in sorted(events_by_pid, key=lambda p: (p != main_pid, p)):
        evs = events_by_pid[pid]
        state = {"np": [("a", pid), 0], "py": [("a", pid), 0]}
        seeded = {"np": False, "py": False}
        draws_since_start = 0
        cur_path = None
        in_pre = None
        pre_draw_tokens = []
        cur_pass = None
        for ev in evs:
            e = ev["e"]
            if e == "seed":
                seeds.append((pid, ev["lib"], ev["s"], draws_since_start))
                state[ev["lib"]] = [("s", ev["s"]), 0]
                seeded[ev["lib"]] = True
            elif e == "draw":
                lib, n = ev["lib"], ev["n"]
                if pid != main_pid and not seeded[lib]:
                    problems.append({"what": "a worker process draws from the generator state it inherited from its parent", "pid": pid, "lib": lib})
                src, pos = state[lib]
                toks = [(lib, src, pos + i) for i in range(n)]
                state[lib][1] = pos + n
                draws_since_start += n
                if in_pre is not None:
                    pre_draw_tokens.append(toks)
                elif cur_path is not None:
                    cur_path["tokens"] += toks
                    cur_path["fly"] += n
                else:
                    problems.append({"what": "draw outside a path and outside a pre-computation", "pid": pid, "n": n})
            elif e == "pre_begin":
                in_pre, pre_draw_tokens = ev["batch"], []
            elif e == "pre_end":
                rows, nb, dim = ev["rows"], ev["nb"], ev["dim"]
                flat = [t for ts in pre_draw_tokens for t in ts]
                # draw order in SimulationFixedTimes.pre_computation: Poisson counts interval by interval (rows each), then
                # one normal call of rows*dim*nb scalars
                pois, brow = flat[:rows * nb], flat[rows * nb:]
                for r in range(rows):
                    batch_tokens[(ev["batch"], "p", r)] = [pois[k * rows + r] for k in range(nb)] if len(pois) == rows * nb else None
                    batch_tokens[(ev["batch"], "b", r)] = brow[r * dim * nb:(r + 1) * dim * nb] if len(brow) == rows * dim * nb else None
                if len(flat) != rows * nb + rows * dim * nb:
                    problems.append({"what": "pre-computation drew an unexpected number of variates", "rows": rows, "drawn": len(flat)})
                in_pre = None
                if pid == main_pid:
                    cur_pass = {"rows": rows * nb, "rows_b": rows * dim * nb, "n": 0, "fly": [], "predraw": True, "unit": (nb, dim)}
                    passes.append(cur_pass)
            elif e == "path_begin":
                cur_path = {"pid": pid, "tokens": [], "fly": 0, "pops": []}
            elif e == "path_end":
                if cur_path is not None:
                    paths.append(cur_path)
                    if pid == main_pid:
                        if cur_path["pops"]:
                            if cur_pass is None:
                                cur_pass = {"rows": 0, "n": 0, "fly": [], "predraw": True, "unit": (1, 1)}
                                passes.append(cur_pass)
                            cur_pass["n"] += 1
                            cur_pass["fly"].append(cur_path["fly"])
                        else:
                            if cur_pass is None or cur_pass["predraw"]:
                                cur_pass = {"rows": 0, "n": 0, "fly": [], "predraw": False, "unit": (1, 1)}
                                passes.append(cur_pass)
                            cur_pass["n"] += 1
                            cur_pass["fly"].append(cur_path["fly"])
                cur_path = None
            elif e == "pop":
                toks = batch_tokens.get((ev["batch"], ev["q"], ev["row"]))
                if toks is None:
                    problems.append({"what": "pop of an unknown pre-drawn row", "ev": ev})
                    toks = [("row", (ev["batch"], ev["q"]), ev["row"])]
                if cur_path is not None:
                    cur_path["tokens"] += toks
                    cur_path["pops"].append((ev["batch"], ev["q"], ev["row"]))
    return dict(paths=paths, seeds=seeds, passes=passes, problems=problems)
